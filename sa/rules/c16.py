"""C16 contraction schemes: the library is evaluated on small abstract terms and the result is compared with the
property itself (conservation of objects, closure of summed indices, requested targets, limits, scaling, value)."""
from __future__ import annotations

import ast
import itertools
import zlib

from ..model import AnalysisError, U
from ..symex import Symex, Obj, Atom, Func, ClassRef, Ext, Raised
from ..terms import T

EXPLANATION = (
    "The public functions optimize_contractions / unoptimized_contraction and the public class Contraction are "
    "*evaluated* by sa.symex (everything they call inside the package is evaluated through; only the term/index "
    "vocabulary - term.objects, term.target, obj.base_and_exponent, obj.sympy.is_number, obj.longname(), obj.idx, "
    "Index.space/spin/name, get_symbols - is modelled) on a bounded family of small abstract terms (1-5 tensors and "
    "deltas over occupied/virtual/general indices, with and without spin, exponents, number and symbol prefactors, "
    "canonical / permuted / batch target indices, with and without the two limits).  Every returned scheme, every "
    "candidate scheme the search generated (the values yielded by the generator functions that were evaluated) and "
    "every Contraction object that was built is compared with an independently written reference: "
    "R16a shape (a list of Contraction records whose `indices` is a sequence of index tuples and `names` a sequence of "
    "strings of the same length); R16b conservation (the leaves of the scheme are exactly the tensors and deltas of the "
    "term, exponent-many times, numbers and symbols skipped, negative exponents and foreign objects refused; the final "
    "contraction carries the requested target indices - term.target or get_symbols(target_indices, target_spin) - in "
    "the requested order, also for requested targets that are not the Einstein targets: an index that occurs once - in one "
    "object, in an intermediate or in the last contraction - and is not requested is summed exactly once; divisions by symbols, tensors or deltas are refused whatever other prefactors stand next to "
    "them, numbers with negative exponent are plain prefactors; every operand is an object of the term or an earlier "
    "result read with exactly the index order it was stored with, also when a result-shaped intermediate meets "
    "remaining scalar factors under a permuted target order; call history: optimize_contractions / "
    "unoptimized_contraction called for the same objects with other targets, target order or limits one after another "
    "on one path - module and class level state is evaluated state - return what each call returns alone); R16c split (at every step of every scheme an index is kept iff it is a target of the term, or occurs once in "
    "the contraction and is carried by another live object - the pool is simulated -, everything else is summed; every "
    "Contraction built obeys the same rule for the external indices it was given, None = keep every single index; both groups canonically sorted; result-shaped contraction adopts the requested order); R16d scaling "
    "(computational = contracted + target and memory = target per space and in total, the chosen scheme minimises "
    "(max, multiplicity of max) per field total/general/virt/occ, computational before memory, over the generated "
    "candidates, never above the single simultaneous contraction; ScalingComponent orders by `total` first; call "
    "history: two or three Contractions constructed one after another on one path - class level and module level state "
    "of the package is evaluated state - report the same, true scaling as each alone, in every order); "
    "R16e limits (no contraction of more than max_n_simultaneous_contracted objects, no intermediate above "
    "max_itmd_dim, in any candidate scheme, including 5-6 object terms whose groups grow by several objects per step under "
    "every limit 2..5; RuntimeError when no scheme exists); R16f assembly (unique result names "
    "recognised by is_contraction, every intermediate consumed exactly once, after it was produced, with its target "
    "indices; single final contraction; empty term -> []); R16g closure (no index is summed while another live object "
    "still carries it); R16h value (each scheme evaluated step by step on pseudo-random integer tensors of dimension 2 "
    "equals the directly summed term).")
ASSUMPTIONS = [
    "bounded: the property is decided on the listed family of abstract terms (<= 5 objects, <= 8 indices), not for all terms",
    "the vocabulary of Term/Obj/Index (objects, target, base_and_exponent, sympy.is_number, longname, idx, space, spin, "
    "name, get_symbols) is modelled, not analysed here",
    "optimality is decided relative to the candidate schemes the library's own search generates; completeness of that "
    "search (which closed groups it offers, growth of groups to their fix point) is not decided",
    "evaluations that do not terminate within the evaluator's bounds or use constructs outside the evaluator are analysis "
    "errors (exit 2), not verdicts",
    "terms for which every offered group exceeds max_itmd_dim while the simultaneous contraction of all objects is within "
    "the limits are not evaluated: the library raises RuntimeError there (reported defect, not repaired), the rules have "
    "no opinion on it",
    "an intermediate whose indices equal the requested target tuple is exempt from max_itmd_dim (as documented by the "
    "library: only non result-shaped inner contractions are restricted)",
]

OCM = "generate_code.optimize_contractions"
COM = "generate_code.contraction"
OC = OCM + ":"
CO = COM + ":"
CLS = CO + "Contraction"
IDX = "indices:Index"

SPACES = {"occ": "ijklmno", "virt": "abcdefgh", "general": "pqrstuvw"}
FIELDS = ("total", "general", "virt", "occ")


# ------------------------------------------------------------------------------------------------ abstract vocabulary
class Malformed(Exception):
    """The evaluated code produced a value that is not a contraction scheme at all."""

    def __init__(self, rule, msg):
        super().__init__(msg)
        self.rule, self.msg = rule, msg


def split_names(s):
    out = []
    for ch in s:
        if ch.isdigit() and out:
            out[-1] += ch
        else:
            out.append(ch)
    return out


def space_of(name):
    for sp, letters in SPACES.items():
        if name[0] in letters:
            return sp
    raise AnalysisError(f"C16: index name {name} outside the modelled spaces")


def canon_key(k):
    name, spin = k
    return (space_of(name)[0], spin, int(name[1:]) if name[1:] else 0, name[0])


class World:
    """The indices of one scenario: one abstract Index object per (name, spin)."""

    def __init__(self):
        self.objs = {}
        self.keys = {}

    def index(self, name, spin=""):
        k = (name, spin)
        if k not in self.objs:
            o = Atom(IDX, name + ("_" + spin if spin else ""), space=space_of(name), spin=spin, dummy_index=len(self.objs),
                    is_Symbol=True, is_number=False)
            o.attrs["name"] = name
            o.attrs["space_and_spin"] = (space_of(name), spin)
            self.objs[k] = o
            self.keys[id(o)] = k
        return self.objs[k]

    def indices(self, names, spins=None):
        ns = split_names(names) if isinstance(names, str) else list(names)
        sp = list(spins) if spins else [""] * len(ns)
        if len(sp) != len(ns):
            raise Raised("Inputerror", "spin string does not match the indices")
        return [self.index(n, s) for n, s in zip(ns, sp)]

    def key(self, o):
        if isinstance(o, Obj) and id(o) in self.keys:
            return self.keys[id(o)]
        raise Malformed("R16a", f"`{o!r}` is used as an index but is not an Index of the term")

    def keyseq(self, seq, what):
        if not isinstance(seq, (list, tuple)):
            raise Malformed("R16a", f"{what} is `{seq!r}`, not a sequence of indices")
        return tuple(self.key(x) for x in seq)


KIND_CLASSES = {
    "tensor": ("AntiSymmetricTensor", "SymbolicTensor", "Expr", "Basic"),
    "nstensor": ("NonSymmetricTensor", "SymbolicTensor", "Expr", "Basic"),
    "delta": ("KroneckerDelta", "Function", "Expr", "Basic"),
    "symbol": ("Symbol", "Expr", "Basic", "AtomicExpr"),
    "number": ("Integer", "Rational", "Number", "Expr", "Basic", "AtomicExpr"),
    "operator": ("F", "FermionicOperator", "SqOperator", "Expr", "Basic"),
    "polynom": ("Add", "Expr", "Basic"),
}


class Spec:
    """A small abstract term.  objs: (longname, index string, exponent[, kind[, spins]])."""

    def __init__(self, label, objs, target=None, spin=None, max_dim=None, max_n=None, term_target=None):
        self.label = label
        self.objs = []
        for o in objs:
            name, idx, exp = o[0], o[1], o[2] if len(o) > 2 else 1
            kind = o[3] if len(o) > 3 else ("delta" if name == "delta" else "tensor")
            spins = o[4] if len(o) > 4 else None
            self.objs.append((name, idx, exp, kind, spins))
        self.target, self.spin, self.max_dim, self.max_n = target, spin, max_dim, max_n
        self.term_target = term_target

    # ---- the expected behaviour, written down independently of the library
    def leaves(self):
        """multiset (sorted list) of the (name, index keys) the scheme has to consume."""
        out = []
        for name, idx, exp, kind, spins in self.objs:
            if kind in ("tensor", "nstensor", "delta"):
                ks = tuple(zip(split_names(idx), spins or [""] * len(split_names(idx))))
                out.extend([(name, ks)] * exp)
        return sorted(out)

    def refused(self):
        """the term must be refused (NotImplementedError): division or an object that is no tensor/delta/prefactor."""
        for name, idx, exp, kind, spins in self.objs:
            if kind == "number":
                continue
            if exp < 0 or kind in ("operator", "polynom"):
                return True
        return False

    def einstein_target(self):
        """term.target: the indices that occur exactly once, canonically sorted."""
        if self.term_target is not None:
            return tuple(self.term_target)
        cnt = {}
        for name, ks in self.leaves():
            for k in ks:
                cnt[k] = cnt.get(k, 0) + 1
        return tuple(sorted((k for k, n in cnt.items() if n == 1), key=canon_key))

    def requested(self):
        if self.target is None:
            return self.einstein_target()
        ns = split_names(self.target)
        return tuple(zip(ns, self.spin or [""] * len(ns)))

    def describe(self):
        def one(o):
            name, idx, exp, kind, spins = o
            s = f"{name}_{idx}" if idx else name
            if spins:
                s += f"[{spins}]"
            return s + (f"^{exp}" if exp != 1 else "")
        t = "einstein" if self.target is None else f"'{self.target}'" + (f"/'{self.spin}'" if self.spin else "")
        lim = "".join(f", {k}={v}" for k, v in (("max_itmd_dim", self.max_dim), ("max_n_simultaneous_contracted", self.max_n))
                      if v is not None)
        return " ".join(one(o) for o in self.objs) + f" -> {t}{lim}"


def build_term(world, spec):
    objs = []
    for pos, (name, idx, exp, kind, spins) in enumerate(spec.objs):
        indices = tuple(world.indices(idx, spins))
        base = Obj(None, f"base{pos}:{name}", _classes=KIND_CLASSES[kind], is_number=(kind == "number"))
        base.attrs["name"] = name
        sympy = Obj(None, f"sympy{pos}:{name}", is_number=(kind == "number"), is_Number=(kind == "number"),
                    is_Symbol=(kind == "symbol" and exp == 1), is_Pow=(exp != 1), _classes=KIND_CLASSES[kind] if exp == 1 else ("Pow", "Expr", "Basic"))
        o = Obj(None, f"obj{pos}:{name}", base_and_exponent=(base, exp), base=base, exponent=exp, sympy=sympy, idx=indices,
                space="".join(space_of(n)[0] for n in split_names(idx)), spin="".join(spins or ""),
                type_as_str={"tensor": "antisym_tensor", "nstensor": "nonsym_tensor", "delta": "delta", "symbol": "prefactor",
                             "number": "prefactor", "operator": "create", "polynom": "polynom"}[kind],
                longname=(lambda sx, a, kw, n=name: n))
        o.attrs["name"] = name
        # the wrapper forwards unknown attributes to the wrapped sympy object
        for k, v in sympy.attrs.items():
            o.attrs.setdefault(k, v)
        objs.append(o)
    tgt = tuple(world.index(n, s) for n, s in spec.einstein_target())
    return Obj(None, "term", objects=tuple(objs), target=tuple(tgt), idx=tuple(i for o in objs for i in o.attrs["idx"]))


# ------------------------------------------------------------------------------------------------------- evaluation
class _Count:
    """itertools.count as created once (class attribute): a single shared state per evaluation."""

    def __init__(self, start, step):
        self.n, self.step = start, step

    def __deepcopy__(self, memo):
        return self


class _Counter(dict):
    """collections.Counter: absent keys count 0."""

    def __missing__(self, k):
        return 0


class Tracer(Symex):
    """Symex that remembers what every evaluated generator function of the package yielded."""

    def _invoke(self, f, args, kw, node, top=False):
        d = self.depth
        r = super()._invoke(f, args, kw, node, top)
        if isinstance(r, list) and not isinstance(f.node, ast.Lambda) and not top:
            self.yielded.append((d, r))
        return r


class Run:
    """One evaluation of a function of the package in a fresh abstract world."""

    def __init__(self, model, what):
        self.model, self.what = model, what
        self.world = World()
        self.built = []          # every Contraction object that was constructed, in order
        self.counters = {}
        sx = Tracer(model, inline=lambda q: True, hooks=self.hooks(), what=what, max_depth=40, max_paths=4,
                    max_steps=3000000, obj_identity=True)
        sx.yielded = []
        self.sx = sx

    # -- hooks (the modelled vocabulary)
    def hooks(self):
        h = {"Contraction": self.h_contraction, "count": self.h_count, "next": self.h_next, "Counter": self.h_counter,
             "from_iterable": self.h_chain, "combinations": self.h_combinations, "fields": self.h_fields,
             "get_symbols": self.h_get_symbols, "max": self.h_extreme(max), "min": self.h_extreme(min)}
        for mod in (COM, OCM):
            m = self.model.module(mod)
            for q, c in m.classes.items():
                if dataclass_info(c) is not None:
                    h[q] = (lambda sx, a, kw, c=c, mod=mod, q=q: self.h_dataclass(mod, q, c, a, kw))
        return h

    def h_count(self, sx, a, kw):
        start = a[0] if a else kw.get("start", 0)
        step = a[1] if len(a) > 1 else kw.get("step", 1)
        if len(a) > 2 or not (isinstance(start, int) and isinstance(step, int)) or set(kw) - {"start", "step"}:
            return NotImplemented      # some other function that happens to be called `count`
        return self.counters.setdefault((start, step), _Count(start, step))

    def h_next(self, sx, a, kw):
        if a and isinstance(a[0], _Count):
            v = a[0].n
            a[0].n += a[0].step
            return v
        return NotImplemented

    def h_counter(self, sx, a, kw):
        c = _Counter()
        for x in (sx.iterate(a[0], None) if a else []):
            c[x] = c[x] + 1
        return c

    def h_chain(self, sx, a, kw):
        out = []
        for x in sx.iterate(a[0], None):
            out.extend(sx.iterate(x, None))
        return out

    def h_combinations(self, sx, a, kw):
        return [tuple(p) for p in itertools.combinations(list(sx.iterate(a[0], None)), a[1] if len(a) > 1 else kw["r"])]

    def h_fields(self, sx, a, kw):
        c = a[0]
        if isinstance(c, Obj) and c.cls:
            mod, _, q = c.cls.partition(":")
            c = ClassRef(self.model.modules[mod], q)
        if not isinstance(c, ClassRef):
            return NotImplemented
        info = dataclass_info(c.module.classes[c.qual])
        if info is None:
            raise Raised("TypeError", "fields() of a class that is no dataclass")
        out = []
        for n in info["fields"]:
            f = Obj(None, f"field:{n}")
            f.attrs["name"] = n
            out.append(f)
        return tuple(out)

    def h_get_symbols(self, sx, a, kw):
        indices = a[0] if a else kw.get("indices")
        spins = a[1] if len(a) > 1 else kw.get("spins")
        if isinstance(indices, Obj):
            return [indices]
        if not indices:
            return []
        if not isinstance(indices, str):
            if all(isinstance(i, Obj) for i in indices):
                return indices
            indices = "".join(indices)
        if not (spins is None or isinstance(spins, str)):
            raise AnalysisError(f"C16({self.what}): get_symbols called with spins `{spins!r}`")
        return self.world.indices(indices, spins)

    def h_extreme(self, pyf):
        def hook(sx, a, kw):
            seq = a[0] if len(a) == 1 else a
            if isinstance(seq, (list, tuple)) and seq and all(isinstance(x, Obj) and "_dc" in x.attrs for x in seq) and not kw:
                if not all(x.attrs["_dc"]["order"] for x in seq):
                    raise Raised("TypeError", "ordering of a dataclass without order=True")
                return pyf(seq, key=lambda x: tuple(x.attrs[f] for f in x.attrs["_dc"]["fields"]))
            return NotImplemented
        return hook

    def h_dataclass(self, mod, q, cnode, a, kw):
        info = dataclass_info(cnode)
        names = list(info["fields"])
        if len(a) > len(names):
            raise Raised("TypeError", f"{q}: too many arguments")
        vals = dict(zip(names, a))
        for k, v in kw.items():
            if k not in names or k in vals:
                raise Raised("TypeError", f"{q}: unexpected argument {k}")
            vals[k] = v
        if set(vals) != set(names):
            raise Raised("TypeError", f"{q}: missing arguments {sorted(set(names) - set(vals))}")
        o = Obj(f"{mod}:{q}", f"{q}#{len(self.built)}", **{n: vals[n] for n in names})
        o.attrs["_dc"] = info
        return o

    def h_contraction(self, sx, a, kw):
        init = sx.find_method(CLS, "__init__")
        if init is None:
            raise AnalysisError("C16: Contraction.__init__ not found")
        o = Obj(CLS, f"Contraction#{len(self.built)}")
        f = Func(init[0], [], init[0]._module, init[0]._qual, bound=o)
        b = sx.bind(init[0], [o] + list(a), kw)
        # the record that will be built must be a contraction of index tuples
        self.args_shape(b)
        sx._invoke(f, a, kw, init[0])
        o.attrs["_ctor"] = {k: v for k, v in b.items() if k != "self"}
        self.built.append(o)
        return o

    def args_shape(self, b):
        ind, nam = b.get("indices"), b.get("names")
        if not isinstance(ind, (list, tuple)) or not all(isinstance(t, (list, tuple)) for t in ind):
            raise Malformed("R16a", f"Contraction(indices={show_val(ind)}): not a sequence of index tuples (one tuple per "
                            "contracted object); the constructor iterates it as such")
        for t in ind:
            self.world.keyseq(t, "an element of `indices`")
        if not isinstance(nam, (list, tuple)) or not all(isinstance(n, str) for n in nam):
            raise Malformed("R16a", f"Contraction(names={show_val(nam)}): not a sequence of names (one string per object)")
        if len(nam) != len(ind):
            raise Malformed("R16a", f"Contraction built from {len(nam)} names but {len(ind)} index tuples")

    # -- driving
    def call(self, ref, make_args):
        """-> ('return', value) | ('raise', exception name)"""
        outs = self.sx.run(ref, make_args)
        if len(outs) != 1:
            raise AnalysisError(f"C16({self.what}): the evaluation depends on something outside the modelled vocabulary "
                                f"({len(outs)} paths: {[o.path for o in outs][:2]})")
        o = outs[0]
        return (o.kind, o.value if o.kind == "return" else o.exc)


def dataclass_info(cnode):
    for d in cnode.decorator_list:
        f = d.func if isinstance(d, ast.Call) else d
        if U(f).split(".")[-1] == "dataclass":
            kw = {k.arg: k.value.value for k in d.keywords if isinstance(k.value, ast.Constant)} if isinstance(d, ast.Call) else {}
            fields = [n.target.id for n in cnode.body if isinstance(n, ast.AnnAssign) and isinstance(n.target, ast.Name)
                      and "ClassVar" not in U(n.annotation)]
            return {"fields": tuple(fields), "order": bool(kw.get("order", False))}
    return None


def show_val(v, depth=0):
    if isinstance(v, (list, tuple)):
        br = "[]" if isinstance(v, list) else "()"
        return br[0] + ", ".join(show_val(x, depth + 1) for x in v) + br[1]
    if isinstance(v, Obj):
        return v.name
    return repr(v)


# ------------------------------------------------------------------------------------------------- reference model
class Rec:
    """A Contraction object of the evaluation, translated into plain data."""

    def __init__(self, world, o):
        if not (isinstance(o, Obj) and o.cls == CLS):
            raise Malformed("R16a", f"`{show_val(o)}` is not a Contraction")
        a = o.attrs
        for need in ("indices", "names", "contracted", "target", "scaling", "contraction_name"):
            if need not in a:
                raise Malformed("R16a", f"Contraction object without attribute `{need}`")
        if not isinstance(a["indices"], (list, tuple)):
            raise Malformed("R16a", f"Contraction.indices is `{show_val(a['indices'])}`")
        self.obj = o
        self.indices = tuple(world.keyseq(t, "an element of Contraction.indices") for t in a["indices"])
        if not isinstance(a["names"], (list, tuple)) or not all(isinstance(n, str) for n in a["names"]):
            raise Malformed("R16a", f"Contraction.names is `{show_val(a['names'])}`, not a sequence of strings")
        self.names = tuple(a["names"])
        if len(self.names) != len(self.indices):
            raise Malformed("R16a", f"Contraction with {len(self.names)} names and {len(self.indices)} index tuples")
        self.contracted_is_tuple = isinstance(a["contracted"], tuple)
        self.target_is_tuple = isinstance(a["target"], tuple)
        self.contracted = world.keyseq(a["contracted"], "Contraction.contracted")
        self.target = world.keyseq(a["target"], "Contraction.target")
        self.cname = a["contraction_name"]
        if not isinstance(self.cname, str):
            raise Malformed("R16f", f"contraction_name is `{show_val(self.cname)}`")
        sc = a["scaling"]
        self.scaling = {}
        for part in ("computational", "memory"):
            p = sc.attrs.get(part) if isinstance(sc, Obj) else None
            if not isinstance(p, Obj) or not all(isinstance(p.attrs.get(f), int) for f in FIELDS):
                raise Malformed("R16d", f"Contraction.scaling.{part} is `{show_val(p)}`: no ScalingComponent with integer "
                                f"fields {FIELDS}")
            self.scaling[part] = {f: p.attrs[f] for f in FIELDS}

    def operands(self):
        return list(zip(self.names, self.indices))

    def show(self):
        ops = " ".join(f"{n}_{fmt(ix)}" for n, ix in self.operands())
        return f"{self.cname}: [{ops}] sum({fmt(self.contracted)}) -> {fmt(self.target)}"


def fmt(keys):
    return "".join(n + (f"({s})" if s else "") for n, s in keys) or "-"


def ref_split(indices, term_targets, external=None):
    """(summed, kept) index sets of one contraction.  An index is kept iff it is a target index of the term, or it occurs
    once in the contraction and is carried by an object outside the contraction (`external`: the indices of all other live
    objects; None = unknown, every index that occurs once is kept).  Everything else is summed - in particular an index
    that occurs once and nowhere else (sum over a single tensor axis)."""
    cnt = {}
    for t in indices:
        for k in t:
            cnt[k] = cnt.get(k, 0) + 1
    kept = {k for k, n in cnt.items() if k in term_targets or (n == 1 and (external is None or k in external))}
    return set(cnt) - kept, kept


def ref_contraction(indices, term_targets, external=None):
    summed, kept = ref_split(indices, term_targets, external)
    contracted = tuple(sorted(summed, key=canon_key))
    target = tuple(sorted(kept, key=canon_key))
    if tuple(sorted(term_targets, key=canon_key)) == target:
        target = tuple(term_targets)
    return contracted, target


def ref_scaling(contracted, target):
    comp = {"total": len(contracted) + len(target)}
    mem = {"total": len(target)}
    for sp in SPACES:
        comp[sp] = sum(1 for k in contracted if space_of(k[0]) == sp) + sum(1 for k in target if space_of(k[0]) == sp)
        mem[sp] = sum(1 for k in target if space_of(k[0]) == sp)
    return {"computational": comp, "memory": mem}


def ref_rank(recs):
    """ranking vector of a scheme: per field (max, multiplicity of the max), computational before memory."""
    out = []
    for part in ("computational", "memory"):
        for f in FIELDS:
            vals = [ref_scaling(r.contracted, r.target)[part][f] for r in recs]
            out.extend([max(vals), vals.count(max(vals))])
    return out


def tensor_value(name, values):
    return zlib.crc32(repr((name, tuple(values))).encode()) % 7 + 1


def direct_value(leaves, target, dim=2):
    allidx = sorted({k for _, ks in leaves for k in ks} | set(target))
    free = list(dict.fromkeys(target))
    summed = [k for k in allidx if k not in free]
    out = {}
    for fv in itertools.product(range(dim), repeat=len(free)):
        env = dict(zip(free, fv))
        tot = 0
        for sv in itertools.product(range(dim), repeat=len(summed)):
            env.update(zip(summed, sv))
            p = 1
            for name, ks in leaves:
                p *= tensor_value(name, [env[k] for k in ks])
            tot += p
        out[tuple(env[k] for k in target)] = tot
    return out


def scheme_value(recs, dim=2):
    """value of the last contraction when the scheme is carried out step by step (einsum semantics per step)."""
    tables = {}
    res = None
    for r in recs:
        free = list(dict.fromkeys(r.target))
        on_ops = {k for ix in r.indices for k in ix}
        if not set(free) <= on_ops:
            return None, f"{r.show()}: a result index does not occur on any operand"
        summed = sorted(on_ops - set(free))
        ops = []
        for name, ix in r.operands():
            if name in tables:
                tab, tix = tables[name]
                if len(tix) != len(ix):
                    return None, f"{r.show()}: intermediate {name} has {len(tix)} indices but is used with {len(ix)}"
                ops.append((tab, ix))
            else:
                ops.append((name, ix))
        out = {}
        for fv in itertools.product(range(dim), repeat=len(free)):
            env = dict(zip(free, fv))
            tot = 0
            for sv in itertools.product(range(dim), repeat=len(summed)):
                env.update(zip(summed, sv))
                p = 1
                for src, ix in ops:
                    vals = tuple(env[k] for k in ix)
                    p *= src[vals] if isinstance(src, dict) else tensor_value(src, vals)
                tot += p
            out[tuple(env[k] for k in r.target)] = tot
        tables[r.cname] = (out, r.target)
        res = out
    return res, None


# ------------------------------------------------------------------------------------------------ scheme verdicts
def scheme_findings(spec, recs, final=True):
    """Every way in which the contractions `recs` fail to be a valid scheme for `spec`: list of (rule, key, message)."""
    out = []
    requested = spec.requested()
    if not recs:
        return [("R16f", "empty scheme", "the scheme is empty although the term contains tensors")]
    names = [r.cname for r in recs]
    if len(set(names)) != len(names):
        out.append(("R16f", "unique name", f"contraction names are not unique: {names}"))
    produced = {}
    leaves = []
    consumed = {}
    # pool of live objects, step by step
    pool = [(n, ks) for n, ks in spec.leaves()]
    for step, r in enumerate(recs):
        ops = r.operands()
        for n, ix in ops:
            if n in produced:
                consumed[n] = consumed.get(n, 0) + 1
                if ix != produced[n].target:
                    out.append(("R16f", "pool indices", f"{r.show()}: the intermediate {n} was produced with the indices "
                                f"{fmt(produced[n].target)} but is consumed with {fmt(ix)}"))
                    out.append(("R16b", "operand indices", f"{r.show()}: the operand {n} is the result of an earlier "
                                f"contraction stored with the index order {fmt(produced[n].target)}, but it is read with "
                                f"{fmt(ix)} (every operand is an object of the term or an earlier result with exactly the "
                                "indices it carries)"))
            elif n in names:
                out.append(("R16f", "order", f"{r.show()}: {n} is consumed before it is produced"))
            else:
                leaves.append((n, ix))
        # closure: nothing that stays alive may carry an index that is summed here
        rest = list(pool)
        for n, ix in ops:
            key = (n, produced[n].target) if n in produced else (n, ix)
            if key in rest:
                rest.remove(key)
        for k in r.contracted:
            carriers = [n for n, ix in rest if k in ix]
            if carriers:
                out.append(("R16g", "closure", f"{r.show()}: the index {fmt([k])} is summed although {carriers} still carries "
                            "it (the group is not closed)"))
        # split: against the indices the other live objects carry at this step
        out.extend(contraction_findings(r, requested, {k for _, ix in rest for k in ix}, scaling=False))
        pool = rest + [(r.cname, r.target)]
        produced[r.cname] = r
    if sorted(leaves) != spec.leaves():
        from collections import Counter
        got, want = Counter(leaves), Counter(spec.leaves())
        miss = sorted((want - got).elements())
        extra = sorted((got - want).elements())
        out.append(("R16b", "conservation", "the scheme does not use every tensor/delta of the term exactly once (with "
                    f"multiplicity): missing {[f'{n}_{fmt(ix)}' for n, ix in miss]}, surplus {[f'{n}_{fmt(ix)}' for n, ix in extra]}"))
    for r in recs[:-1]:
        if consumed.get(r.cname, 0) != 1:
            out.append(("R16f", "consumed once", f"the intermediate {r.cname} is consumed {consumed.get(r.cname, 0)} times"))
    if consumed.get(recs[-1].cname, 0):
        out.append(("R16f", "final", "the last contraction is consumed by another one"))
    if final and recs[-1].target != requested:
        out.append(("R16b", "targets", f"the last contraction carries {fmt(recs[-1].target)}, requested were the target indices "
                    f"{fmt(requested)} in this order"))
    # limits
    if spec.max_n is not None:
        for r in recs:
            if len(r.names) > spec.max_n:
                out.append(("R16e", "group size", f"{r.show()} contracts {len(r.names)} objects simultaneously, "
                            f"max_n_simultaneous_contracted={spec.max_n}"))
    if spec.max_dim is not None:
        for r in recs[:-1]:
            if len(r.target) > spec.max_dim and r.target != requested:
                out.append(("R16e", "itmd dim", f"{r.show()} creates an intermediate of dimension {len(r.target)}, "
                            f"max_itmd_dim={spec.max_dim}"))
    # value (decided independently of the structural findings above)
    if final:
        want = direct_value(spec.leaves(), requested)
        got, err = scheme_value(recs)
        if got is not None and recs[-1].target != requested and sorted(recs[-1].target) == sorted(requested):
            # same result indices in another order: compare the tensors up to that transposition
            perm = [recs[-1].target.index(k) for k in requested]
            got = {tuple(key[p] for p in perm): v for key, v in got.items()}
        if err or got != want:
            out.append(("R16h", "value", "carried out step by step the scheme does not give the value of the term"
                        + (f" ({err})" if err else "")))
    return out


def contraction_findings(r, term_targets, external=None, scaling=True):
    """one Contraction object against the reference split / order / scaling."""
    out = []
    ctr, tgt = ref_contraction(r.indices, term_targets, external)
    if set(r.contracted) != set(ctr) or set(r.target) != set(tgt) or len(r.contracted) != len(ctr) or len(r.target) != len(tgt):
        ext = "" if external is None else f"; the other live objects carry {fmt(sorted(external, key=canon_key))}"
        out.append(("R16c", "split", f"{r.show()}: expected sum({fmt(ctr)}) -> {fmt(tgt)} (an index is kept iff it is a target "
                    "index of the term, or occurs once in the contraction and on an object outside of it; every other index "
                    f"is summed{ext})"))
    else:
        if r.contracted != ctr:
            out.append(("R16c", "sort", f"{r.show()}: summed indices not in canonical order {fmt(ctr)}"))
        if r.target != tgt:
            adopted = tgt == tuple(term_targets) and tuple(sorted(tgt, key=canon_key)) != tgt
            out.append(("R16c", "adopt order" if adopted else "sort",
                        f"{r.show()}: result indices expected in the order {fmt(tgt)}"
                        + (" (the requested order of the term's target indices)" if adopted else " (canonical)")))
        if not (r.contracted_is_tuple and r.target_is_tuple):
            out.append(("R16c", "store", f"{r.show()}: contracted/target are not stored as tuples (the search compares "
                        "`contraction.target` with the target tuple of the term)"))
    want = ref_scaling(r.contracted, r.target)
    if scaling and r.scaling != want:
        out.append(("R16d", "components", f"{r.show()}: reported scaling {r.scaling}, true scaling {want} (computational = "
                    "summed + result indices, memory = result indices, per space and in total)"))
    return out


# ------------------------------------------------------------------------------------------------------ scenarios
def S(label, objs, **kw):
    return Spec(label, objs, **kw)


QUICK = [
    S("pair", [("V", "ijab"), ("t2", "abij")]),
    S("pair kept", [("V", "ijab"), ("t1", "bj")]),
    S("permuted target", [("V", "ijab"), ("t1", "bj")], target="ai"),
    S("chain3", [("f", "ij"), ("t1", "ja"), ("Y", "ab")]),
    S("ring3 scalar", [("A", "ij"), ("B", "jk"), ("C", "ki")]),
    S("square", [("X", "ijab", 2)]),
    S("square + delta + prefactors", [("2", "", 1, "number"), ("c", "", 2, "symbol"), ("t1", "ia", 2), ("delta", "jk")]),
    S("trace", [("d", "iia"), ("t1", "ja")]),
    S("outer product", [("t1", "ia"), ("t1", "jb")], target="iajb"),
    S("batch index", [("A", "ika"), ("B", "kja")], target="ikj"),
    S("spin", [("A", "ia", 1, "tensor", "ab"), ("B", "aj", 1, "tensor", "bb")], target="ji", spin="ba"),
    S("spin batch", [("A", "ika", 1, "tensor", "aab"), ("B", "kja", 1, "tensor", "aab")], target="ikj", spin="aaa"),
    S("general indices", [("h", "pq"), ("D", "qp")]),
    S("mixed spaces", [("X", "pqi"), ("Y", "pqj"), ("Z", "ija")]),
    S("four objects", [("A", "cj"), ("B", "kiba"), ("C", "jid"), ("D", "kabc")], target="d"),
    S("four objects dim 2", [("A", "cj"), ("B", "kiba"), ("C", "jid"), ("D", "kabc")], target="d", max_dim=2),
    S("doubled pair", [("A", "ij"), ("B", "jk", 2), ("C", "ik")]),
    S("doubled pair n 3", [("A", "ij"), ("B", "jk", 2), ("C", "ik")], max_n=3),
    S("hyper only", [("A", "ijk"), ("B", "ijk"), ("C", "ijk")]),
    S("disconnected", [("A", "ij"), ("B", "ij"), ("C", "ab"), ("D", "ab")]),
    S("big intermediate", [("A", "ijab"), ("B", "klab"), ("C", "kc"), ("D", "lc")], target="ij", max_dim=2),
    S("rank by total", [("X", "ip"), ("Y", "pq"), ("Z", "qj"), ("W", "abj")], target="iab"),
    S("limit below the first level", [("A", "ij"), ("B", "jk", 2), ("C", "ik"), ("D", "ab")], max_n=3),
    S("result above dim", [("t2", "acik"), ("t2", "bcjk")], target="ijab", max_dim=2),
    S("result above dim 3 objects", [("t1", "ia"), ("t1", "jb"), ("f", "bc")], target="iajc", max_dim=2),
    S("rank general before virt/occ", [("A", "j"), ("B", "jq"), ("C", "kq")]),
    S("rank general before virt", [("A", "ibp"), ("B", "i"), ("C", "p")]),
    S("rank virt before occ", [("A", "ia"), ("B", "ij"), ("C", "aj")]),
    S("rank multiplicity", [("A", "kia"), ("B", "ki"), ("C", "a")]),
    S("rank computational before memory", [("A", "ij"), ("B", "iqj"), ("C", "q")]),
    S("rank memory breaks the tie", [("A", "j"), ("B", "jik"), ("C", "ik")]),
    S("rank memory breaks the tie four", [("A", "icab"), ("B", "c"), ("C", "i"), ("D", "ab")]),
    S("doubled pair first n 3", [("B", "jk", 2), ("A", "ij"), ("C", "ik")], max_n=3),
    S("rank four", [("A", "aj"), ("B", "bj"), ("C", "qa"), ("D", "qb")]),
    S("elementwise after a contraction of the same spaces", [("A", "il"), ("B", "jl"), ("C", "ij")], target="ij"),
    S("result-shaped intermediate, scalar factor left, permuted", [("A", "jb"), ("T", "ijab"), ("C", "kc"), ("D", "kc")], target="ai"),
    S("result-shaped intermediate, scalar factor left, canonical", [("A", "jb"), ("T", "ijab"), ("C", "kc"), ("D", "kc")], target="ia"),
    S("result-shaped outer product, scalar factor left, permuted", [("t1", "ia"), ("t1", "jb"), ("X", "kc", 2)], target="bjai"),
    S("result-shaped intermediate, delta trace left, permuted", [("V", "ijab"), ("Y", "jb"), ("delta", "kk")], target="ai"),
    S("result-shaped intermediate, spin, permuted", [("A", "jb", 1, "tensor", "ab"), ("T", "ijab", 1, "tensor", "baab"),
                                                     ("C", "k", 1, "tensor", "a"), ("D", "k", 1, "tensor", "a")], target="ai", spin="ab"),
    S("number**-1 next to a symbol", [("2", "", -1, "number"), ("c", "", 1, "symbol"), ("t1", "ia"), ("Y", "ia")]),
    # requested targets that are not the Einstein targets: an index that occurs once and is not requested is summed
    S("sum over one axis", [("A", "ia")], target="i"),
    S("sum over all axes", [("A", "ia")], target=""),
    S("sum over two axes, permuted", [("V", "ijab")], target="bi"),
    S("single index in both objects", [("A", "ia"), ("B", "jb")], target="ij"),
    S("single index in both objects, permuted", [("A", "ia"), ("B", "jb")], target="ji"),
    S("single index next to a shared one", [("A", "ia"), ("B", "ijb")], target="j"),
    S("single index summed in the last step", [("A", "ik"), ("B", "kj"), ("C", "ja")], target="i"),
    S("single index summed in an intermediate", [("A", "ik"), ("B", "kja"), ("C", "jb")], target="ba"),
    S("single index summed in an intermediate dim 2", [("A", "ik"), ("B", "kja"), ("C", "jb")], target="ba", max_dim=2),
    S("single indices everywhere", [("A", "ia"), ("B", "jb"), ("C", "ij")], target="a"),
    S("single indices, scalar", [("A", "ij"), ("B", "jk"), ("C", "kl")], target=""),
    S("single index with a square", [("t1", "ia", 2), ("Y", "jb")], target="j"),
    S("single index with spin", [("A", "ia", 1, "tensor", "ab"), ("B", "ijb", 1, "tensor", "aab")], target="j", spin="a"),
    S("single index n 2", [("A", "ia"), ("B", "ib"), ("C", "abc")], target="", max_n=2),
    S("delta summed", [("delta", "ij"), ("f", "jk")], target="i"),
    S("n 2", [("f", "ij"), ("t1", "ja"), ("Y", "ab"), ("Z", "bk")], max_n=2),
    S("single", [("V", "ijab")]),
    S("single permuted", [("V", "ijab")], target="abij"),
    S("single trace", [("V", "ijij")]),
    S("single delta", [("delta", "ij")]),
]

# terms in which a group of the search grows by more than one object per step (a summed index carried by m objects
# needs a contraction of at least m objects); every limit 2..5 is tried: (label, objects, target, {limit: a scheme exists})
LIMIT_FAMILY = [
    ("hub of four", [("A", "ij"), ("B", "i"), ("C", "ija"), ("D", "jb"), ("F", "jc")], "abc",
     {2: False, 3: False, 4: True, 5: True}, "quick"),                       # j is summed over 4 objects
    ("hub of four + spectator", [("A", "ij"), ("B", "i"), ("C", "ija"), ("D", "jb"), ("F", "jc"), ("G", "kd")], "abcdk",
     {2: False, 3: False, 4: True, 5: True}, "quick"),
    ("hub of five", [("P", "ab"), ("Q", "a"), ("R", "abi"), ("S", "bj"), ("T", "bk"), ("U", "bl")], "ijkl",
     {2: False, 3: False, 4: False, 5: True}, "quick"),                      # b is summed over 5 objects
    ("two hubs of three", [("A", "ia"), ("B", "ib"), ("C", "ab"), ("D", "bc"), ("E", "c"), ("F", "cd")], "d",
     {2: False, 3: True, 4: True, 5: True}, "thorough"),
    ("tail of three", [("A", "ij"), ("B", "ik"), ("C", "jl"), ("D", "klm"), ("E", "lm"), ("F", "m")], "",
     {2: False, 3: True, 4: True, 5: True}, "thorough"),
]


def limit_family(tier):
    feasible, impossible = [], []
    for label, objs, target, table, t in LIMIT_FAMILY:
        if t == "thorough" and tier != "thorough":
            continue
        feasible.append(S(f"{label}", objs, target=target))
        for n, ok in sorted(table.items()):
            (feasible if ok else impossible).append(S(f"{label} n {n}", objs, target=target, max_n=n))
    return feasible, impossible


REFUSED = [
    S("division", [("V", "ijab"), ("t2", "abij", -1)]),
    S("inverse square", [("e", "ia", -2), ("t1", "ia")]),
    S("symbol**-1", [("A", "ia"), ("w", "", -1, "symbol")]),
    S("symbol**-2", [("V", "ijab"), ("t2", "abij"), ("w", "", -2, "symbol")]),
    S("symbol**-1 first", [("w", "", -1, "symbol"), ("3", "", 1, "number"), ("A", "ia"), ("B", "ia")]),
    S("number**-1 and symbol**-1", [("2", "", -1, "number"), ("w", "", -1, "symbol"), ("A", "ia")]),
    S("tensor**-1 alone", [("e", "ia", -1)]),
    S("delta**-1", [("V", "ijab"), ("delta", "ij", -1)]),
    S("operator", [("V", "ijab"), ("a", "i", 1, "operator")]),
    S("polynom", [("V", "ijab"), ("poly", "ia", 1, "polynom")]),
]

EMPTY = [
    S("number only", [("3", "", 1, "number")]),
    S("prefactors only", [("3", "", 1, "number"), ("c", "", 1, "symbol")]),
]

IMPOSSIBLE = [
    S("hyper only n 2", [("A", "ijk"), ("B", "ijk"), ("C", "ijk")], max_n=2),
    S("dim 0", [("A", "ia"), ("B", "jb"), ("C", "ijab")], max_dim=0, max_n=2),
    S("shared by three n 2", [("A", "ia"), ("B", "ib"), ("C", "ic"), ("D", "abc")], max_n=2),
]
# Not evaluated (no opinion): terms in which every group the search offers creates an intermediate above max_itmd_dim while
# the single simultaneous contraction of all objects is within the limits (A_ij B_jk C_kl -> 'il', max_itmd_dim=1;
# A_ja B_kb C_lc D_abc -> 'jkl', max_itmd_dim=1).  The library raises RuntimeError there (reported, not repaired); the
# rules neither expect that error nor the simultaneous contraction.

THOROUGH = [
    S("five chain", [("A", "ij"), ("B", "jk"), ("C", "kl"), ("D", "lm"), ("E", "mi")]),
    S("five chain dim 2 n 2", [("A", "ij"), ("B", "jk"), ("C", "kl"), ("D", "lm"), ("E", "mn")], max_dim=2, max_n=2),
    S("adc-like", [("Y", "jb"), ("V", "icka"), ("t2", "bcjk")], target="ia"),
    S("adc-like permuted", [("Y", "jb"), ("V", "icka"), ("t2", "bcjk")], target="ai"),
    S("mp2 density", [("t2", "acik"), ("t2", "bcjk")], target="ijab"),
    S("star", [("A", "ia"), ("B", "ib"), ("C", "ic"), ("D", "abc")]),
    S("star n 2", [("A", "ja"), ("B", "kb"), ("C", "lc"), ("D", "abc")], target="jkl", max_n=2),
    S("star dim 3", [("A", "ja"), ("B", "kb"), ("C", "lc"), ("D", "abc")], target="jkl", max_dim=3),
    S("cube", [("X", "ia", 3)]),
    S("square in chain", [("A", "ij"), ("B", "jk", 2), ("C", "kl")]),
    S("two deltas", [("delta", "ij"), ("delta", "ab"), ("V", "iajb")]),
    S("spin mixed", [("A", "ijab", 1, "tensor", "abab"), ("B", "abk", 1, "tensor", "abb")], target="kji", spin="bba"),
    S("general", [("X", "pqrs"), ("Y", "rs"), ("Z", "qt")], target="tp"),
    S("four dim 3", [("A", "cj"), ("B", "kiba"), ("C", "jid"), ("D", "kabc")], target="d", max_dim=3),
    S("four n 2", [("A", "cj"), ("B", "kiba"), ("C", "jid"), ("D", "kabc")], target="d", max_n=2),
    S("four n 3 dim 3", [("A", "cj"), ("B", "kiba"), ("C", "jid"), ("D", "kabc")], target="d", max_n=3, max_dim=3),
]


# ----------------------------------------------------------------------------------------------------- evaluation
class Evaluated:
    """optimize_contractions / unoptimized_contraction evaluated on one spec."""

    def __init__(self, ctx, spec, fname):
        self.spec, self.fname = spec, fname
        self.fn = ctx.model.fn(OC + fname)
        self.run = Run(ctx.model, f"{fname}: {spec.describe()}")
        self.kind = self.value = self.error = None
        self.recs = None
        run = self.run

        def args():
            a = dict(term=build_term(run.world, spec), target_indices=spec.target, target_spin=spec.spin)
            params = {p.arg for p in self.fn.args.args + self.fn.args.kwonlyargs}
            if "max_itmd_dim" in params:
                a["max_itmd_dim"] = spec.max_dim
            if "max_n_simultaneous_contracted" in params:
                a["max_n_simultaneous_contracted"] = spec.max_n
            return a
        try:
            self.kind, self.value = run.call(self.fn, args)
            if self.kind == "return":
                v = self.value
                if not isinstance(v, list):
                    raise Malformed("R16a", f"returns `{show_val(v)}`, not a list of contractions")
                self.recs = [Rec(run.world, o) for o in v]
        except Malformed as e:
            self.error = e

    def candidates(self):
        """the schemes the search generated: the outermost evaluated generator whose elements are lists of Contractions."""
        best = None
        for d, v in self.run.sx.yielded:
            if v and all(isinstance(s, list) and s and all(isinstance(c, Obj) and c.cls == CLS for c in s) for s in v):
                if best is None or d < best[0]:
                    best = (d, v)
        if best is None:
            return None
        return [[Rec(self.run.world, o) for o in s] for s in best[1]]

    def built(self):
        return [Rec(self.run.world, o) for o in self.run.built]


_CACHE = {}


def evaluated(ctx, spec, fname):
    k = (id(ctx.model), fname, spec.describe())
    if k not in _CACHE:
        _CACHE[k] = Evaluated(ctx, spec, fname)
    return _CACHE[k]


FUNCS = ("optimize_contractions", "unoptimized_contraction")


def specs(ctx):
    return QUICK + limit_family(ctx.tier)[0] + (THOROUGH if ctx.tier == "thorough" else [])


def applicable(spec, fname):
    return fname == "optimize_contractions" or (spec.max_dim is None and spec.max_n is None)


def each(ctx):
    for fname in FUNCS:
        for spec in specs(ctx):
            if applicable(spec, fname):
                yield fname, spec, evaluated(ctx, spec, fname)


def report(ctx, rule, ev, findings, fact, keys=None):
    """One obligation per (function, scenario): the findings of `rule` or the fact."""
    mine = [f for f in findings if f[0] == rule and (keys is None or f[1] in keys)]
    key = f"{ev.fname} | {ev.spec.label}"
    if mine:
        seen = set()
        for _, k, msg in mine:
            if k in seen:
                continue
            seen.add(k)
            ctx.bad(rule, ev.fn, f"{ev.fname}({ev.spec.describe()}): {msg}", key=f"{key} | {k}")
    else:
        ctx.ok(rule, ev.fn, f"{ev.fname}({ev.spec.describe()}): {fact}", key=key)


def _findings(ev):
    """all findings of the returned scheme, of the candidates and of the built contractions (cached on ev)."""
    if hasattr(ev, "_f"):
        return ev._f
    out = []
    spec = ev.spec
    if ev.error is not None:
        out.append((ev.error.rule, "shape", ev.error.msg))
    elif ev.kind == "raise":
        limited = spec.max_dim is not None or spec.max_n is not None
        out.append(("R16e" if limited else "R16b", "raises", f"raises {ev.value} although the term has a contraction scheme"
                    + (" within the limits" if limited else "")))
    else:
        try:
            if not ev.recs and spec.leaves():
                out.append(("R16f", "empty scheme", "returns an empty scheme although the term contains tensors"))
            elif ev.recs:
                out.extend(scheme_findings(spec, ev.recs))
            term_targets = spec.requested()
            for r in ev.built():
                ext = r.obj.attrs.get("_ctor", {}).get("external_indices")
                if ext is not None:
                    if not isinstance(ext, (list, tuple, set, frozenset, dict)):
                        raise Malformed("R16a", f"Contraction(external_indices={show_val(ext)}): not a collection of indices")
                    ext = {ev.run.world.key(x) for x in ext}
                out.extend(contraction_findings(r, term_targets, ext))
            cands = ev.candidates() if ev.fname == "optimize_contractions" else None
            ev.n_cands = len(cands) if cands else 0
            if cands:
                for s in cands:
                    out.extend((rule, k, f"candidate scheme [{'; '.join(r.show() for r in s)}]: {m}")
                               for rule, k, m in scheme_findings(spec, s))
                if ev.recs:
                    ranks = [ref_rank(s) for s in cands]
                    mine = ref_rank(ev.recs)
                    if mine != min(ranks):
                        out.append(("R16d", "ranking", f"the returned scheme ranks {mine}, the best generated candidate "
                                    f"{min(ranks)} ((max, multiplicity) per field total, general, virt, occ; computational "
                                    "before memory; lowest wins)"))
            if ev.recs:
                hyper = ref_scaling(*ref_contraction([ks for _, ks in spec.leaves()], term_targets, ()))["computational"]["total"]
                worst = max(ref_scaling(r.contracted, r.target)["computational"]["total"] for r in ev.recs)
                if worst > hyper:
                    out.append(("R16d", "bound", f"maximal computational scaling {worst} exceeds that of the single "
                                f"simultaneous contraction ({hyper})"))
                if ev.fname == "unoptimized_contraction" and len(ev.recs) != 1:
                    out.append(("R16f", "unoptimized", f"unoptimized_contraction returns {len(ev.recs)} contractions, "
                                "expected the single simultaneous contraction of all objects"))
        except Malformed as e:
            out.append((e.rule, "shape", e.msg))
    ev._f = out
    return out


def floor(ctx, rule, what, found, minimum):
    """instance floor; a tree that already violates the property is reported as such, not as an analysis error"""
    if not ctx.violations and not any(_findings(ev) for _, _, ev in each(ctx)):
        ctx.floor(rule, what, found, minimum)


def _rule_over_scenarios(ctx, rule, fact, minimum, keys=None):
    n = 0
    for fname, spec, ev in each(ctx):
        report(ctx, rule, ev, _findings(ev), fact, keys)
        n += 1
    floor(ctx, rule, "evaluated scenarios", n, minimum)


# ------------------------------------------------------------------------------------------------------------ rules
def r16a(ctx):
    _rule_over_scenarios(ctx, "R16a", "a list of Contraction records (index tuples, names) is returned", 30)


def r16b(ctx):
    rule = "R16b"
    _rule_over_scenarios(ctx, rule, "every tensor/delta used exactly once with multiplicity; requested targets in order", 30)
    for fname in FUNCS:
        fn = ctx.model.fn(OC + fname)
        for spec in REFUSED:
            ev = evaluated(ctx, spec, fname)
            ok = ev.error is None and ev.kind == "raise" and ev.value == "NotImplementedError"
            got = f"raises {ev.value}" if ev.kind == "raise" else ("returns " + (
                "[" + "; ".join(r.show() for r in ev.recs) + "]" if ev.recs is not None else str(ev.error.msg if ev.error else ev.value)))
            ctx.check(rule, fn, ok, f"{fname}({spec.describe()}) refused with NotImplementedError",
                      f"{fname}({spec.describe()}): a term with a division or an object that is neither tensor, delta nor "
                      f"prefactor must be refused with NotImplementedError, but the function {got}",
                      key=f"{fname} | refused {spec.label}")
    r16b_history(ctx)


# call histories of the public functions: (label, objects, [requests]) - the same objects requested one after another in
# one process with other targets / target order / limits; every request is a dict of Spec keywords
CALL_HISTORY = [
    ("A_ijab B_jb", [("A", "ijab"), ("B", "jb")], [dict(target="ia"), dict(target="ai")]),
    ("A_ia B_ia", [("A", "ia"), ("B", "ia")], [dict(target=""), dict(target="ia"), dict(target="ai")]),
    ("batch", [("A", "ika"), ("B", "kja")], [dict(target="ij"), dict(target="ikj")]),
    ("chain", [("f", "ij"), ("t1", "ja"), ("Y", "ab")], [dict(target="ib"), dict(target="bi"), dict(target="ib", max_n=2)]),
    ("four objects", [("A", "cj"), ("B", "kiba"), ("C", "jid"), ("D", "kabc")],
     [dict(target="d"), dict(target="d", max_dim=2), dict(target="d", max_n=2)]),
    ("hub of four", [("A", "ij"), ("B", "i"), ("C", "ija"), ("D", "jb"), ("F", "jc")],
     [dict(target="abc", max_n=5), dict(target="abc", max_n=4), dict(target="cba")]),
    ("spin", [("A", "ia", 1, "tensor", "ab"), ("B", "aj", 1, "tensor", "bb")],
     [dict(target="ji", spin="ba"), dict(target="ij", spin="ab")]),
    # the same group of objects inside different terms: what the other objects carry decides what the group sums
    ("group in two terms", [("A", "ia"), ("B", "jb"), ("C", "ab")],
     [dict(target="ij"), dict(target="ij", objs=[("A", "ia"), ("B", "jb")]),
      dict(target="ij", objs=[("A", "ia"), ("B", "jb"), ("D", "a")])]),
]


def normal_form(recs):
    """a scheme as plain data, the generated result names replaced by their position in the scheme"""
    pos = {r.cname: f"#{k}" for k, r in enumerate(recs)}
    return [(tuple(pos.get(n, n) for n in r.names), r.indices, r.contracted, r.target,
             tuple(sorted((p, tuple(sorted(v.items()))) for p, v in r.scaling.items()))) for r in recs]


def call_history(ctx, fname, specs):
    """`fname` called for `specs` one after another in one process (shared indices, shared module/class state)
    -> per call ('scheme', records) | ('raise', name) | ('malformed', message)"""
    fn = ctx.model.fn(OC + fname)
    run = Run(ctx.model, f"{fname} history " + " ; ".join(sp.describe() for sp in specs))
    params = {p.arg for p in fn.args.args + fn.args.kwonlyargs}

    def args_list():
        out = []
        for sp in specs:
            a = dict(term=build_term(run.world, sp), target_indices=sp.target, target_spin=sp.spin)
            if "max_itmd_dim" in params:
                a["max_itmd_dim"] = sp.max_dim
            if "max_n_simultaneous_contracted" in params:
                a["max_n_simultaneous_contracted"] = sp.max_n
            out.append(a)
        return out
    try:
        outs = run.sx.run_sequence([fn] * len(specs), args_list)
    except Malformed as e:
        return [("malformed", e.msg)] * len(specs)
    if len(outs) != 1:
        raise AnalysisError(f"C16({run.what}): the evaluation depends on something outside the modelled vocabulary")
    res = []
    for kind, v in outs[0].value:
        if kind != "return":
            res.append(("raise", v))
        elif not isinstance(v, list):
            res.append(("malformed", f"returns `{show_val(v)}`"))
        else:
            try:
                res.append(("scheme", [Rec(run.world, o) for o in v]))
            except Malformed as e:
                res.append(("malformed", e.msg))
    return res


def r16b_history(ctx):
    """What a call returns is a function of its arguments alone: the scheme for a term after other terms (the same
    objects with other targets, target order or limits) were optimised in the same process equals the scheme alone."""
    rule = "R16b"
    n = 0
    for fname in FUNCS:
        fn = ctx.model.fn(OC + fname)
        for label, objs, reqs in CALL_HISTORY:
            if fname != "optimize_contractions":
                reqs = [r for r in reqs if "max_n" not in r and "max_dim" not in r]
            specs = [S(f"{label} {k}", r.get("objs", objs), **{a: v for a, v in r.items() if a != "objs"})
                     for k, r in enumerate(reqs)]
            seqs = [(a, b) for a in range(len(specs)) for b in range(len(specs)) if a != b]
            seqs += [tuple(range(len(specs))), tuple(reversed(range(len(specs))))] if len(specs) > 2 else []
            for seq in seqs:
                res = call_history(ctx, fname, [specs[k] for k in seq])
                bad = []
                for pos, (k, r) in enumerate(zip(seq, res)):
                    alone = evaluated(ctx, specs[k], fname)
                    what = f"call {pos + 1} ({specs[k].describe()})"
                    if alone.error is not None:
                        continue            # reported by the scenario rules
                    if alone.kind == "raise":
                        if r != ("raise", alone.value):
                            bad.append(f"{what}: alone it raises {alone.value}, in this history: {r[0]} "
                                       f"{r[1] if r[0] != 'scheme' else [x.show() for x in r[1]]}")
                        continue
                    if r[0] != "scheme":
                        bad.append(f"{what}: alone it returns a scheme, in this history: {r[0]} {r[1]}")
                    elif normal_form(r[1]) != normal_form(alone.recs):
                        more = [m for _, _, m in scheme_findings(specs[k], r[1])][:2] if r[1] else []
                        bad.append(f"{what} returns [{'; '.join(x.show() for x in r[1])}], alone it returns "
                                   f"[{'; '.join(x.show() for x in alone.recs)}]" + ("".join(" - " + m for m in more)))
                n += 1
                hist = " ; ".join(specs[k].describe() for k in seq)
                ctx.check(rule, fn, not bad, f"{fname} history [{hist}]: every call returns what it returns alone",
                          f"{fname} called one after another in one process [{hist}]: " + " | ".join(bad) +
                          " - the result of a call must not depend on the calls before it", key=f"{fname} | history {label} {seq}")
    floor(ctx, rule, "call histories", n, 40)


def r16c(ctx):
    rule = "R16c"
    _rule_over_scenarios(ctx, rule, "every contraction splits/sorts its indices as the reference", 30)
    # decision table of the static split used by the group search
    fn = ctx.model.fn(CO + "Contraction._split_contracted_and_target")
    params = [p.arg for p in fn.args.args]
    table = [(("ij", "jk"), "", None), (("ij", "jk"), "j", None), (("ij", "ij"), "i", None), (("iia",), "", None), (("iia",), "i", None),
             (("ia", "jb"), "ia", None), (("ijab", "abkl", "kc"), "ijc", None), (("pq", "qp", "i"), "", None), (("ij",), "ijk", None),
             ((), "i", None), (("", "i"), "", None),
             # indices of the objects outside the contraction given: an index that occurs once is kept only if one of them
             # carries it (or it is a target index of the term)
             (("ia",), "i", ""), (("ia",), "", ""), (("ia",), "a", "i"), (("ia", "ijb"), "j", ""), (("ik", "kj"), "i", "ja"),
             (("ik", "kj"), "i", ""), (("ia", "jb"), "ij", "ab"), (("ia", "jb"), "ij", "b"), (("ij", "jk"), "", "k"),
             (("ijab", "abkl", "kc"), "ij", "lm"), (("pq", "i"), "", "i")]
    n = 0
    for as_list in (False, True):
        for ops, tg, ext in table:
            run = Run(ctx.model, f"_split_contracted_and_target({ops}, {tg!r}, {ext!r})")
            w = run.world
            conv = list if as_list else tuple

            def args():
                a = dict(indices=conv(tuple(w.indices(o)) for o in ops), term_target_indices=tuple(w.indices(tg)))
                if ext is not None and "external_indices" in params:
                    a["external_indices"] = set(w.indices(ext)) if as_list else tuple(w.indices(ext))
                return a
            kind, v = run.call(fn, args)
            keys = [tuple((k, "") for k in split_names(o)) for o in ops]
            want_c, want_t = ref_split(keys, {(k, "") for k in split_names(tg)},
                                       None if ext is None else {(k, "") for k in split_names(ext)})
            ok = kind == "return" and isinstance(v, tuple) and len(v) == 2 and all(isinstance(x, (list, tuple)) for x in v)
            if ok:
                try:
                    got_c, got_t = (w.keyseq(x, "split result") for x in v)
                    ok = set(got_c) == want_c and set(got_t) == want_t and len(got_c) == len(want_c) and len(got_t) == len(want_t)
                except Malformed:
                    ok = False
            n += 1
            extd = "" if ext is None else f", indices outside the contraction '{ext}'"
            ctx.check(rule, fn, ok, f"split{ops} | targets '{tg}'{extd}",
                      f"_split_contracted_and_target({ops}, term targets '{tg}'{extd}) gives "
                      f"{show_val(v) if kind == 'return' else 'raise ' + str(v)}; "
                      f"expected (summed, kept) = ({fmt(sorted(want_c))}, {fmt(sorted(want_t))}), each index once",
                      key=f"split table {ops} {tg} {ext} {'list' if as_list else 'tuple'}")
    floor(ctx, rule, "rows of the split table", n, 20)


def r16d(ctx):
    rule = "R16d"
    _rule_over_scenarios(ctx, rule, "true scaling reported; returned scheme ranks lowest; never above the simultaneous contraction", 30)
    n = sum(getattr(ev, "n_cands", 0) > 1 for _, _, ev in each(ctx))
    floor(ctx, rule, "scenarios with several candidate schemes", n, 5)
    # ScalingComponent / Scaling are ordered records that compare `total` (resp. computational) first
    for cname, first, rest in (("ScalingComponent", "total", ("general", "virt", "occ")), ("Scaling", "computational", ("memory",))):
        cls = ctx.model.cls(CO + cname)
        info = dataclass_info(cls)
        ok = info is not None and info["order"] and info["fields"][:1] == (first,) and set(info["fields"]) == {first, *rest}
        ctx.check(rule, cls, ok, f"{cname}: ordered record, `{first}` compared first",
                  f"{cname}: instances must be ordered with `{first}` as most significant field and carry the fields "
                  f"{(first, *rest)}; found {info}", key=f"{cname} order")
    r16d_history(ctx)
    # term_memory_requirements: the largest object of the term by total number of indices
    fn = ctx.model.fn(CO + "term_memory_requirements")
    for label, spaces, want in (("total first", ("ggg", "oovv", "ov"), "oovv"), ("then general", ("ovv", "gov", "oov"), "gov"),
                                ("then virt", ("oov", "ovv", "ooo"), "ovv"), ("single", ("vv",), "vv")):
        run = Run(ctx.model, f"term_memory_requirements {spaces}")

        def args():
            return dict(term=Obj(None, "term", objects=tuple(Obj(None, f"obj{k}", space=sp) for k, sp in enumerate(spaces))))
        kind, v = run.call(fn, args)
        exp = {"total": len(want), "general": want.count("g"), "virt": want.count("v"), "occ": want.count("o")}
        got = {f: v.attrs.get(f) for f in FIELDS} if kind == "return" and isinstance(v, Obj) else (kind, show_val(v))
        ctx.check(rule, fn, got == exp, f"term_memory_requirements{spaces} = {want}",
                  f"term_memory_requirements for objects with the spaces {spaces} gives {got}, expected the scaling of the "
                  f"largest object {exp}", key=f"memory requirements {label}")


# contractions whose scaling must not depend on what was built before: (label, operands, term targets)
HISTORY = [
    ("A_ikac B_jkbc -> ijab", [("A", "ikac"), ("B", "jkbc")], "ijab"),
    ("W_ijab D_ijab -> ijab", [("W", "ijab"), ("D", "ijab")], "ijab"),          # same spaces as the first, nothing summed
    ("A_il B_jl -> ij", [("A", "il"), ("B", "jl")], "ij"),
    ("X_ij C_ij -> ij", [("X", "ij"), ("C", "ij")], "ij"),                      # same spaces as the third
    ("X_ij C_ij -> scalar", [("X", "ij"), ("C", "ij")], ""),                    # same operands, other term targets
    ("V_ijab t_ab -> ij", [("V", "ijab"), ("t", "ab")], "ij"),
    ("V_ijab t_cd -> ijabcd", [("V", "ijab"), ("t", "cd")], "ijabcd"),          # same operand spaces, outer product
    ("h_pq D_qp -> scalar", [("h", "pq"), ("D", "qp")], ""),
]


def history_run(ctx, seq):
    """The contractions `seq` (indices into HISTORY) constructed one after another in one process -> scaling of each."""
    run = Run(ctx.model, "Contraction history " + " ; ".join(HISTORY[k][0] for k in seq))
    init = run.sx.find_method(CLS, "__init__")
    if init is None:
        raise AnalysisError("C16: Contraction.__init__ not found")
    objs = []

    def args_list():
        out = []
        for n, k in enumerate(seq):
            _, ops, tg = HISTORY[k]
            o = Obj(CLS, f"Contraction#{n}")
            objs.append(o)
            out.append(dict(self=o, indices=tuple(tuple(run.world.indices(ix)) for _, ix in ops),
                            names=tuple(nm for nm, _ in ops), term_target_indices=tuple(run.world.indices(tg))))
        return out
    outs = run.sx.run_sequence([init[0]] * len(seq), args_list)
    if len(outs) != 1:
        raise AnalysisError(f"C16({run.what}): the evaluation depends on something outside the modelled vocabulary")
    res = []
    for (kind, v), o in zip(outs[0].value, objs[-len(seq):]):
        if kind != "return":
            res.append(("raise", v))
            continue
        try:
            r = Rec(run.world, o)
            res.append(("scaling", r.scaling, ref_scaling(r.contracted, r.target)))
        except Malformed as e:
            res.append(("malformed", e.msg))
    return res


def r16d_history(ctx):
    """The scaling a contraction reports is a function of that contraction alone: whatever contractions were built
    before it in the same process (class level / module level state), it reports its true scaling."""
    rule = "R16d"
    fn = ctx.model.fn(CLS + ".__init__")
    n = len(HISTORY)
    seqs = [(a,) for a in range(n)] + [(a, b) for a in range(n) for b in range(n) if a != b]
    seqs += [(a, b, c) for a, b, c in itertools.permutations(range(4), 3)] + [(0, 1, 0), (2, 3, 2), (3, 4, 3)]
    m = 0
    for seq in seqs:
        res = history_run(ctx, seq)
        bad = []
        for pos, (k, r) in enumerate(zip(seq, res)):
            if r[0] != "scaling":
                bad.append(f"{HISTORY[k][0]} (built as number {pos + 1}): {r[0]} {r[1]}")
            elif r[1] != r[2]:
                bad.append(f"{HISTORY[k][0]} (built as number {pos + 1}) reports {r[1]}, its true scaling is {r[2]}")
        m += 1
        hist = " ; ".join(HISTORY[k][0] for k in seq)
        ctx.check(rule, fn, not bad, f"history [{hist}]: every contraction reports its own scaling",
                  f"contractions built one after another in one process [{hist}]: " + "; ".join(bad) +
                  " - the reported scaling must not depend on the contractions built before", key=f"history {seq}")
    floor(ctx, rule, "construction histories", m, 50)


def r16e(ctx):
    rule = "R16e"
    _rule_over_scenarios(ctx, rule, "limits on simultaneously contracted objects and intermediate dimension respected", 30)
    n = sum(1 for _, spec, _ in each(ctx) if spec.max_dim is not None or spec.max_n is not None)
    floor(ctx, rule, "scenarios with limits", n, 4)
    fn = ctx.model.fn(OC + "optimize_contractions")
    for spec in IMPOSSIBLE + limit_family(ctx.tier)[1]:
        ev = evaluated(ctx, spec, "optimize_contractions")
        ok = ev.error is None and ev.kind == "raise" and ev.value == "RuntimeError"
        got = f"raises {ev.value}" if ev.kind == "raise" else "returns " + (
            "[" + "; ".join(r.show() for r in ev.recs) + "]" if ev.recs is not None else str(ev.error.msg if ev.error else ev.value))
        ctx.check(rule, fn, ok, f"{spec.describe()}: no scheme within the limits -> RuntimeError",
                  f"optimize_contractions({spec.describe()}): no scheme respects the limits, RuntimeError expected, but the "
                  f"function {got}", key=f"impossible {spec.label}")


def r16f(ctx):
    rule = "R16f"
    _rule_over_scenarios(ctx, rule, "unique names, every intermediate consumed once after it was produced, single final contraction", 30)
    for fname in FUNCS:
        fn = ctx.model.fn(OC + fname)
        for spec in EMPTY:
            ev = evaluated(ctx, spec, fname)
            if fname == "optimize_contractions":
                ok = ev.error is None and ev.kind == "return" and ev.recs == []
                want = "the empty scheme []"
            else:
                # the single simultaneous contraction of no objects
                ok = ev.error is None and ev.kind == "return" and len(ev.recs) == 1 and not ev.recs[0].names
                want = "one contraction of no objects"
            ctx.check(rule, fn, ok, f"{fname}({spec.describe()}): {want}",
                      f"{fname}({spec.describe()}): a term without tensors must give {want}; got "
                      f"{(ev.kind, show_val(ev.value)) if ev.error is None else ev.error.msg}", key=f"{fname} | empty {spec.label}")
    # names of inner results are recognised, tensor names are not
    fn = ctx.model.fn(CO + "Contraction.is_contraction")
    names = set()
    for _, _, ev in each(ctx):
        if ev.recs:
            names.update(r.cname for r in ev.recs[:3])
    table = [(n, True) for n in sorted(names)[:6]] + [(n, False) for n in ("V", "t2_1", "delta", "f", "Y", "c")]
    for name, want in table:
        run = Run(ctx.model, f"is_contraction({name})")
        kind, v = run.call(fn, lambda: dict(name=name))
        ctx.check(rule, fn, kind == "return" and v is want, f"is_contraction('{name}') = {want}",
                  f"Contraction.is_contraction('{name}') gives {v!r}, expected {want}: results of inner contractions are "
                  "recognised by their generated name, tensors of the term are not", key=f"is_contraction {name if not want else 'generated'}")
    floor(ctx, rule, "generated contraction names", len(names), 3)


def r16g(ctx):
    _rule_over_scenarios(ctx, "R16g", "no index is summed while another live object still carries it", 30)


def r16h(ctx):
    _rule_over_scenarios(ctx, "R16h", "evaluated step by step the scheme gives the value of the term", 30)


def run(ctx):
    for r, f in (("R16a", r16a), ("R16b", r16b), ("R16c", r16c), ("R16d", r16d), ("R16e", r16e), ("R16f", r16f),
                 ("R16g", r16g), ("R16h", r16h)):
        if ctx.want(r):
            f(ctx)
