"""
C17 / defect 2: a term that only consists of a prefactor and tensors without
indices (scalar tensors, e.g. an energy E0) is emitted as the bare prefactor,
i.e., the tensor is silently dropped. The same tensor is kept if the term
contains at least one index (E0 * f_ij -> 'E0_ * hf.foo').

Run from the worktree root:  /venv/bin/python hunt_out/2/demo.py
exit code 1: defect present, exit code 0: fixed
"""
import logging
import os
import re
import sys
from fractions import Fraction

sys.path.insert(0, os.getcwd())
logging.disable(logging.CRITICAL)

from adcgen import Expr, generate_code  # noqa E402
from adcgen.sympy_objects import (  # noqa E402
    AntiSymmetricTensor, NonSymmetricTensor
)
from sympy import Symbol, Rational  # noqa E402

E0 = AntiSymmetricTensor("E0", (), ())
c = NonSymmetricTensor("c", ())
w = Symbol("w")
# scalar result: 2 w E0 - 1/3 E0^2 c + 5
expr = Expr(2 * w * E0 - Rational(1, 3) * E0**2 * c + 5)
values = {"E0_": Fraction(7), "c_": Fraction(-2), "w": Fraction(3)}
expected = (2 * values["w"] * values["E0_"]
            - Fraction(1, 3) * values["E0_"]**2 * values["c_"] + 5)


class Scalar:
    """libtensor: a tensor without labels 'name()'"""
    def __init__(self, val):
        self.val = val

    def __call__(self):
        return self.val


failed = False
print("expression:", expr, "  expected value:", expected)
for backend in ("einsum", "libtensor"):
    for optimize in (True, False):
        code = generate_code(expr, "", backend=backend,
                             optimize_contraction_scheme=optimize)
        lines = code.split("\n")
        assert lines[1] == "Apply 1 to:", code
        total = Fraction(0)
        for line in lines[2:]:
            src = line.split("  #")[0].split("  //")[0]
            src = re.sub(r"(?<![\w.])(\d+\.\d+|\d+)(?![\w.])",
                         lambda m: f'Fraction("{m.group(1)}")', src)
            ns = {"Fraction": Fraction, "w": values["w"]}
            for name in ("E0_", "c_"):
                ns[name] = (values[name] if backend == "einsum"
                            else Scalar(values[name]))
            total += eval(src, ns)
        ok = total == expected
        print(f"--- {backend}, optimized={optimize}: value of the generated "
              f"code = {total}  ->  {'ok' if ok else 'WRONG'}")
        print("\n".join(lines[2:]))
        failed |= not ok
sys.exit(1 if failed else 0)
