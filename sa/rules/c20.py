"""C20 unitary-tensor simplification, decided by abstract evaluation on a model of terms.

``simplify_unitary`` (with its nested ``simplify_term_unitary`` and the ``Term`` properties it reads: ``target``,
``idx``, ``_idx_counter``, ``contracted``) is *evaluated* by sa.symex on small concrete model expressions: a term is a
record whose objects carry a tensor name, a tuple of index records and an exponent; ``Expr(..)``, ``Pow``,
``KroneckerDelta``, ``.terms``/``.sympy``/``.assumptions`` of the container classes and ``func.evaluate_deltas`` are
modelled (products with merged exponents, assumptions carried along).  What comes out is compared with the behaviour
written down here independently of the source:

  * the reference rewriting of the property text (``normal_forms``): a pair of occurrences of the unitary tensor that
    shares an index in the same position, that index not being a target index and occurring exactly twice in the
    term, is replaced by the delta of the two other indices, until no such pair is left; everything else is untouched;
  * the *value* of the expression for an orthogonal matrix: every model term is evaluated numerically (exact
    rationals, index range {0, 1}, U = ((3/5, -4/5), (4/5, 3/5)), fixed non-symmetric values for the other tensors) for
    every assignment of the target indices, before and after.

No source text, local name, statement shape or call spelling takes part in a verdict.
"""
from __future__ import annotations

import itertools
from fractions import Fraction

from ..model import AnalysisError
from ..symex import Symex, Obj, Ent
from ..terms import T, t_mul, t_add, t_pow, expand_products, rebuild, is_num, show, subterms, sym

EXPLANATION = (
    "simplify_unitary (nested simplify_term_unitary and the Term properties target/idx/_idx_counter/contracted evaluated "
    "through) is run by the abstract evaluator on concrete model expressions (objects = tensor name, index records, "
    "exponent; Expr/Pow/KroneckerDelta/.terms/.sympy/.assumptions/evaluate_deltas modelled as products with merged "
    "exponents that carry their assumptions). For every scenario the result must (1) be one of the normal forms of the "
    "reference rewriting written down from the property (pair of unitary occurrences sharing an index in the same "
    "position, index not a target, occurring exactly twice -> delta of the two other indices; repeated to the fixed "
    "point; all other objects, prefactors, exponents, denominators kept), (2) have the same numerical value as the input "
    "for an orthogonal 2x2 matrix and every assignment of the target indices (exact rationals), (3) carry the "
    "assumptions of the input expression with no mixing of assumptions on the way. R20a: eligibility guards and delta "
    "indices (first/second position, mixed positions, shared index on a third object / third unitary tensor / provided "
    "target, only 2-index tensors). R20b: rebuilding (both occurrences removed, every other object multiplied back once "
    "wherever it stands, prefactors, recursion to the fixed point, every term of the expression once, fewer than two "
    "unitary tensors unchanged, assumptions kept, non-Expr input refused). R20c: bookkeeping (occurrences counted with "
    "exponent multiplicity and denominators, exact tensor name, provided targets instead of Einstein targets, "
    "Term._idx_counter/idx/target/contracted against a direct count, delta evaluation exactly once and only on request, "
    "on the whole result, with a target set that protects the true targets - also spin-labelled ones). Thorough tier: "
    "the same three comparisons on every generated term with 2-3 unitary factors over three indices, an optional "
    "remainder object and optional provided targets.")
ASSUMPTIONS = [
    "bounded: the scenarios listed in the module (thorough: all terms of 2-3 unitary factors over 3 indices with an optional "
    "remainder object of <= 2 indices and <= 1 provided target); one index space, uniform spin per scenario",
    "the containers are modelled: Expr/Term/Obj are records (objects, exponent, idx, base_and_exponent, assumptions), products "
    "merge equal bases like sympy, KroneckerDelta(p, p) = 1 and delta**n = delta; func.evaluate_deltas is modelled by its "
    "contract (targets = indices on exactly one object of the product if target_idx is None, else get_symbols(target_idx) "
    "which yields spin-less indices for a string; killable index substituted unless protected)",
    "orthogonality is represented by one fixed rational rotation matrix (non-symmetric), dimension 2",
    "excluded from the decided domain (the library does not preserve the value there, see report): (a) a pair that shares "
    "BOTH indices (same object squared) whose other index is contracted - the library returns 1 where the value is the "
    "dimension of the space; (b) evaluate_deltas=True together with provided target indices - the delta evaluation uses the "
    "Einstein targets of the result and may remove a provided target that occurs twice; (c) terms whose Einstein targets "
    "change under the rewriting (delta_pp = 1 or delta**2 = delta remove occurrences)",
]

FN = "simplify:simplify_unitary"
TERM = "expr_container:Term"
EXPR = "expr_container:Expr"
UNAME = "U"
DIM = 2
UMAT = ((Fraction(3, 5), Fraction(-4, 5)), (Fraction(4, 5), Fraction(3, 5)))


# ------------------------------------------------------------------------------------------------ model values

def tens(name, keys):
    return T("tens", name, tuple(keys))


def delta(a, b):
    return 1 if a == b else tens("delta", sorted((a, b)))


def is_tens(b):
    return isinstance(b, T) and b.op == "tens"


def is_delta(b):
    return is_tens(b) and b.args[0] == "delta"


def keys_of(b):
    return b.args[1] if is_tens(b) else ()


def split_pow(f):
    if isinstance(f, T) and f.op == "pow" and isinstance(f.args[1], int):
        return f.args[0], f.args[1]
    return f, 1


def monomials(v):
    """Sum of products with merged bases: list of (coefficient, {base: exponent}) - what a sympy Add of Muls holds."""
    acc = {}
    for c, fs in expand_products(v):
        d = {}
        for f in fs:
            b, e = split_pow(f)
            d[b] = d.get(b, 0) + e
        d = {b: (1 if is_delta(b) and e >= 1 else e) for b, e in d.items() if e != 0}
        k = mono_key(1, d)
        if k in acc:
            acc[k] = (acc[k][0] + Fraction(c), d)
        else:
            acc[k] = (Fraction(c), d)
    return [(c, d) for c, d in acc.values() if c != 0]


def mono_key(c, d):
    return (Fraction(c), tuple(sorted((repr(b), e) for b, e in d.items())))


def expr_key(monos):
    return tuple(sorted(mono_key(c, d) for c, d in monos))


def show_monos(monos):
    if not monos:
        return "0"
    out = []
    for c, d in monos:
        fs = [str(c)] if c != 1 or not d else []
        for b, e in sorted(d.items(), key=lambda x: repr(x[0])):
            s = f"{b.args[0]}_{''.join(b.args[1])}" if is_tens(b) else show(b)
            fs.append(s if e == 1 else f"{s}^{e}")
        out.append(" ".join(fs))
    return " + ".join(out)


def akey_of(real=False, sym_tensors=None, antisym_tensors=None, target_idx=None):
    def names(x):
        return tuple(sorted(x)) if isinstance(x, (list, tuple, set, frozenset)) else () if x is None else ("?",)
    tg = None
    if target_idx is not None:
        try:
            tg = tuple(sorted(_key(x) for x in target_idx))
        except TypeError:
            tg = ("?",)
    return (bool(real) if isinstance(real, bool) else "?", names(sym_tensors), names(antisym_tensors), tg)


def _key(x):
    if isinstance(x, Obj):
        return x.__dict__["name"]
    if isinstance(x, str):
        return x
    return "?" + show(x)


class Rec(Obj):
    """Record for a container of the library (Expr / Term / Obj); in arithmetic it stands for its content."""

    @property
    def term(self):
        return self.__dict__["attrs"]["_image"]


class World:
    """The model objects of one evaluation path."""

    def __init__(self):
        self.index = {}
        self.clash = []
        self.unknown = []

    def ix(self, key):
        if key not in self.index:
            name, _, spin = key.partition("_")
            o = Ent(None, key)
            o.attrs.update(name=name, spin=spin, space="occ", dummy_index=0)
            self.index[key] = o
        return self.index[key]

    def adict(self, akey):
        real, st, at, tg = akey
        return {"real": real, "sym_tensors": st, "antisym_tensors": at,
                "target_idx": None if tg is None else tuple(self.ix(k) for k in tg)}

    def obj_rec(self, base, exp, akey):
        r = Rec(None, "obj")
        if is_tens(base):
            name = None if is_delta(base) else base.args[0]
            idx = tuple(self.ix(k) for k in base.args[1])
            val = t_pow(base, exp)
        else:  # a number
            name, idx, val, exp = None, (), base, 1
        r.__dict__["name"] = f"<{show(val)}>"
        r.attrs.update(name=name, idx=idx, exponent=exp, base=base, base_and_exponent=(base, exp), sympy=val,
                       assumptions=self.adict(akey), _image=T("cont", val, akey), **self.flags(akey))
        return r

    def term_rec(self, coeff, facs, akey):
        """facs: ordered list of (base, exponent)."""
        objs = []
        if coeff != 1 or not facs:
            objs.append(self.obj_rec(_num(coeff), 1, akey))
        objs += [self.obj_rec(b, e, akey) for b, e in facs]
        val = t_mul(_num(coeff), *[t_pow(b, e) for b, e in facs])
        r = Rec(TERM, f"<term {show(val)}>")
        tg = akey[3]
        r.attrs.update(objects=tuple(objs), provided_target_idx=None if tg is None else tuple(self.ix(k) for k in tg),
                       assumptions=self.adict(akey), sympy=val, _image=T("cont", val, akey), **self.flags(akey))
        return r

    def expr_rec(self, terms, akey):
        val = t_add(*[t.attrs["sympy"] for t in terms]) if terms else 0
        r = Rec(EXPR, "<expr>")
        tg = akey[3]
        r.attrs.update(terms=tuple(terms), provided_target_idx=None if tg is None else tuple(self.ix(k) for k in tg),
                       assumptions=self.adict(akey), sympy=val, _image=T("cont", val, akey), **self.flags(akey))
        return r

    @staticmethod
    def flags(akey):
        return {"real": akey[0], "sym_tensors": akey[1], "antisym_tensors": akey[2]}

    # -- unwrap a value that may contain container images
    def unwrap(self, v):
        if isinstance(v, Rec):
            v = v.term
        seen = []

        def f(x):
            if x.op == "cont":
                if x.args[1] not in seen:
                    seen.append(x.args[1])
                return x.args[0]
            return x
        out = rebuild(v, f) if isinstance(v, T) else v
        if len(seen) > 1:
            self.clash.append(tuple(seen))
        return out, seen


def _num(c):
    c = Fraction(c)
    return int(c) if c.denominator == 1 else c


def has_cont(t):
    return any(x.op == "cont" for x in subterms(t))


# ------------------------------------------------------------------------------------------------ evaluate_deltas model

def einstein_per_object(d):
    cnt = {}
    for b in d:
        for k in set(keys_of(b)):
            cnt[k] = cnt.get(k, 0) + 1
    return {k for k, n in cnt.items() if n == 1}


def substitute(d, old, new):
    out = {}
    for b, e in d.items():
        if is_tens(b) and old in b.args[1]:
            ks = [new if k == old else k for k in b.args[1]]
            b = delta(*ks) if b.args[0] == "delta" else tens(b.args[0], ks)
            if b == 1:
                continue
        out[b] = out.get(b, 0) + e
    return {b: (1 if is_delta(b) and e >= 1 else e) for b, e in out.items() if e != 0}


def model_evaluate_deltas(monos, protected):
    """Contract of func.evaluate_deltas on a sum of products (one space, equal spin: first index preferred)."""
    out = []
    for c, d in monos:
        tg = einstein_per_object(d) if protected is None else protected
        while True:
            for b in sorted((b for b in d if is_delta(b) and d[b] >= 1), key=repr):
                p, k = b.args[1]
                if k not in tg:
                    d = substitute(d, k, p)
                    break
                if p not in tg:
                    d = substitute(d, p, k)
                    break
            else:
                break
        out.append((c, d))
    return out


def split_names(s):
    out = []
    for ch in s:
        if ch.isdigit() and out:
            out[-1] += ch
        else:
            out.append(ch)
    return out


# ------------------------------------------------------------------------------------------------ the evaluator

class Run:
    """One Symex configured with the container model; ``self.w`` is the world of the path being evaluated."""

    def __init__(self, ctx, what):
        self.w = None
        self.sx = Symex(ctx.model, inline=lambda q: True, what=what, attr_hook=self.attr_hook, max_paths=64, hooks={
            "Expr": self.h_expr, "KroneckerDelta": self.h_delta, "Pow": self.h_pow, "evaluate_deltas": self.h_evd,
            "sort_idx_canonical": self.h_sortkey, "get_symbols": self.h_get_symbols})

    # hooks ------------------------------------------------------------------
    def h_expr(self, sx, args, kw):
        kw = dict(kw)
        e = args[0] if args else kw.pop("e", 0)
        v, _ = self.w.unwrap(e)
        if "**" in kw or len(args) > 1:
            ak = ("?", (), (), None)
        else:
            ak = akey_of(**{k: kw[k] for k in kw if k in ("real", "sym_tensors", "antisym_tensors", "target_idx")})
            if set(kw) - {"real", "sym_tensors", "antisym_tensors", "target_idx"}:
                ak = ("?",) + ak[1:]
        return T("cont", v, ak)

    def h_delta(self, sx, args, kw):
        if len(args) == 2 and all(isinstance(a, Obj) and a.__dict__["name"] in self.w.index for a in args):
            return delta(args[0].__dict__["name"], args[1].__dict__["name"])
        self.w.unknown.append("KroneckerDelta(" + ", ".join(show(sx_freeze(a)) for a in args) + ")")
        return T("call", "KroneckerDelta", tuple(sx_freeze(a) for a in args), ())

    def h_pow(self, sx, args, kw):
        b, n = args
        b, _ = self.w.unwrap(b) if isinstance(b, (T, Rec)) else (b, None)
        if isinstance(n, int) and not isinstance(n, bool):
            if n == 0:
                return 1
            return t_pow(b, n)
        return T("pow", b, n)

    def h_sortkey(self, sx, args, kw):
        o = args[0]
        if isinstance(o, Obj) and "name" in o.attrs:
            nm = o.attrs["name"]
            return (o.attrs["space"][0], o.attrs["spin"], int(nm[1:]) if nm[1:] else 0, nm[0])
        return ("", 0, show(sx_freeze(o)), 0)

    def h_get_symbols(self, sx, args, kw):
        ind = args[0] if args else kw.get("indices")
        if isinstance(ind, str) and not kw.get("spins") and len(args) < 2:
            return [self.w.ix(n) for n in split_names(ind)]
        if isinstance(ind, (list, tuple)) and all(isinstance(x, Obj) for x in ind):
            return list(ind)
        return NotImplemented

    def h_evd(self, sx, args, kw):
        kw = dict(kw)
        e = args[0] if args else kw.pop("expr", None)
        tg = args[1] if len(args) > 1 else kw.pop("target_idx", None)
        plain = (isinstance(e, T) and not has_cont(e)) or not isinstance(e, (T, Obj))
        if not plain:
            # a container is neither an Add nor a Mul: the library function hands it back untouched
            sx.effects.append(T("evd", False, "container"))
            return e
        v, _ = self.w.unwrap(e)
        if tg is None:
            prot, shown = None, None
        elif isinstance(tg, str):
            # get_symbols(<str>) builds spin-less indices
            prot = set(split_names(tg))
            shown = tg
        elif isinstance(tg, (list, tuple, set, frozenset)) and all(isinstance(x, Obj) for x in tg):
            prot = {x.__dict__["name"] for x in tg}
            shown = tuple(sorted(prot))
        else:
            prot, shown = set(), "?" + show(sx_freeze(tg))
        sx.effects.append(T("evd", True, repr(shown)))
        res = model_evaluate_deltas(monomials(v), prot)
        return t_add(*[t_mul(_num(c), *[t_pow(b, x) for b, x in sorted(d.items(), key=lambda y: repr(y[0]))]) for c, d in res]) \
            if res else 0

    def attr_hook(self, sx, obj, attr, node):
        if isinstance(obj, T) and attr in ("terms", "sympy", "assumptions", "provided_target_idx") and has_cont(obj):
            v, seen = self.w.unwrap(obj)
            ak = seen[0]
            if attr == "sympy":
                return v
            if attr == "assumptions":
                return self.w.adict(ak)
            if attr == "provided_target_idx":
                return self.w.adict(ak)["target_idx"]
            ms = monomials(v) or [(Fraction(0), {})]
            return tuple(self.w.term_rec(c, sorted(d.items(), key=lambda y: repr(y[0])), ak) for c, d in ms)
        return NotImplemented


def sx_freeze(v):
    from ..symex import _freeze
    return _freeze(v)


# ------------------------------------------------------------------------------------------------ scenarios

def parse_term(s, spin=""):
    """'-1/2 X:ia U:ki^2 W:m^-1' -> (coefficient, [(base, exponent)])."""
    coeff, facs = Fraction(1), []
    for tok in s.split():
        if ":" not in tok:
            coeff *= Fraction(tok)
            continue
        name, rest = tok.split(":")
        idx, _, ex = rest.partition("^")
        keys = [ch + ("_" + spin if spin else "") for ch in idx]
        facs.append((tens(name, keys), int(ex) if ex else 1))
    return coeff, facs


class Scenario:
    def __init__(self, sid, rule, what, terms, target=None, spin="", t_name=UNAME, ed=False, changed=None, raises=None,
                 real=False, sym_tensors=(), antisym_tensors=(), as_term=False):
        self.sid, self.rule, self.what = sid, rule, what
        self.spin, self.t_name, self.ed, self.changed, self.raises = spin, t_name, ed, changed, raises
        self.terms = [parse_term(t, spin) for t in ([terms] if isinstance(terms, str) else terms)]
        self.text = " + ".join([terms] if isinstance(terms, str) else terms)
        tg = None if target is None else tuple(sorted(ch + ("_" + spin if spin else "") for ch in target))
        self.akey = (real, tuple(sorted(sym_tensors)), tuple(sorted(antisym_tensors)), tg)
        self.as_term = as_term

    def monos(self):
        return monomials(t_add(*[t_mul(_num(c), *[t_pow(b, e) for b, e in facs]) for c, facs in self.terms]))

    def targets(self):
        """True target indices of every term (provided, else Einstein with full multiplicity); must agree over the terms."""
        if self.akey[3] is not None:
            return set(self.akey[3])
        ts = [einstein(dict_of(facs)) for c, facs in self.terms]
        if any(t != ts[0] for t in ts):
            raise AnalysisError(f"C20 scenario {self.sid}: terms with different Einstein targets")
        return ts[0]

    def build(self, w):
        terms = [w.term_rec(c, facs, self.akey) for c, facs in self.terms]
        r = w.expr_rec(terms, self.akey)
        if self.as_term:
            # a container that is no Expr but offers everything the function reads from one
            r.__dict__["cls"] = TERM
            r.attrs.update(objects=terms[0].attrs["objects"])
        return r


def dict_of(facs):
    d = {}
    for b, e in facs:
        d[b] = d.get(b, 0) + e
    return d


def counts(d):
    """Occurrences of every index in a product: |exponent| times per position it stands in."""
    cnt = {}
    for b, e in d.items():
        for k in keys_of(b):
            cnt[k] = cnt.get(k, 0) + abs(e)
    return cnt


def einstein(d):
    return {k for k, n in counts(d).items() if n == 1}


# ------------------------------------------------------------------------------------------------ reference behaviour

def rewrites(d, targets, uname):
    """All single replacements the property allows on the product d."""
    cnt = counts(d)
    occ = []
    for b, e in sorted(d.items(), key=lambda x: repr(x[0])):
        if is_tens(b) and b.args[0] == uname and isinstance(e, int) and e > 0:
            occ += [b] * e
    out = []
    for x, y in itertools.combinations(range(len(occ)), 2):
        a, b = occ[x], occ[y]
        if len(a.args[1]) != 2 or len(b.args[1]) != 2:
            raise AnalysisError("reference: unitary tensor without two indices")
        for pos in (0, 1):
            p = a.args[1][pos]
            if b.args[1][pos] != p or p in targets or cnt[p] != 2:
                continue
            q, r = a.args[1][1 - pos], b.args[1][1 - pos]
            if q == r and q not in targets:
                raise _OutOfDomain("pair sharing both indices with a contracted second index")
            n = dict(d)
            for t in (a, b):
                n[t] -= 1
            dl = delta(q, r)
            if dl != 1:
                n[dl] = n.get(dl, 0) + 1
            n = {k: (1 if is_delta(k) and v >= 1 else v) for k, v in n.items() if v != 0}
            out.append(n)
    return out


class _OutOfDomain(Exception):
    pass


def normal_forms(d, targets, uname, provided):
    """Set of fixed points of the reference rewriting (keys) reachable from d."""
    seen, nfs, stack = set(), {}, [d]
    while stack:
        x = stack.pop()
        k = mono_key(1, x)
        if k in seen:
            continue
        seen.add(k)
        if not provided and einstein(x) != targets:
            raise _OutOfDomain("Einstein targets change under the rewriting")
        nxt = rewrites(x, targets, uname)
        if not nxt:
            nfs[k] = x
        stack.extend(nxt)
    return nfs


def tvalue(name, vals, uname):
    if name == "delta":
        return Fraction(1 if vals[0] == vals[1] else 0)
    if name == uname:
        return UMAT[vals[0]][vals[1]]
    h = sum((3 * k + 1) * (v + 1) for k, v in enumerate(vals)) * (len(name) + ord(name[0])) + ord(name[-1])
    return Fraction(1 + h % 7, 2 + ord(name[-1]) % 3)


def value(monos, targets, uname):
    """{assignment of the targets: value}; all other indices of a product are summed over {0..DIM-1}."""
    tg = sorted(targets)
    out = {}
    for asg in itertools.product(range(DIM), repeat=len(tg)):
        env0 = dict(zip(tg, asg))
        tot = Fraction(0)
        for c, d in monos:
            free = sorted({k for b in d for k in keys_of(b)} - set(tg))
            for b in d:
                if not is_tens(b):
                    raise _Unknown(show(b))
            s = Fraction(0)
            for fa in itertools.product(range(DIM), repeat=len(free)):
                env = dict(env0)
                env.update(zip(free, fa))
                p = Fraction(1)
                for b, e in d.items():
                    p *= tvalue(b.args[0], [env[k] for k in b.args[1]], uname) ** e
                s += p
            tot += c * s
        out[asg] = tot
    return out


class _Unknown(Exception):
    pass


def expected_sets(scn):
    """Per input term the dict of allowed results {key: product}; hand-written 'changed' flag cross-checked."""
    tg = scn.targets()
    per_term = []
    for c, facs in scn.terms:
        d = dict_of(facs)
        nfs = normal_forms(d, tg, scn.t_name, scn.akey[3] is not None)
        per_term.append((c, d, nfs))
    return tg, per_term


# ------------------------------------------------------------------------------------------------ checks

def evaluate(ctx, run, scn, fnnode, ed=None):
    def make():
        run.w = World()
        return dict(expr=scn.build(run.w), t_name=scn.t_name, evaluate_deltas=scn.ed if ed is None else ed)
    outs = run.sx.run(fnnode, make)
    return outs


def result_monos(run, o):
    v, seen = run.w.unwrap(o.value)
    return monomials(v), seen


def check_scenario(ctx, run, scn, fnnode):
    rule, sid = scn.rule, scn.sid
    what = f"{scn.what}: {scn.text}" + (f" [targets {','.join(scn.akey[3])}]" if scn.akey[3] is not None else "") + \
        (f" [t_name={scn.t_name}]" if scn.t_name != UNAME else "") + (" [evaluate_deltas]" if scn.ed else "")
    outs = evaluate(ctx, run, scn, fnnode)
    if scn.raises:
        ok = len(outs) >= 1 and all(o.kind == "raise" and o.exc == scn.raises for o in outs)
        ctx.check(rule, fnnode, ok, f"{what}: refused with {scn.raises}",
                  f"{what}: expected {scn.raises}, got {[o.exc if o.kind == 'raise' else 'a result' for o in outs]}", key=f"{sid} refused")
        return
    if len(outs) != 1 or outs[0].kind != "return":
        ctx.bad(rule, fnnode, f"{what}: no single result: {[repr(o)[:160] for o in outs]}", key=f"{sid} result")
        return
    o = outs[0]
    w = run.w
    if not isinstance(o.value, (T, Rec)) or (isinstance(o.value, T) and not has_cont(o.value)):
        ctx.bad(rule, fnnode, f"{what}: the result is not an Expr container: {show(sx_freeze(o.value))[:200]}", key=f"{sid} result")
        return
    got, seen = result_monos(run, o)
    tg, per_term = expected_sets(scn)
    # hand-written expectation of the scenario against the reference (self check of this module)
    ref_changed = any(set(nfs) != {mono_key(1, d)} for c, d, nfs in per_term)
    if scn.changed is not None and scn.changed != ref_changed:
        raise AnalysisError(f"C20 scenario {sid}: reference rewriting {'changes' if ref_changed else 'keeps'} the term, "
                            f"the scenario says otherwise")
    # (1) reference normal form
    allowed = []
    for choice in itertools.product(*[[(c, x) for x in nfs.values()] for c, d, nfs in per_term]):
        allowed.append(monomials(t_add(*[t_mul(_num(c), *[t_pow(b, e) for b, e in x.items()]) for c, x in choice])))
    evd = [e for e in o.effects if isinstance(e, T) and e.op == "evd"]
    if not scn.ed:
        ok = any(expr_key(got) == expr_key(a) for a in allowed)
        ctx.check(rule, fnnode, ok, f"{what} -> {show_monos(got)}",
                  f"{what}: result {show_monos(got)}, expected {' or '.join(show_monos(a) for a in allowed[:3])}"
                  + (f" (unmodelled: {w.unknown[0]})" if w.unknown else ""), key=f"{sid} form")
    # (2) value
    try:
        v_in = value(scn.monos(), tg, scn.t_name)
        for a in allowed:
            if value(a, tg, scn.t_name) != v_in:
                raise AnalysisError(f"C20 scenario {sid}: the reference rewriting does not preserve the value")
        v_out = value(got, tg, scn.t_name)
        diff = [k for k in v_in if v_in[k] != v_out[k]]
        ctx.check(rule, fnnode, not diff, f"{what}: value unchanged for all {len(v_in)} target assignments",
                  f"{what}: result {show_monos(got)} has another value for an orthogonal U, e.g. targets "
                  f"{dict(zip(sorted(tg), diff[0])) if diff else ''}: {v_in[diff[0]] if diff else ''} -> {v_out[diff[0]] if diff else ''}",
                  key=f"{sid} value")
    except _Unknown as e:
        ctx.bad(rule, fnnode, f"{what}: the result contains a factor that is no tensor of the term: {e}", key=f"{sid} value")
    # (3) assumptions
    ok = seen == [scn.akey] and not w.clash
    ctx.check(rule, fnnode, ok, f"{what}: assumptions of the expression kept",
              f"{what}: assumptions {seen} in the result / mixed on the way {w.clash[:1]}, the expression has {scn.akey}",
              key=f"{sid} assumptions")
    # (4) delta evaluation
    if scn.ed:
        ok = len(evd) == 1 and evd[0].args[0] is True
        ctx.check(rule, fnnode, ok, f"{what}: deltas evaluated once on the content of the whole result",
                  f"{what}: evaluate_deltas called {len(evd)} time(s)" + ("" if not evd or evd[0].args[0] else " on a container"),
                  key=f"{sid} evaluated")
    else:
        ctx.check(rule, fnnode, not evd, f"{what}: no delta evaluation without request",
                  f"{what}: evaluate_deltas is called although not requested", key=f"{sid} not evaluated")


SCENARIOS = [
    # ---- R20a: which pairs, which delta
    Scenario("first", "R20a", "common first index", "U:ki U:kj", changed=True),
    Scenario("second", "R20a", "common second index", "U:ik U:jk", changed=True),
    Scenario("first-rem", "R20a", "common first index next to other objects", "U:ki U:kj X:im Y:jn", changed=True),
    Scenario("second-rem", "R20a", "common second index next to other objects", "X:im U:ik Y:jn U:jk", changed=True),
    Scenario("third-obj-1", "R20a", "common first index also on another object", "U:ki U:kj X:k", changed=False),
    Scenario("third-obj-2", "R20a", "common second index also on another object", "U:ik U:jk X:k", changed=False),
    Scenario("third-obj-1b", "R20a", "common first index on another object, other index twice", "U:ki U:kj X:ki", changed=False),
    Scenario("third-obj-2b", "R20a", "common second index on another object, other index twice", "U:ik U:jk X:ki", changed=False),
    Scenario("third-u-1", "R20a", "common first index on a third unitary tensor", "U:ki U:kj U:kl", changed=False),
    Scenario("third-u-2", "R20a", "common second index on a third unitary tensor", "U:jk U:ik U:lk X:jm", changed=False),
    Scenario("target-1", "R20a", "common first index is a target index", "U:ki U:kj X:ij", target="k", changed=False),
    Scenario("target-2", "R20a", "common second index is a target index", "U:ik U:jk X:ij", target="k", changed=False),
    Scenario("diag", "R20a", "diagonal of a transformed matrix", "U:ji U:ki X:jk", target="i", changed=False),
    Scenario("mixed", "R20a", "common index in different positions", "U:ki U:jk", changed=False),
    Scenario("mixed-rem", "R20a", "common index in different positions", "U:ik U:kj X:ij", changed=False),
    Scenario("later-pair", "R20a", "the first pair of unitary tensors shares nothing", "U:mi U:kj U:kl", changed=True),
    Scenario("later-pair-2", "R20a", "the first pairs are blocked, a later one is not", "U:mi U:mj U:mk U:ln U:la", changed=True),
    Scenario("both", "R20a", "one pair per position", "U:ki U:kj U:ml U:nl", changed=True),
    Scenario("not-2d", "R20a", "three-index tensor of that name", "U:kij U:kl", raises="NotImplementedError"),
    Scenario("not-2d-single", "R20a", "one-index tensor of that name", "U:k U:ki U:kj", raises="NotImplementedError"),
    # ---- R20b: how the term is rebuilt
    Scenario("same-obj", "R20b", "same object twice, other index a target", "U:ki^2", target="i", changed=True),
    Scenario("same-obj-rem", "R20b", "same object twice among other objects", "X:im U:ki^2 Y:in", target="i", changed=True),
    Scenario("rest", "R20b", "objects before, between and behind the pair, prefactor", "-1/2 X:im U:ki Y:jn U:kj Z:mn^2 W:l^-1", changed=True),
    Scenario("rest-second", "R20b", "objects before, between and behind the pair", "3 X:im U:ik Y:jn U:jk Z:mn", changed=True),
    Scenario("one-u", "R20b", "a single unitary tensor", "U:ki X:ki", changed=False),
    Scenario("no-u", "R20b", "no unitary tensor", "2 X:ij Y:jk", changed=False),
    Scenario("chain", "R20b", "chain of pairs", "U:ki U:kj U:lj U:lm", changed=True),
    Scenario("chain3", "R20b", "three successive replacements", "U:ki U:kj U:lj U:lm U:nm U:na X:ia", changed=True),
    Scenario("terms", "R20b", "several terms", ["2 U:ki U:kj X:ij", "-1 U:ik U:jk Y:ij", "3 Z:ij W:ij", "U:ki U:kj V:kij"], changed=True),
    Scenario("terms-first-only", "R20b", "only the last term simplifies", ["X:ij Y:ij", "5 U:ik U:jk Y:ij"], changed=True),
    Scenario("assumptions", "R20b", "non-default assumptions", "U:ki U:kj X:im Y:jn", target="ijmn", real=True,
             sym_tensors=("X",), antisym_tensors=("Y",), changed=True),
    Scenario("not-expr", "R20b", "a container that is not an Expr", "U:ki U:kj", as_term=True, raises="TypeError"),
    # ---- R20c: bookkeeping
    Scenario("exp-mult", "R20c", "unitary object with exponent 2 next to a partner", "U:ki^2 U:kj", target="ij", changed=False),
    Scenario("denominator", "R20c", "common index in a denominator", "U:ki U:kj X:k^-1", changed=False),
    Scenario("denominator2", "R20c", "common index in a squared denominator", "U:ik U:jk X:k^-2", changed=False),
    Scenario("rem-exp", "R20c", "other indices on a squared object", "U:ki U:kj X:ij^2", changed=True),
    Scenario("diag-obj", "R20c", "common index twice on one other object", "U:ki U:kj X:kk", changed=False),
    Scenario("name-exact", "R20c", "tensors whose name only contains the name", "UU:ki UU:kj U2:li U2:lj u:mi u:mj", changed=False),
    Scenario("name-other", "R20c", "another tensor name requested", "U:ki U:kj X:ij", t_name="V", changed=False),
    Scenario("name-used", "R20c", "the requested name decides", "A:ki A:kj U:li U:lj", t_name="A", target="ij", changed=True),
    Scenario("prov-targets", "R20c", "all indices provided as targets", "U:ij U:kj", target="ijk", changed=False),
    Scenario("prov-targets-c", "R20c", "provided targets, common index contracted", "U:ki U:kj X:i X:j", target="ij", changed=True),
    Scenario("evd-plain", "R20c", "delta evaluation requested", "U:ki U:kj X:ij", ed=True),
    Scenario("evd-target", "R20c", "delta evaluation requested, delta between a target and a contracted index", "2 U:ki U:kj X:jl", ed=True),
    Scenario("evd-spin", "R20c", "delta evaluation requested, spin-labelled target indices", "U:ki U:kj X:l", spin="a", ed=True),
    Scenario("evd-spin-b", "R20c", "delta evaluation requested, spin-labelled indices", "3 U:ik U:jk X:jl Y:m", spin="b", ed=True),
    Scenario("evd-terms", "R20c", "delta evaluation requested, several terms", ["U:ki U:kj X:ij", "2 U:ik U:jk Y:ij"], ed=True),
]


def scenarios(ctx, rule):
    fnnode = ctx.model.fn(FN)
    n = 0
    for scn in SCENARIOS:
        if scn.rule != rule:
            continue
        run = Run(ctx, f"simplify_unitary[{scn.sid}]")
        try:
            check_scenario(ctx, run, scn, fnnode)
        except _OutOfDomain as e:
            raise AnalysisError(f"C20 scenario {scn.sid} is outside the decided domain: {e}")
        n += 1
    ctx.floor(rule, "model expressions evaluated", n, {"R20a": 20, "R20b": 12, "R20c": 15}[rule])


def r20c_request(ctx):
    """Delta evaluation exactly when requested: the flag is left symbolic, both paths are looked at."""
    rule = "R20c"
    fnnode = ctx.model.fn(FN)
    scn = Scenario("evd-flag", rule, "symbolic flag", "U:ki U:kj X:jl")
    run = Run(ctx, "simplify_unitary[evd-flag]")
    flag = sym("EVALUATE_DELTAS")
    outs = evaluate(ctx, run, scn, fnnode, ed=flag)
    rows = []
    for o in outs:
        pol = [p for a, p in o.path if a == flag]
        evd = [e for e in o.effects if isinstance(e, T) and e.op == "evd"]
        rows.append((pol[0] if pol else None, o.kind, len(evd)))
    ok = sorted(rows, key=repr) == sorted([(True, "return", 1), (False, "return", 0)], key=repr)
    ctx.check(rule, fnnode, ok, "delta evaluation if and only if the flag is set",
              f"paths (flag, outcome, evaluate_deltas calls): {rows}", key="evd-flag")


def r20c_term_tables(ctx):
    """Term._idx_counter / idx / target / contracted against a direct count on model terms."""
    rule = "R20c"
    cases = [("U:ki U:kj X:k", None), ("U:ki^2 U:kj", None), ("U:ki U:kj X:k^-1", None), ("X:kk^-2 Y:ij^3 2", None),
             ("U:ji U:ki X:jk", "i"), ("U:ij U:kj", "ijk"), ("-1 X:ij", None), ("U:ki U:kj X:l", None)]
    for meth in ("_idx_counter", "idx", "target", "contracted"):
        fnnode = ctx.model.fn(f"{TERM}.{meth}")
        for text, target in cases:
            scn = Scenario("t", rule, "", text, target=target, spin="a" if "l" in text else "")
            run = Run(ctx, f"Term.{meth}")

            def make():
                run.w = World()
                return dict(self=scn.build(run.w).attrs["terms"][0])
            outs = run.sx.run(fnnode, make)
            cnt = counts(dict_of(scn.terms[0][1]))
            prov = scn.akey[3]
            if meth == "_idx_counter":
                want = {k: n - 1 for k, n in cnt.items()}
            elif meth == "idx":
                want = dict(cnt)
            elif meth == "target":
                want = {k: 1 for k in (prov if prov is not None else [k for k, n in cnt.items() if n == 1])}
            else:
                want = {k: 1 for k in cnt if (k not in prov if prov is not None else cnt[k] > 1)}
            got = None
            if len(outs) == 1 and outs[0].kind == "return" and isinstance(outs[0].value, (tuple, list)):
                got = {}
                try:
                    for x in outs[0].value:
                        if meth == "_idx_counter":
                            k, n = x
                            got[_key(k)] = got.get(_key(k), 0) + n if _key(k) in got else n
                        else:
                            got[_key(x)] = got.get(_key(x), 0) + 1
                except (TypeError, ValueError):
                    got = None
            what = f"Term.{meth} of {text}" + (f" [targets {target}]" if target else "")
            ctx.check(rule, fnnode, got == want, f"{what} = {want}", f"{what} gives {got if got is not None else outs}, a direct count gives {want}",
                      key=f"{meth} {text} {target}")


# ------------------------------------------------------------------------------------------------ thorough sweep

def sweep(ctx):
    fnnode = ctx.model.fn(FN)
    letters = "ijk"
    pairs = [a + b for a in letters for b in letters]
    rems = [None] + [a for a in letters] + [a + b for a in letters for b in letters]
    n = skipped = 0
    bad = {}
    run = Run(ctx, "simplify_unitary[sweep]")
    for nu in (2, 3):
        for us in itertools.combinations_with_replacement(pairs, nu):
            for rem in (rems if nu == 2 else rems[:4]):
                for target in (None, "i", "j", "k"):
                    facs = {}
                    for u in us:
                        facs[u] = facs.get(u, 0) + 1
                    text = " ".join(f"U:{u}" + (f"^{e}" if e > 1 else "") for u, e in facs.items()) + (f" X:{rem}" if rem else "")
                    scn = Scenario(f"sweep {text} {target}", "R20a", "generated", text, target=target)
                    try:
                        tg, per_term = expected_sets(scn)
                    except _OutOfDomain:
                        skipped += 1
                        continue
                    outs = evaluate(ctx, run, scn, fnnode)
                    n += 1
                    if len(outs) != 1 or outs[0].kind != "return":
                        bad.setdefault("result", []).append(text + f" [{target}]")
                        continue
                    got, seen = result_monos(run, outs[0])
                    c, d, nfs = per_term[0]
                    if expr_key(got) not in {expr_key([(c, x)]) for x in nfs.values()}:
                        bad.setdefault("form", []).append(f"{text} [targets {target}] -> {show_monos(got)}, expected "
                                                          f"{' or '.join(show_monos([(c, x)]) for x in nfs.values())}")
                    try:
                        if value(got, tg, UNAME) != value(scn.monos(), tg, UNAME):
                            bad.setdefault("value", []).append(f"{text} [targets {target}] -> {show_monos(got)}")
                    except _Unknown as e:
                        bad.setdefault("value", []).append(f"{text} [targets {target}]: foreign factor {e}")
                    if seen != [scn.akey] or run.w.clash:
                        bad.setdefault("assumptions", []).append(f"{text} [targets {target}]")
    ctx.floor("R20a", "generated terms evaluated", n, 3000)
    ctx.note(f"sweep: {n} generated terms evaluated, {skipped} outside the decided domain")
    for aspect, fact in (("form", "result is a normal form of the reference rewriting"), ("value", "value unchanged for an orthogonal U"),
                         ("assumptions", "assumptions kept"), ("result", "a single result")):
        rule = "R20b" if aspect == "assumptions" else "R20a"
        ctx.check(rule, fnnode, aspect not in bad, f"{n} generated terms: {fact}",
                  f"{len(bad.get(aspect, []))} of {n} generated terms: {fact} fails, e.g. {bad.get(aspect, [''])[0]}", key=f"sweep {aspect}")


def run(ctx):
    for r in ("R20a", "R20b", "R20c"):
        if ctx.want(r):
            scenarios(ctx, r)
    if ctx.want("R20c"):
        r20c_request(ctx)
        r20c_term_tables(ctx)


def run_thorough(ctx):
    if ctx.want("R20a") or ctx.want("R20b"):
        sweep(ctx)
