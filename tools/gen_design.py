#!/usr/bin/env python3
"""Regenerates DESIGN.md from tools/design_head.md (hand-written sections), the rule modules (EXPLANATION / ASSUMPTIONS),
known_findings.json, seeded/RESULTS.md and refactors/RESULTS.md."""
import importlib
import json
import os
import sys
import textwrap

HERE = os.path.dirname(os.path.dirname(os.path.abspath(__file__)))
sys.path.insert(0, HERE)


def wrap(s, width=100, indent=""):
    return "\n".join(textwrap.wrap(" ".join(s.split()), width=width, initial_indent=indent, subsequent_indent=indent))


def main():
    head = open(os.path.join(HERE, "tools", "design_head.md")).read()
    props = [json.loads(l) for l in open(os.path.join(HERE, "properties.jsonl"))]
    sec = []
    for p in props:
        pid = p["id"]
        m = importlib.import_module(f"sa.rules.{pid.lower()}")
        title = p.get("title") or ""
        sec.append(f"### {pid} {title}\n")
        sec.append("*Decided (necessary conditions, by abstract evaluation of the source):*\n")
        sec.append(wrap(m.EXPLANATION) + "\n")
        sec.append("*Not decided / assumptions:*\n")
        for a in m.ASSUMPTIONS:
            sec.append(wrap(a, indent="  ").replace("  ", "* ", 1))
        sec.append("")
    rules = "\n".join(sec)
    k = json.load(open(os.path.join(HERE, "known_findings.json")))["findings"]
    rows = ["| id | properties | rule | where / what | witness (input that failed on the unrepaired library) | status |", "|---|---|---|---|---|---|"]
    for f in sorted(k, key=lambda f: int(f["id"][1:])):
        st = f"fixed in {f['commit']}" if f["status"] == "fixed" else "KNOWN, not fixed: " + f.get("why_not_fixed", "")
        rows.append(f"| {f['id']} | {', '.join(f.get('properties', []))} | {f.get('rule', '')} | `{f.get('function', '')}`: {f.get('what', '')} | "
                    f"{f.get('witness', '')} | {st} |")
    findings = "\n".join(rows)

    def read(path):
        p = os.path.join(HERE, path)
        return open(p).read() if os.path.exists(p) else "(not generated yet)"
    head = head.replace("{{NFIXED}}", str(sum(1 for f in k if f["status"] == "fixed")))
    head = head.replace("{{NKNOWN}}", str(sum(1 for f in k if f["status"] == "known")))
    out = head.replace("{{RULES}}", rules).replace("{{FINDINGS}}", findings) \
        .replace("{{SEEDS}}", read("seeded/RESULTS.md")).replace("{{REFACTORS}}", read("refactors/RESULTS.md"))
    open(os.path.join(HERE, "DESIGN.md"), "w").write(out)
    print("DESIGN.md", len(out.splitlines()), "lines")


if __name__ == "__main__":
    main()
