"""C18 print / import round trip, decided by abstract evaluation.

The printers (``_latex`` of Index, the tensor classes, KroneckerDelta) are evaluated by ``sa.symex`` on abstract objects
and give concrete text; ``import_from_sympy_latex`` is evaluated on concrete text with the tensor constructors, ``Mul``,
``Pow``, ``NO``, ``sqrt``, ``Expr`` and ``get_symbols`` left uninterpreted and gives a term.  Text and term are compared
with the documented format / with the object the text stands for, both written down here independently of the source.
Nothing depends on local names, statement layout or the nested helper functions of the importer: the only anchors are
``func:import_from_sympy_latex`` (with its two parameters), the ``_latex`` methods, the functions of tensor_names.py,
``Expr.__init__`` and the vocabulary they call.
"""
from __future__ import annotations

import ast
import re
from fractions import Fraction

from ..model import AnalysisError, calls_in, call_name
from ..symex import Symex, Obj, Raised
from ..terms import (T, sym, t_mul, t_add, t_pow, is_num, args_of, expand_products, product_key, multiset,
                     multiset_diff, show, subterms)

EXPLANATION = (
    "All rules evaluate the library abstractly (sa.symex) and compare values, not source text. "
    "R18b (writer): Index/AntiSymmetricTensor/SymmetricTensor/Amplitude/NonSymmetricTensor/KroneckerDelta._latex are "
    "evaluated on abstract objects (spin-free, alpha, beta, mixed, numbered indices, empty groups); the text equals the "
    "documented format {name^{upper}_{lower}}, {name_{indices}}, \\delta_{i j}, name_{\\alpha|\\beta}. R18b (reader): "
    "import_from_sympy_latex is evaluated on that text; every index comes back with its own name and spin (a spin word "
    "labels the last index before it only), groups in order, deltas with two indices, a^\\dagger_{p} -> Fd / a_{p} -> F, "
    "exponents restored, invalid spin words / operators / group counts refused. R18b': the text the printers produce for "
    "one object is one token for the importer (balanced braces, no top-level blank or sign, no '}{'). R18a: writer table "
    "W (tensor class of every constructor call whose name may flow from tensor_names.<field>, may-analysis over all "
    "bindings) against the class the evaluated importer builds for a tensor of that configured name, under the default "
    "and under a customised name configuration; name/upper/lower restored in order. R18c: decision tables of "
    "is_t_amplitude / is_gs_density / is_adc_amplitude / map_default_name under both configurations against the naming "
    "scheme base[order][cc]; the importer maps default names iff convert_default_names, also inside brackets, NO groups "
    "and sum denominators. R18d: importer arithmetic on sums, signs, fractions (numerator/denominator), integer and "
    "square-root prefactors, brackets with exponents, NO groups, symbols: the evaluated value equals the value the text "
    "denotes (multiset of products; operator order kept), the result is a bare Expr, empty text is 0. "
    "R18e: Expr.__init__ evaluated over the table sym_tensors x antisym_tensors x real x target_idx: "
    "declared names are stored, the bra-ket (anti)symmetry is applied with all declared names in place whenever either "
    "list is non-empty, make_real iff real, target indices forwarded. R18f: printing is injective on the indices of an expression only if "
    "one object exists per printed key: every constructor call of the class Index in the package (callee resolved by the "
    "evaluator through imports, re-exports, module and local aliases) outside the registry class Indices is followed "
    "through its aliases, every statement using it is evaluated and the position of the created object in the resulting "
    "terms is classified - an index position of a tensor/delta/operator is a violation, scalar uses (power, differentiation "
    "variable, old side of subs) are harmless, an object that leaves the function must be the temporary of a substitution "
    "list that the whole-function evaluation shows introduced and eliminated again; premise checked on the printer: the "
    "printed key of an index is exactly (name, spin), and the importer yields one object per key. Thorough tier: the literal round trip "
    "import(print(O)) = O with the text of the evaluated printers for every tensor kind x configured name x index group "
    "under both configurations, alone and embedded in a fraction, a bracket with exponent and a sum.")
ASSUMPTIONS = [
    "sympy's own printer for sums, products, fractions, powers, square roots, brackets, NO, F and Fd is trusted "
    "(the texts of these constructs are written down here as sympy 1.14 prints them)",
    "re-print equality is not decided",
    "get_symbols is modelled by its contract (names split as letter+digits, one spin code per name, None = no spin; "
    "unequal lengths and unknown spin codes are refused)",
    "str() of a tensor symbol is the tensor name; dataclasses.fields yields the annotated class attributes of TensorNames "
    "with their literal defaults",
    "make_real re-applies the bra-ket symmetry when it adds fock/eri (checked by C06) - used to accept real=True paths of "
    "Expr.__init__",
    "the object catalogue is finite (bounded): names, index groups up to three indices, exponents 1, 2, 12",
    "R18f: indices produced by sympy itself (subs/xreplace copies) and objects cloned through type(x)(...) are not creation "
    "sites; the registry (class Indices) is trusted to hold one object per (name, space, spin) and the index letter fixes the space",
    "R18a: the writer table is collected from constructor calls by callee name and a may-flow of tensor_names.<field> "
    "through local bindings; constructors reached through class-valued variables are not seen",
]

TWO_GROUP = ("AntiSymmetricTensor", "SymmetricTensor", "Amplitude")
CTORS = TWO_GROUP + ("NonSymmetricTensor",)
TN = "tensor_names:TensorNames"
READER = "func:import_from_sympy_latex"
CUSTOM = {"eri": "W", "coulomb": "w", "fock": "k", "operator": "o", "gs_amplitude": "tt", "gs_density": "rho",
          "left_adc_amplitude": "L", "right_adc_amplitude": "R", "orb_energy": "E", "sym_orb_denom": "Q"}


# ------------------------------------------------------------------ configurations of tensor_names

def field_defaults(ctx):
    cls = ctx.model.cls(TN)
    out = {}
    for n in cls.body:
        if not (isinstance(n, ast.AnnAssign) and isinstance(n.target, ast.Name)):
            continue
        v = n.value
        if isinstance(v, ast.Call) and call_name(v) == "field":         # dataclasses.field(default="V")
            v = next((kw.value for kw in v.keywords if kw.arg == "default"), None)
        if isinstance(v, ast.Constant) and isinstance(v.value, str):
            out[n.target.id] = v.value
    ctx.floor("R18c", "fields of TensorNames with a literal default", len(out), 8)
    return out


def configs(ctx):
    d = field_defaults(ctx)
    c = {f: CUSTOM.get(f, "z" + chr(65 + k)) for k, f in enumerate(d)}
    if len(set(c.values())) != len(c) or set(c.values()) & set(d.values()):
        raise AnalysisError("C18: the customised name configuration collides with the defaults")
    return d, c


# ------------------------------------------------------------------ abstract objects and their documented text

def IDX(name, spin=""):
    return ("idx", name, spin)


_SPIN_TEX = {"": "", "a": "_{\\alpha}", "b": "_{\\beta}"}
_NAMES = re.compile(r"[A-Za-z][0-9]*")


def tex_index(ix):
    return ix[1] + _SPIN_TEX[ix[2]]


def tex_group(g):
    return "".join(tex_index(i) for i in g)


class X:
    """A piece of an expression: its text as printed and the value it denotes."""

    def __init__(self, tex, val):
        self.tex, self.val = tex, val


def OBJ(cls, *args):
    return T("obj", cls, *args)


def tensor(cls, name, upper, lower):
    return X("{%s^{%s}_{%s}}" % (name, tex_group(upper), tex_group(lower)), OBJ(cls, name, tuple(upper), tuple(lower), 0))


def nonsym(name, idx):
    return X("{%s_{%s}}" % (name, tex_group(idx)), OBJ("NonSymmetricTensor", name, tuple(idx)))


def delta(i, j):
    return X("\\delta_{%s %s}" % (tex_index(i), tex_index(j)), OBJ("KroneckerDelta", tuple(sorted((i, j)))))


def fd(i):
    return X("{a^\\dagger_{%s}}" % tex_index(i), OBJ("Fd", i))


def f(i):
    return X("a_{%s}" % tex_index(i), OBJ("F", i))


def symbol(name):
    return X(name, OBJ("Symbol", name))


def power(x, n):
    return X(x.tex + "^{%d}" % n, npow(x.val, n))


def prod(*xs, coeff=1):
    parts = ([str(coeff)] if coeff != 1 or not xs else []) + [x.tex for x in xs]
    return X(" ".join(parts), t_mul(coeff, *[x.val for x in xs]))


def sqrt_(n):
    return X("\\sqrt{%d}" % n, npow(n, Fraction(1, 2)))


def frac(num, den):
    return X("\\frac{%s}{%s}" % (num.tex, den.tex), t_mul(num.val, npow(den.val, -1)))


def bracket(x, n=1):
    return X("\\left(%s\\right)" % x.tex + ("^{%d}" % n if n != 1 else ""), npow(x.val, n))


def no(x):
    return X("\\left\\{%s\\right\\}" % x.tex, OBJ("NO", x.val))


def total(*signed):
    """(sign, X) ... as sympy prints a sum: a leading minus is `- x`, no leading plus."""
    tex = ""
    vals = []
    for k, (sg, x) in enumerate(signed):
        if k == 0:
            tex = ("- " if sg < 0 else "") + x.tex
        else:
            tex += (" - " if sg < 0 else " + ") + x.tex
        vals.append(t_mul(sg, x.val))
    return X(tex, t_add(*vals))


# ------------------------------------------------------------------ values

def npow(b, e):
    """Power with integer exponents distributed over products (commuting factors)."""
    if isinstance(b, T) and b.op == "mul" and isinstance(e, int):
        return t_mul(*[npow(x, e) for x in b.args])
    return t_pow(b, e)


def _ix(v):
    if isinstance(v, (list, tuple)) and not (len(v) == 3 and v[0] == "idx"):
        return tuple(_ix(x) for x in v)
    return v


_SYMPY_NUMBERS = {"S.One": 1, "S.Zero": 0, "S.NegativeOne": -1, "S.Half": Fraction(1, 2)}


def norm(t):
    """The algebraic value of an importer result: Mul/Add/Pow/Expr/.sympy are interpreted, constructor calls become
    ``obj`` terms independent of keyword/positional spelling."""
    if isinstance(t, (list, tuple)):
        return tuple(norm(x) for x in t)
    if not isinstance(t, T):
        return t
    if t.op == "call":
        name = t.args[0]
        a = args_of(t)
        pos = [norm(x) for x in t.args[1]]
        g = lambda k, i, d=None: norm(a[k]) if k in a else (norm(a[i]) if i in a else d)
        if name in ("Expr", "sympify", "Integer", "S", "int") and (pos or "e" in a) and \
                all(v in (None, False) for k, v in a.items() if k not in (0, "e")):
            return norm(a["e"]) if "e" in a else pos[0]
        if name == "Mul":
            return t_mul(*pos)
        if name == "Add":
            return t_add(*pos)
        if name == "Pow" and len(pos) == 2:
            return npow(pos[0], pos[1])
        if name == "Rational" and len(pos) == 2 and all(is_num(x) for x in pos):
            return Fraction(pos[0], pos[1])
        if name == "sqrt" and len(pos) == 1:
            return npow(pos[0], Fraction(1, 2))
        if name in TWO_GROUP:
            return OBJ(name, g("name", 0), _ix(g("upper", 1)), _ix(g("lower", 2)), g("bra_ket_sym", 3, 0))
        if name == "NonSymmetricTensor":
            return OBJ(name, g("name", 0), _ix(g("indices", 1)))
        if name == "KroneckerDelta":
            ij = [g("i", 0), g("j", 1)] + pos[2:]
            try:
                ij = sorted(ij)
            except TypeError:
                pass
            return OBJ(name, tuple(ij))
        if name in ("F", "Fd", "NO", "Symbol"):
            return OBJ(name, *pos, *[(k, norm(v)) for k, v in t.args[2]])
        return T("call", name, tuple(pos), tuple((k, norm(v)) for k, v in t.args[2]))
    if t.op == "attr" and t.args[1] == "sympy":
        return norm(t.args[0])
    if t.op == "sym" and t.args[0] in _SYMPY_NUMBERS:
        return _SYMPY_NUMBERS[t.args[0]]
    args = [norm(x) for x in t.args]
    if t.op == "mul":
        return t_mul(*args)
    if t.op == "add":
        return t_add(*args)
    if t.op == "pow":
        return npow(args[0], args[1])
    return T(t.op, *args)


def _is_operator(x):
    if isinstance(x, T) and x.op == "pow":
        return _is_operator(x.args[0])
    return isinstance(x, T) and x.op == "obj" and x.args[0] in ("F", "Fd", "NO")


def keys(v):
    """Multiset of products of a value; commuting factors sorted, second-quantised operators keep their order."""
    def deep(x):
        if isinstance(x, T) and x.op == "obj" and x.args[0] == "NO":
            return OBJ("NO", sym(repr(sorted(keys(x.args[1]).items()))))
        if isinstance(x, T) and x.op == "pow":
            return T("pow", deep(x.args[0]), x.args[1]) if not (isinstance(x.args[0], T) and x.args[0].op == "add") \
                else T("pow", sym(repr(sorted(keys(x.args[0]).items()))), x.args[1])
        return x
    return multiset(product_key(c, [deep(x) for x in fs], lambda x: not _is_operator(x)) for c, fs in expand_products(v))


def same_value(a, b):
    return keys(a) == keys(b)


def bare_expr(v):
    """The importer returns Expr(<value>) without assumptions."""
    if not (isinstance(v, T) and v.op == "call" and v.args[0] == "Expr"):
        return False
    a = args_of(v)
    return all(x in (None, False) for k, x in a.items() if k not in (0, "e"))


# ------------------------------------------------------------------ evaluation of the library

def positional(fn, *values, **named):
    """Arguments bound the way callers pass them: the leading parameters by position, the rest by keyword."""
    params = [x.arg for x in fn.args.posonlyargs + fn.args.args]
    if len(params) < len(values):
        raise AnalysisError(f"C18: {getattr(fn, '_qual', fn.name)} takes fewer than {len(values)} positional parameters")
    d = dict(zip(params, values))
    d.update(named)
    return d


def _get_symbols(sx, a, kw):
    """Contract of indices.get_symbols."""
    b = dict(zip(("indices", "spins"), a))
    b.update(kw)
    indices, spins = b.get("indices"), b.get("spins")
    if isinstance(indices, T) or isinstance(spins, T):
        return NotImplemented
    if not indices:
        return []
    if isinstance(indices, tuple) and len(indices) == 3 and indices[0] == "idx":
        return [indices]
    if isinstance(indices, str):
        names = _NAMES.findall(indices)
        if "".join(names) != indices:
            raise Raised("Inputerror")
    else:
        names = list(indices)
        if all(isinstance(n, tuple) and n[:1] == ("idx",) for n in names):
            return names
        if not all(isinstance(n, str) for n in names):
            raise Raised("Inputerror")
    if spins is None:
        spins = [""] * len(names)
    if not isinstance(spins, (str, list, tuple)) or len(spins) != len(names):
        raise Raised("Inputerror")
    if any(s not in ("", "a", "b") for s in spins):
        raise Raised("KeyError")
    return [IDX(n, s) for n, s in zip(names, spins)]


def _hooks(cfg, defaults):
    def fields(sx, a, kw):
        out = []
        for k, v in defaults.items():
            o = Obj(None, f"field:{k}")
            o.attrs.update(name=k, default=v)
            out.append(o)
        return out

    def tn():
        return Obj(TN, "tensor_names", **cfg)
    return {"get_symbols": _get_symbols, "fields": fields, "tensor_names": tn()}, tn


def make_sx(ctx, what, cfg, defaults, extra=None):
    hooks, tn = _hooks(cfg, defaults)
    hooks.update(extra or {})
    sx = Symex(ctx.model, inline=lambda q: True, hooks=hooks, what=what, max_steps=2000000, max_depth=40)

    def start(s):
        s.hooks["tensor_names"] = tn()
    sx.on_start = start
    return sx


class Result:
    def __init__(self, kind, val=None, exc=None, raw=None):
        self.kind, self.val, self.exc, self.raw = kind, val, exc, raw

    def __repr__(self):
        return f"raises {self.exc}" if self.kind == "raise" else show(self.val)[:500]


class Reader:
    """import_from_sympy_latex evaluated on concrete text under one name configuration."""

    def __init__(self, ctx, cfg, defaults, tag):
        self.ctx, self.tag = ctx, tag
        self.fn = ctx.model.fn(READER)
        self.sx = make_sx(ctx, f"import_from_sympy_latex[{tag}]", cfg, defaults)
        self.n = 0

    def __call__(self, text, convert=False):
        outs = self.sx.run(self.fn, lambda: positional(self.fn, text, convert_default_names=convert))
        self.n += 1
        if len(outs) != 1:
            raise AnalysisError(f"C18: importer evaluation of `{text}` is not deterministic ({len(outs)} outcomes)")
        o = outs[0]
        if o.kind == "raise":
            return Result("raise", exc=o.exc)
        return Result("value", norm(o.value), raw=o.value)


def read_check(ctx, rule, rd, x, key, what, convert=False):
    r = rd(x.tex, convert)
    ok = r.kind == "value" and same_value(r.val, x.val)
    why = ""
    if not ok:
        why = f"{what}: importing `{x.tex}`{' with convert_default_names' if convert else ''} [{rd.tag} names] gives {r!r}"
        if r.kind == "value":
            miss, sur = multiset_diff(keys(r.val), keys(x.val))
            why += f"; expected product(s) {miss[:2]}, got instead {sur[:2]}"
        else:
            why += f"; expected {show(x.val)[:300]}"
    ctx.check(rule, rd.fn, ok, f"{what}: `{x.tex}` imported as the value it denotes", why, key=f"{key} [{rd.tag}]")
    return r


def refuse_check(ctx, rule, rd, text, exc, key, what):
    r = rd(text)
    ok = r.kind == "raise" and (exc is None or r.exc in exc)
    ctx.check(rule, rd.fn, ok, f"{what}: `{text}` refused",
              f"{what}: importing `{text}` {'raises ' + str(r.exc) if r.kind == 'raise' else 'is accepted: ' + repr(r)}, "
              f"expected {' or '.join(exc) if exc else 'an error'}", key=f"{key} [{rd.tag}]")


class Writer:
    """The ``_latex`` methods evaluated on abstract objects."""

    def __init__(self, ctx, cfg, defaults):
        self.ctx = ctx

        def _print(sx, args, kw):
            """sympy's printer dispatch: an object with a ``_latex`` method prints itself, a string is itself."""
            x = args[1] if len(args) > 1 else kw.get("expr")
            if isinstance(x, Obj) and x.cls and sx.find_method(x.cls, "_latex"):
                return sx.call_method(x, "_latex", [args[0]], {}, None)
            if isinstance(x, str):
                return x
            return NotImplemented
        self.sx = make_sx(ctx, "_latex", cfg, defaults, extra={"_print": _print, "doprint": _print})

    @staticmethod
    def index(ix):
        o = Obj("indices:Index", f"index {ix[1]}{'_' + ix[2] if ix[2] else ''}")
        o.attrs.update(name=ix[1], spin=ix[2])
        return o

    def obj(self, cls, *args):
        if cls == "Index":
            return self.index(args[0])
        conv = tuple(tuple(self.index(i) for i in a) if isinstance(a, (tuple, list)) and not (len(a) == 3 and a[0] == "idx")
                     else self.index(a) if isinstance(a, tuple) else a for a in args)
        o = Obj(f"sympy_objects:{cls}", cls, args=conv)
        if cls != "KroneckerDelta":
            o.attrs["name"] = args[0]       # str(Symbol) and Symbol.name are both the tensor name
        return o

    def method(self, cls):
        ref = "indices:Index" if cls == "Index" else f"sympy_objects:{cls}"
        m = self.sx.find_method(ref, "_latex")
        if m is None:
            raise AnalysisError(f"C18: no _latex method for {cls}")
        return m[0]

    def __call__(self, cls, *args):
        fn = self.method(cls)
        outs = self.sx.run(fn, lambda: positional(fn, self.obj(cls, *args), Obj(None, "printer")))
        if len(outs) != 1:
            raise AnalysisError(f"C18: printer of {cls} is not deterministic on {args}")
        o = outs[0]
        if o.kind != "return" or not isinstance(o.value, str):
            return fn, None, (o.exc if o.kind == "raise" else show(o.value))
        return fn, o.value, None


# ------------------------------------------------------------------ catalogue

i, j, k, a, b, c, p, q = (IDX(n) for n in "ijkabcpq")
ia, ib, ja, jb, aa, ab_, bb, pa, qb = IDX("i", "a"), IDX("i", "b"), IDX("j", "a"), IDX("j", "b"), IDX("a", "a"), \
    IDX("a", "b"), IDX("b", "b"), IDX("p", "a"), IDX("q", "b")
i1, j12a, a3, b10b = IDX("i1"), IDX("j12", "a"), IDX("a3"), IDX("b10", "b")

GROUPS = [
    ("spin free", (i, j), (a, b)),
    ("all alpha/beta", (ia, jb), (aa, bb)),
    ("spin-free before spin-labelled", (i, jb), (aa, b)),
    ("spin-labelled before spin-free", (ib, j), (a, ab_)),
    ("numbered", (i1, j12a), (a3, b10b)),
    ("three indices mixed", (i, jb, k), (a, bb, c)),
    ("single", (p,), (qb,)),
    ("empty upper", (), (i, ja)),
]


# ------------------------------------------------------------------ R18b / R18b'

def _top_level_tokens(s):
    """Independent statement of what the importer splits on: unbalanced braces, top-level blank/sign, '}{'."""
    d = 0
    bad = []
    for ch in s:
        if ch == "{":
            d += 1
        elif ch == "}":
            d -= 1
            if d < 0:
                bad.append("unbalanced '}'")
                d = 0
        elif ch in " +-" and d == 0:
            bad.append(f"top-level {ch!r}")
    if d != 0:
        bad.append("unbalanced '{'")
    if "}{" in s:
        bad.append("'}{'")
    return bad


def r18b_writer(ctx, wr):
    rule = "R18b"
    n = 0

    def one(cls, args, want, key, what):
        nonlocal n
        fn, text, err = wr(cls, *args)
        n += 1
        ctx.check(rule, fn, text == want, f"{what} printed as `{want}`",
                  f"{what}: {cls}._latex prints `{text if text is not None else err}`, the documented format is `{want}`",
                  key=f"writer {key}")
        if text is not None:
            bad = _top_level_tokens(text)
            ctx.check("R18b'", fn, not bad, f"{what}: `{text}` is a single token for the importer",
                      f"{what}: the printed text `{text}` contains {', '.join(sorted(set(bad)))}, where the importer splits "
                      "terms, objects or fractions", key=f"token {key}")

    for ix in (i, aa, jb, i1, j12a, b10b, pa):
        one("Index", (ix,), tex_index(ix), f"index {ix[1:]}", f"index {ix[1]}{ix[2] and '_' + ix[2]}")
    for cls in TWO_GROUP:
        for tag, up, lo in GROUPS:
            x = tensor(cls, "x", up, lo)
            one(cls, ("x", up, lo, 0), x.tex, f"{cls} {tag}", f"{cls} with {tag} indices")
        x = tensor(cls, "x", (i, j), (a, b))
        one(cls, ("x", (i, j), (a, b), 1), x.tex, f"{cls} bra-ket symmetric", f"bra-ket symmetric {cls}")
    for tag, up, lo in GROUPS:
        x = nonsym("y", up + lo)
        one("NonSymmetricTensor", ("y", up + lo), x.tex, f"NonSymmetricTensor {tag}", f"NonSymmetricTensor with {tag} indices")
    for d in ((i, j), (ia, ja), (i, ia), (pa, q)):
        want = "\\delta_{%s %s}" % (tex_index(d[0]), tex_index(d[1]))
        one("KroneckerDelta", d, want, f"delta {d[0][1:]} {d[1][1:]}", f"delta of {d[0][1:]} and {d[1][1:]}")
    ctx.floor(rule, "printer evaluations", n, 40)


def r18b_reader(ctx, rd):
    rule = "R18b"
    for tag, up, lo in GROUPS:
        read_check(ctx, rule, rd, tensor("AntiSymmetricTensor", "x", up, lo), f"indices {tag}", f"index groups ({tag})")
        read_check(ctx, rule, rd, nonsym("y", up + lo), f"indices nonsym {tag}", f"index list ({tag})") if up + lo else None
    for d in ((i, j), (ia, ja), (i, ia), (pa, q), (i1, j12a)):
        read_check(ctx, rule, rd, delta(*d), f"delta {d[0][1:]} {d[1][1:]}", "delta with two blank-separated indices")
    refuse_check(ctx, rule, rd, "\\delta_{i j k}", ("RuntimeError",), "delta three", "delta needs exactly two indices")
    refuse_check(ctx, rule, rd, "\\delta_{i}", ("RuntimeError",), "delta one", "delta needs exactly two indices")
    refuse_check(ctx, rule, rd, "{x^{i_{\\gamma}}_{a}}", ("RuntimeError",), "spin word", "spin words other than alpha/beta")
    refuse_check(ctx, rule, rd, "{y_{i_{\\alph}}}", ("RuntimeError",), "spin word prefix", "spin words other than alpha/beta")
    # operators
    for ix in (i, ab_, p, j12a):
        read_check(ctx, rule, rd, fd(ix), f"Fd {ix[1:]}", "a^\\dagger_{p} is a creation operator")
        read_check(ctx, rule, rd, f(ix), f"F {ix[1:]}", "a_{p} is an annihilation operator")
    refuse_check(ctx, rule, rd, "{a^\\dag_{i}}", ("RuntimeError",), "operator unknown", "unknown second-quantised operator")
    refuse_check(ctx, rule, rd, "{a^{i}_{j}_{k}}", ("RuntimeError",), "operator groups", "unknown second-quantised operator")
    refuse_check(ctx, rule, rd, "{x^{i}_{j}_{k}}", ("RuntimeError",), "three groups", "a tensor with three index groups")
    # exponents
    for n in (2, 12):
        read_check(ctx, rule, rd, power(tensor("AntiSymmetricTensor", "x", (i, j), (a, b)), n), f"exponent tensor {n}",
                   f"exponent ^{{{n}}} of a tensor restored")
        read_check(ctx, rule, rd, power(nonsym("y", (i,)), n), f"exponent nonsym {n}", f"exponent ^{{{n}}} restored")
    read_check(ctx, rule, rd, prod(power(nonsym("y", (i,)), 2), power(tensor("AntiSymmetricTensor", "x", (ia,), (ab_,)), 3)),
               "exponent product", "exponents belong to their own object")
    read_check(ctx, rule, rd, symbol("z"), "symbol", "a name without indices is a symbol")
    read_check(ctx, rule, rd, power(symbol("z"), 2), "symbol power", "a name without indices is a symbol")


# ------------------------------------------------------------------ R18a

def _bindings(fn):
    """name -> every expression that may be bound to it anywhere in the function (may-analysis, order-free)."""
    out = {}

    def bind(t, v):
        if isinstance(t, ast.Name):
            out.setdefault(t.id, []).append(v)
        elif isinstance(t, (ast.Tuple, ast.List)):
            for e in t.elts:
                bind(e.value if isinstance(e, ast.Starred) else e, v)
    for n in ast.walk(fn):
        if isinstance(n, ast.Assign):
            for t in n.targets:
                bind(t, n.value)
        elif isinstance(n, (ast.AnnAssign, ast.AugAssign, ast.NamedExpr)) and n.value is not None:
            bind(n.target, n.value)
        elif isinstance(n, (ast.For, ast.comprehension)):
            bind(n.target, n.iter)
        elif isinstance(n, (ast.FunctionDef, ast.Lambda)):
            ar = n.args
            pos = ar.posonlyargs + ar.args
            for prm, d in zip(pos[len(pos) - len(ar.defaults):], ar.defaults):
                out.setdefault(prm.arg, []).append(d)
            for prm, d in zip(ar.kwonlyargs, ar.kw_defaults):
                if d is not None:
                    out.setdefault(prm.arg, []).append(d)
    return out


class _Flow:
    """May-flow of ``tensor_names.<field>`` into an expression: through every local binding of a name (order- and
    path-insensitive) and through parameters to the arguments at the call sites of the function in the package."""

    def __init__(self, ctx, fields):
        self.ctx, self.fields = ctx, fields
        self.binds = {}
        self.callers = None

    def _aliases(self, mod):
        """local names of the tensor_names singleton in a module"""
        out = {k for k, v in mod.imports.items() if v.endswith("tensor_names:tensor_names")}
        if mod.name == "tensor_names":
            out.add("tensor_names")
        return out

    def _binds(self, fn):
        if id(fn) not in self.binds:
            self.binds[id(fn)] = _bindings(fn)
        return self.binds[id(fn)]

    def _call_sites(self, name):
        if self.callers is None:
            self.callers = {}
            for ref, fn in self.ctx.model.all_functions():
                if getattr(fn, "_fn", None) is not None:
                    continue
                for cl in calls_in(fn):
                    self.callers.setdefault(call_name(cl), []).append((cl, fn))
        return self.callers.get(name, [])

    def _param_args(self, fn, prm):
        """argument expressions bound to parameter ``prm`` of ``fn`` at its call sites: [(expr, caller)]"""
        ar = fn.args
        pos = [x.arg for x in ar.posonlyargs + ar.args]
        if prm not in pos and prm not in [x.arg for x in ar.kwonlyargs]:
            return []
        out = []
        for cl, caller in self._call_sites(fn.name):
            skip = 1 if pos[:1] in (["self"], ["cls"]) and isinstance(cl.func, ast.Attribute) else 0
            if prm in pos and not any(isinstance(x, ast.Starred) for x in cl.args):
                k = pos.index(prm) - skip
                if 0 <= k < len(cl.args):
                    out.append((cl.args[k], caller))
            out.extend((kw.value, caller) for kw in cl.keywords if kw.arg == prm)
        return out

    def fields_of(self, expr, fn, seen=None):
        seen = set() if seen is None else seen
        names = self._aliases(fn._module)
        binds = self._binds(fn)
        out = set()
        for n in ast.walk(expr):
            if isinstance(n, ast.Attribute) and isinstance(n.value, ast.Name) and n.value.id in names and n.attr in self.fields:
                out.add(n.attr)
            elif isinstance(n, ast.Call) and isinstance(n.func, ast.Name) and n.func.id == "getattr" and len(n.args) >= 2 \
                    and isinstance(n.args[0], ast.Name) and n.args[0].id in names:
                key = n.args[1]
                if isinstance(key, ast.Constant) and isinstance(key.value, str):
                    out |= {key.value} & set(self.fields)
                elif isinstance(key, ast.JoinedStr):
                    pat = "".join(re.escape(v.value) if isinstance(v, ast.Constant) else ".*" for v in key.values)
                    out |= {f_ for f_ in self.fields if re.fullmatch(pat, f_)}
            elif isinstance(n, ast.Name) and isinstance(n.ctx, ast.Load) and (id(fn), n.id) not in seen:
                seen.add((id(fn), n.id))
                for v in binds.get(n.id, []):
                    out |= self.fields_of(v, fn, seen)
                if len(seen) < 200:
                    for v, caller in self._param_args(fn, n.id):
                        out |= self.fields_of(v, caller, seen)
        return out


def writer_table(ctx, fields):
    """configurable name field -> {class: [constructor call sites]}"""
    table = {}
    n_sites = 0
    reader = ctx.model.fn(READER)
    flow = _Flow(ctx, fields)
    for ref, fn in ctx.model.all_functions():
        if getattr(fn, "_fn", None) is not None or fn is reader:
            continue
        for cl in calls_in(fn):
            cls = call_name(cl)
            if cls not in CTORS:
                continue
            name = cl.args[0] if cl.args and not isinstance(cl.args[0], ast.Starred) else \
                next((kw.value for kw in cl.keywords if kw.arg == "name"), None)
            if name is None:
                continue
            n_sites += 1
            for f_ in sorted(flow.fields_of(name, fn)):
                table.setdefault(f_, {}).setdefault(cls, []).append(cl)
    return table, n_sites


def r18a(ctx, readers, cfgs):
    rule = "R18a"
    defaults = cfgs["default"]
    W, n_sites = writer_table(ctx, defaults)
    ctx.floor(rule, "tensor constructor call sites in the package", n_sites, 30)
    ctx.floor(rule, "configurable names with a constructor site", len(W), 8)
    ext = {"gs_amplitude": ("", "1", "2", "3cc", "cc"), "gs_density": ("", "2", "0")}
    for tag, rd in readers.items():
        cfg = cfgs[tag]
        for f_, classes in sorted(W.items()):
            for cls, sites in sorted(classes.items()):
                for e in ext.get(f_, ("",)):
                    name = cfg[f_] + e
                    if cls in TWO_GROUP:
                        cases = [tensor(cls, name, (i, j), (a, b)), tensor(cls, name, (a, bb), (i, jb)), tensor(cls, name, (p,), (q,))]
                    else:
                        cases = [nonsym(name, (i,)), nonsym(name, (p, qb, a))]
                    for n, x in enumerate(cases):
                        r = rd(x.tex)
                        objs = [t for t in subterms(r.val) if t.op == "obj" and t.args[0] not in ("Symbol",)] if r.kind == "value" else []
                        got = (objs[0].args[0], objs[0].args[1]) if len(objs) == 1 else None
                        ctx.check(rule, sites[0], got == (cls, name),
                                  f"tensor_names.{f_} (`{name}`): written as {cls}, `{x.tex}` imported as {cls}",
                                  f"the library builds tensors named tensor_names.{f_} as {cls} ({len(sites)} site(s)), but "
                                  f"import_from_sympy_latex turns `{x.tex}` [{tag} names] into "
                                  f"{'a ' + got[0] + ' named ' + repr(got[1]) + ': the imported expression has another tensor kind' if got else repr(r)}",
                                  fn=READER, key=f"{f_}{e and ' ' + e}: {cls} case {n} [{tag}]")
        # names outside the configuration: antisymmetric / non-symmetric by the number of index groups; group order
        for name in ("x", "Zero", "t2eri1", cfg["gs_amplitude"] + "x", "a1"):
            read_check(ctx, rule, rd, tensor("AntiSymmetricTensor", name, (i, j), (a, b)), f"other {name} two groups",
                       f"unconfigured name {name} with two index groups is antisymmetric, first group upper")
            read_check(ctx, rule, rd, nonsym(name, (i, a)), f"other {name} one group",
                       f"unconfigured name {name} with one index group is non-symmetric")
        read_check(ctx, rule, rd, tensor("AntiSymmetricTensor", "x", (a, b), (i, j)), "upper lower order",
                   "first index group is the upper one")


# ------------------------------------------------------------------ R18c

_T_NAME = re.compile(r"(\d+)?(cc)?")


def _run1(ctx, sx, ref, args, what):
    outs = sx.run(ref, lambda: dict(args()))
    if len(outs) != 1:
        raise AnalysisError(f"C18: {what} is not deterministic ({len(outs)} outcomes)")
    o = outs[0]
    return ("raise", o.exc) if o.kind == "raise" else ("value", o.value)


def r18c(ctx, readers, cfgs):
    rule = "R18c"
    defaults = cfgs["default"]
    exts_ok = ["", "1", "2", "12", "cc", "1cc", "3cc"]
    exts_bad = ["x", "1x", "_1", "a", "1a", "cc1x", "-1"]
    for tag, cfg in cfgs.items():
        sx = make_sx(ctx, f"tensor_names[{tag}]", cfg, defaults)
        tn = lambda: Obj(TN, "tensor_names", **cfg)
        others = sorted(set(list(cfg.values()) + list(defaults.values()) + ["x", "Zero", "a"]))
        # recognisers
        for fname, field, good in (("is_t_amplitude", "gs_amplitude", exts_ok), ("is_gs_density", "gs_density", ["", "0", "2", "12"])):
            fn = ctx.model.fn(f"tensor_names:{fname}")
            base = cfg[field]
            table = {base + e: True for e in good}
            table.update({base + e: False for e in exts_bad})
            if fname == "is_gs_density":
                table.update({base + "cc": False, base + "2cc": False})
            for o in others:
                if not o.startswith(base):
                    table.setdefault(o, False)
                    table.setdefault(o + "1", False)
            for name, want in sorted(table.items()):
                kind, v = _run1(ctx, sx, fn, lambda: positional(fn, name), f"{fname}({name!r})")
                ctx.check(rule, fn, kind == "value" and v is want, f"{fname}({name!r}) is {want} [{tag} names]",
                          f"{fname}({name!r}) gives {v!r} under the {tag} names ({field} = {base!r}), expected {want}: "
                          f"{'a name the library prints for this tensor kind is not recognised' if want else 'a foreign name is taken for this tensor kind'}",
                          key=f"{fname} {name} [{tag}]")
        fn = ctx.model.fn("tensor_names:is_adc_amplitude")
        for name in others + [cfg["left_adc_amplitude"] + "1", cfg["right_adc_amplitude"] + "cc"]:
            want = name in (cfg["left_adc_amplitude"], cfg["right_adc_amplitude"])
            kind, v = _run1(ctx, sx, fn, lambda: positional(fn, name), f"is_adc_amplitude({name!r})")
            ctx.check(rule, fn, kind == "value" and v is want, f"is_adc_amplitude({name!r}) is {want} [{tag} names]",
                      f"is_adc_amplitude({name!r}) gives {v!r} under the {tag} names, expected {want} (exactly the two configured names)",
                      key=f"is_adc {name} [{tag}]")
        # default names -> configured names
        fn = ctx.model.fn(f"{TN}.map_default_name")
        want = {}
        for e in exts_ok:
            want[defaults["gs_amplitude"] + e] = cfg["gs_amplitude"] + e
        for e in ("", "0", "2", "12"):
            want[defaults["gs_density"] + e] = cfg["gs_density"] + e
        for f_, d in defaults.items():
            want.setdefault(d, cfg[f_])
        for e in exts_bad:
            want.setdefault(defaults["gs_amplitude"] + e, defaults["gs_amplitude"] + e)
            want.setdefault(defaults["gs_density"] + e, defaults["gs_density"] + e)
        want.setdefault(defaults["gs_density"] + "2cc", defaults["gs_density"] + "2cc")
        for nme in ("x", "Zero", "a", "t2eri1", "t2sq", defaults["eri"] + "1", defaults["fock"] + "cc"):
            want.setdefault(nme, nme)
        if tag != "default":
            for nme in cfg.values():
                want.setdefault(nme, nme)
        for name, w in sorted(want.items()):
            kind, v = _run1(ctx, sx, fn, lambda: positional(fn, tn(), name), f"map_default_name({name!r})")
            ctx.check(rule, fn, kind == "value" and v == w, f"map_default_name({name!r}) = {w!r} [{tag} names]",
                      f"map_default_name({name!r}) gives {v!r} under the {tag} names, expected {w!r} (default base replaced by "
                      "the configured one, order/cc extension kept, other names unchanged)", key=f"map {name} [{tag}]")
    # the importer maps default names on request only - everywhere it recurses
    rd = readers["custom"]
    cfg = cfgs["custom"]
    d = defaults
    t2d = tensor("AntiSymmetricTensor", d["gs_amplitude"] + "2", (a, b), (i, j))
    t2c = tensor("Amplitude", cfg["gs_amplitude"] + "2", (a, b), (i, j))
    vd = tensor("AntiSymmetricTensor", d["coulomb"], (i, a), (j, b))
    vc = tensor("SymmetricTensor", cfg["coulomb"], (i, a), (j, b))
    ed = nonsym(d["orb_energy"], (i,))
    ec = nonsym(cfg["orb_energy"], (i,))
    cases = [
        ("plain", prod(t2d, vd, ed), prod(t2c, vc, ec)),
        ("bracket", prod(bracket(total((1, t2d), (-1, vd)), 2), ed), prod(bracket(total((1, t2c), (-1, vc)), 2), ec)),
        ("bracket no exponent", prod(ed, bracket(total((1, t2d), (1, vd)))), prod(ec, bracket(total((1, t2c), (1, vc))))),
        ("NO group", prod(ed, no(prod(t2d, fd(i), f(a)))), prod(ec, no(prod(t2c, fd(i), f(a))))),
        ("sum denominator", frac(t2d, total((1, ed), (-1, nonsym(d["orb_energy"], (a,))))),
         frac(t2c, total((1, ec), (-1, nonsym(cfg["orb_energy"], (a,)))))),
        ("numerator with signs", frac(total((1, t2d), (1, vd)), prod(ed, coeff=2)), frac(total((1, t2c), (1, vc)), prod(ec, coeff=2))),
    ]
    for key, xd, xc in cases:
        # the flag reaching the recursive imports (brackets, NO groups, sums inside fractions) is importer arithmetic: R18d
        r_ = rule if key == "plain" else "R18d"
        read_check(ctx, r_, rd, X(xd.tex, xd.val), f"no conversion {key}", f"default names kept without the flag ({key})", convert=False)
        read_check(ctx, r_, rd, X(xd.tex, xc.val), f"conversion {key}", f"default names mapped with the flag ({key})", convert=True)


# ------------------------------------------------------------------ R18d

def r18d(ctx, rd, cfg):
    rule = "R18d"
    V = tensor("AntiSymmetricTensor", cfg["eri"], (i, j), (a, b))
    t1 = tensor("Amplitude", cfg["gs_amplitude"] + "1", (a, b), (i, jb))
    v = tensor("SymmetricTensor", cfg["coulomb"], (i, a), (j, b))
    ei, ea, ej = (nonsym(cfg["orb_energy"], (x,)) for x in (i, a, j))
    dl = delta(i, ia)
    cases = [
        ("single term", total((1, V))),
        ("leading minus", total((-1, V))),
        ("two terms +", total((1, V), (1, t1))),
        ("two terms -", total((1, V), (-1, t1))),
        ("three terms mixed signs", total((-1, V), (1, prod(t1, ei)), (-1, prod(dl, ej, coeff=2)))),
        ("same term twice", total((1, V), (1, V))),
        ("integer prefactor", total((1, prod(V, t1, coeff=2)), (-1, prod(ei, coeff=12)))),
        ("sqrt prefactor", total((1, prod(sqrt_(2), V)), (-1, prod(sqrt_(3), t1, coeff=2)))),
        ("bare number", total((1, V), (-1, prod(coeff=3)))),
        ("fraction number", total((1, frac(prod(V, t1), prod(coeff=4))))),
        ("fraction minus", total((-1, frac(prod(V, coeff=3), prod(ei, coeff=2))), (1, t1))),
        ("fraction sqrt", total((1, frac(prod(sqrt_(2), V), prod(coeff=2))), (1, frac(prod(sqrt_(6), t1, ei), prod(ea, coeff=4))))),
        ("fraction one over", total((1, frac(prod(coeff=1), prod(ei, ea))))),
        ("fraction sum denominator", total((1, frac(prod(v, coeff=3), total((-1, ea), (1, ei)))))),
        ("fraction sum numerator", total((1, frac(total((1, V), (-1, t1)), prod(ei, coeff=2))))),
        ("fraction bracket denominator", total((1, frac(prod(v, coeff=3), prod(bracket(total((-1, ea), (1, ei)), 2), coeff=4))),
                                               (-1, frac(t1, prod(bracket(total((1, ei), (1, ej), (-1, ea))), bracket(total((1, ei), (-1, ea)))))))),
        ("bracket", total((1, prod(bracket(total((1, V), (-1, t1))), ei)))),
        ("bracket exponent", total((-1, prod(ei, bracket(total((1, V), (1, t1)), 2))), (1, bracket(total((1, ei), (-1, ea)), 12)))),
        ("nested bracket", total((1, prod(bracket(total((1, prod(bracket(total((1, ei), (-1, ea))), V)), (1, t1)), 2), ej)))),
        ("operators", total((1, prod(V, fd(i), fd(j), f(b), f(a))), (-1, prod(ei, fd(i), f(i))))),
        ("operator order", total((1, prod(f(a), fd(i))), (1, prod(fd(i), f(a))))),
        ("NO group", total((-1, prod(ei, no(prod(f(j), fd(i))))), (1, prod(V, no(prod(fd(i), fd(j), f(b), f(a))), coeff=2)))),
        ("symbols", total((1, prod(symbol("x"), V, coeff=2)), (-1, power(symbol("y"), 2)))),
        ("tensor powers", total((1, prod(power(V, 2), power(ei, 3))), (-1, frac(power(t1, 2), power(ea, 2))))),
        ("delta and spin", total((1, prod(dl, tensor("AntiSymmetricTensor", cfg["fock"], (ia,), (ab_,)))), (-1, prod(delta(pa, q), v)))),
    ]
    for key, x in cases:
        r = read_check(ctx, rule, rd, x, key, f"importer arithmetic ({key})")
        if r.kind == "value":
            ctx.check(rule, rd.fn, bare_expr(r.raw), f"{key}: the result is Expr(<sum>) without assumptions",
                      f"importing `{x.tex}` returns {show(r.raw)[:200]} instead of a bare Expr of the sum", key=f"expr {key} [{rd.tag}]")
    for text in ("", "   "):
        r = rd(text)
        ctx.check(rule, rd.fn, r.kind == "value" and r.val == 0 and bare_expr(r.raw), "empty text is Expr(0)",
                  f"importing {text!r} gives {r!r}", key=f"empty {len(text)} [{rd.tag}]")
    # surrounding blanks do not matter
    x = total((-1, V), (1, t1))
    read_check(ctx, rule, rd, X("  " + x.tex + " ", x.val), "padding", "leading/trailing blanks ignored")
    read_check(ctx, rule, rd, X("+ " + V.tex, V.val), "explicit plus", "an explicit leading plus")
    refuse_check(ctx, rule, rd, "\\left\\{a_{i}\\right\\}^{2}", ("NotImplementedError", "ValueError"), "NO exponent",
                 "an exponent on a NO group")


# ------------------------------------------------------------------ R18e

def r18e(ctx, cfgs):
    rule = "R18e"
    fn = ctx.model.fn("expr_container:Expr.__init__")
    cfg = cfgs["custom"]
    log = []

    def snap(kind):
        def h(sx, args, kw):
            me = args[0]
            st = (set(me.attrs.get("_sym_tensors") or ()), set(me.attrs.get("_antisym_tensors") or ()))
            log.append((kind, st, list(args[1:]), dict(kw)))
            if kind == "make_real":
                me.attrs["_real"] = True
            return me
        return h
    hooks = {"Expr._apply_tensor_braket_sym": snap("apply"), "Expr.make_real": snap("make_real"),
             "Expr.set_target_idx": snap("target")}
    sx = make_sx(ctx, "Expr.__init__", cfg, cfgs["default"], extra=hooks)
    sx.isinstance_hook = lambda s, obj, cname: False
    fe = {cfg["fock"], cfg["eri"]}
    n = 0
    for sym_t in (None, (), ("A",), ("A", cfg["fock"], cfg["eri"])):
        for anti in (None, (), ("B",), ("B", "C")):
            for real in (False, True):
                for tgt in (None, "ij", "ji"):
                    del log[:]
                    me = []

                    def args():
                        del log[:]
                        me[:] = [Obj("expr_container:Expr", "self")]
                        return dict(self=me[0], e=sym("E"), real=real, sym_tensors=sym_t, antisym_tensors=anti, target_idx=tgt)
                    outs = sx.run(fn, args)
                    n += 1
                    what = f"Expr(e, real={real}, sym_tensors={sym_t}, antisym_tensors={anti}, target_idx={tgt!r})"
                    key = f"{real} {sym_t} {anti} {tgt}"
                    if len(outs) != 1 or outs[0].kind != "return":
                        ctx.bad(rule, fn, f"{what}: {outs}", key=f"init shape {key}")
                        continue
                    ds, da = set(sym_t or ()), set(anti or ())
                    applied = [st for kd, st, _, _ in log if kd == "apply" and st[0] >= ds and st[1] >= da]
                    # make_real adds fock/eri and re-applies the symmetry when one of them is missing (C06)
                    applied += [st for kd, st, _, _ in log if kd == "make_real" and st[0] >= ds and st[1] >= da and not fe <= st[0]]
                    if ds or da:
                        ctx.check(rule, fn, bool(applied), f"{what}: declared bra-ket (anti)symmetry applied",
                                  f"{what}: the declared names are stored but the bra-ket (anti)symmetry is never applied to the "
                                  f"tensors (calls: {[(kd, sorted(st[0]), sorted(st[1])) for kd, st, _, _ in log]}): re-applying "
                                  "assumptions that consist only of these names leaves the imported tensors without the symmetry",
                                  key=f"init apply {key}")
                    s_end, a_end = me[0].attrs.get("_sym_tensors"), me[0].attrs.get("_antisym_tensors")
                    ok = isinstance(s_end, set) and isinstance(a_end, set) and ds <= s_end <= ds | fe and a_end == da
                    ctx.check(rule, fn, ok, f"{what}: declared names stored", f"{what}: stores sym_tensors={s_end}, antisym_tensors={a_end}",
                              key=f"init store {key}")
                    mr = [x for x in log if x[0] == "make_real"]
                    ctx.check(rule, fn, bool(mr) == real, f"{what}: make_real iff real",
                              f"{what}: make_real is called {len(mr)} time(s)", key=f"init real {key}")
                    tg = [x for x in log if x[0] == "target"]
                    okt = (not tg) if tgt is None else (len(tg) == 1 and (tg[0][2] + list(tg[0][3].values())) == [tgt])
                    if not okt and not tg:
                        # the constructor may also store the target indices itself: then the stored value has to be the
                        # one Expr.set_target_idx(target_idx) stores (both evaluated from the source, by value)
                        okt = "_target_idx" in me[0].attrs and \
                            _same_value(me[0].attrs["_target_idx"], _stored_target(ctx, cfg, cfgs["default"], tgt))
                    ctx.check(rule, fn, okt, f"{what}: target indices forwarded", f"{what}: set_target_idx calls {[(x[2], x[3]) for x in tg]}",
                              key=f"init target {key}")
    ctx.floor(rule, "evaluations of Expr.__init__", n, 64)


def _same_value(a, b):
    return a is b or a == b or repr(a) == repr(b)


def _stored_target(ctx, cfg, default_cfg, tgt):
    """what Expr.set_target_idx(tgt) stores in _target_idx of a fresh container (evaluated from the source)"""
    fn = ctx.model.fn("expr_container:Expr.set_target_idx")
    sx = make_sx(ctx, "Expr.set_target_idx", cfg, default_cfg)
    sx.isinstance_hook = lambda s, obj, cname: False
    box = []

    def args():
        box[:] = [Obj("expr_container:Expr", "self", _target_idx=sym("UNSET"))]
        return dict(self=box[0], target_idx=tgt)
    outs = sx.run(fn, args)
    if len(outs) != 1 or outs[0].kind != "return":
        raise AnalysisError(f"Expr.set_target_idx({tgt!r}) does not return on one path: {outs}")
    return box[0].attrs.get("_target_idx")


# ------------------------------------------------------------------ R18f: who may create an Index

INDEXED = set(CTORS) | {"KroneckerDelta", "F", "Fd", "AnnihilateFermion", "CreateFermion", "NO"}
_SCALAR_OPS = {"mul", "add", "pow", "cmp", "not", "and", "or", "isinstance", "ite", "fstr", "binop", "attr", "item", "slice"}
_STORE_METHODS = {"append", "add", "insert", "extend", "update", "setdefault", "appendleft"}


class _Names:
    """What a callee expression denotes, by the name resolution of the evaluator (imports, re-exports, aliases at module
    level, function-local imports and aliases) - not by its spelling."""

    def __init__(self, ctx):
        self.ctx = ctx
        sx = Symex(ctx.model, inline=lambda q: False, what="R18f names")
        sx.prefix, sx.decisions, sx.facts, sx.path, sx.effects = [], [], {}, [], []
        sx.steps = sx.depth = 0
        sx.frames, sx.module = [], None
        self.sx = sx
        self.cache = {}

    def _global(self, mod, name):
        key = (mod.name, name)
        if key not in self.cache:
            try:
                self.sx.steps = 0
                self.cache[key] = self.sx.global_name(mod, name)
            except (AnalysisError, Raised, RecursionError):
                self.cache[key] = None
        return self.cache[key]

    def denotes(self, node, depth=0):
        """ClassRef / ModRef / Func / Ext / None for a Name or Attribute node (with ``_module`` / ``_parent`` links)."""
        mod = node._module
        if depth > 6:
            return None
        if isinstance(node, ast.Name):
            # function-local imports and aliases of the enclosing functions (order-free, may-analysis)
            f_ = getattr(node, "_parent", None)
            while f_ is not None:
                if isinstance(f_, (ast.FunctionDef, ast.AsyncFunctionDef)):
                    for st in ast.walk(f_):
                        if isinstance(st, ast.ImportFrom):
                            for al in st.names:
                                if (al.asname or al.name) == node.id:
                                    try:
                                        return self.sx.resolve_import(mod, f"{'.' * st.level}{st.module or ''}:{al.name}", node.id)
                                    except (AnalysisError, Raised):
                                        return None
                        elif isinstance(st, ast.Assign) and isinstance(st.value, (ast.Name, ast.Attribute)) and st.value is not node \
                                and any(isinstance(t, ast.Name) and t.id == node.id for t in st.targets):
                            v = self.denotes(st.value, depth + 1)
                            if v is not None:
                                return v
                f_ = getattr(f_, "_parent", None)
            return self._global(mod, node.id)
        if isinstance(node, ast.Attribute):
            v = self.denotes(node.value, depth + 1)
            if v is not None and type(v).__name__ == "ModRef":
                m = self.ctx.model.modules.get(v.name)
                return self._global(m, node.attr) if m is not None else None
        return None

    def is_index_class(self, v):
        return type(v).__name__ == "ClassRef" and v.module.name == "indices" and v.qual == "Index"


def _is_created(t):
    return isinstance(t, T) and t.op == "call" and t.args[0] == "Index"


def _positions(v):
    """Where Index(...) terms sit inside an evaluated value: list of (kind, detail).  kind: 'index' (argument of an
    indexed object), 'scalar' (arithmetic, comparison, differentiation variable, attribute read), 'eliminated' (the old
    side of a substitution), 'introduced', 'store', 'call', 'plain' (the value itself or an element of containers)."""
    out = []

    def walk(x, anc):
        if _is_created(x):
            out.append(_classify(anc))
            return
        if isinstance(x, T):
            if x.op == "call":
                name, pos, kw = x.args
                for k, y in enumerate(pos):
                    walk(y, anc + [("call", name, k)])
                for k, y in kw:
                    walk(y, anc + [("call", name, k)])
                if isinstance(name, T):
                    walk(name, anc + [("scalar", "callee", 0)])
            elif x.op == "mcall":
                recv, name, pos, kw = x.args
                walk(recv, anc + [("recv", name, 0)])
                for k, y in enumerate(pos):
                    walk(y, anc + [("mcall", name, k, recv)])
                for k, y in kw:
                    walk(y, anc + [("mcall", name, k, recv)])
            elif x.op in ("setattr", "setitem"):
                for y in x.args:
                    walk(y, anc + [("store", x.op, 0)])
            else:
                for y in x.args:
                    walk(y, anc + [("op", x.op, 0)])
        elif isinstance(x, (tuple, list, set, frozenset)):
            for y in x:
                walk(y, anc + [("seq",)])
        elif isinstance(x, dict):
            for k, y in x.items():
                walk(k, anc + [("seq",)])
                walk(y, anc + [("seq",)])
    walk(v, [])
    return out


def _classify(anc):
    real = [a for a in anc if a[0] != "seq"]
    if not real:
        return ("plain", "the value itself" if not anc else "element of a container", None)
    a = real[-1]
    if a[0] == "call":
        name = a[1] if isinstance(a[1], str) else show(a[1])
        if name in INDEXED:
            return ("index", name, None)
        if name in ("diff", "Derivative", "isinstance", "len", "id", "hash", "str", "repr"):
            return ("scalar", name, None)
        if name == "dict":
            return ("plain", "element of a container", None)
        return ("call", name, a[2])
    if a[0] == "recv":
        return ("scalar", f"receiver of .{a[1]}", None)
    if a[0] == "mcall":
        if a[1] in ("subs", "xreplace", "replace"):
            return ("eliminated", a[1], None) if a[2] == 0 else ("introduced", a[1], None)
        if a[1] in ("diff", "has", "coeff", "count", "index", "get", "pop", "remove", "discard", "atoms"):
            return ("scalar", a[1], None)
        if a[1] in _STORE_METHODS:
            return ("store", f"{show(a[3])[:40]}.{a[1]}", None)
        return ("call", f".{a[1]}", a[2])
    if a[0] == "store":
        return ("store", a[1], None)
    if a[0] == "scalar" or (a[0] == "op" and a[1] in _SCALAR_OPS):
        return ("scalar", a[1], None)
    return ("call", a[1], None)


def _local_names(fn):
    names = set()
    for n in ast.walk(fn):
        if isinstance(n, ast.Name) and isinstance(n.ctx, (ast.Store, ast.Del)):
            names.add(n.id)
        elif isinstance(n, ast.arg):
            names.add(n.arg)
        elif isinstance(n, (ast.FunctionDef, ast.AsyncFunctionDef)) and n is not fn:
            names.add(n.name)
    return names


def _unit_of(node):
    """The innermost evaluable unit around ``node``: a simple statement, or the header expression / lambda body that
    contains it (as a synthesised ``return <expr>``)."""
    cur, inner = node, node
    while cur is not None:
        par = getattr(cur, "_parent", None)
        if isinstance(par, ast.Lambda) and cur is par.body:
            return ast.copy_location(ast.Return(value=cur), cur)
        if isinstance(cur, ast.stmt):
            if isinstance(cur, (ast.Assign, ast.AugAssign, ast.AnnAssign, ast.Expr, ast.Return, ast.Assert, ast.Delete, ast.Raise)):
                return cur
            # compound statement: ``inner`` is the header expression the node sits in
            return ast.copy_location(ast.Return(value=inner), inner) if isinstance(inner, ast.expr) else None
        inner = cur
        cur = par
    return None


def _outer_function(node):
    f_, out = getattr(node, "_parent", None), None
    while f_ is not None:
        if isinstance(f_, (ast.FunctionDef, ast.AsyncFunctionDef)):
            out = f_
        f_ = getattr(f_, "_parent", None)
    return out


def _callee(ctx, fn, name, k):
    """The package function a call term refers to and the parameter that receives argument ``k`` (None if unknown)."""
    last = name.lstrip(".").split(".")[-1]
    cands = [f_ for q, f_ in fn._module.functions.items() if q.split(".")[-1] == last]
    if len(cands) != 1:
        cands = [f_ for m in ctx.model.modules.values() for q, f_ in m.functions.items() if q.split(".")[-1] == last]
    if len(cands) != 1:
        return None, None
    callee = cands[0]
    params = [x.arg for x in callee.args.posonlyargs + callee.args.args]
    if params[:1] in (["self"], ["cls"]):
        params = params[1:]
    allp = params + [x.arg for x in callee.args.kwonlyargs]
    if isinstance(k, str):
        return (callee, k) if k in allp else (None, None)
    if isinstance(k, int) and k < len(params):
        return callee, params[k]
    return None, None


def _site_uses(ctx, fn, names, start, aliases, created, depth=0):
    """Every position the created object (and its aliases inside ``fn``) takes: [(kind, detail, node)].  ``start``: the
    nodes to begin with, ``aliases``: local name -> evaluated value that is / holds the created object."""
    sx = Symex(ctx.model, inline=lambda q: False, what=f"R18f {getattr(fn, '_qual', fn.name)}", max_paths=256)
    local = _local_names(fn)
    aliases = dict(aliases)
    done, found = set(), []
    work = list(start)

    def note(kd, det, k, node):
        if kd == "plain":
            return
        if kd == "call" and depth < 3:
            callee, prm = _callee(ctx, fn, det, k)
            if callee is not None:
                loads = [n for n in ast.walk(callee) if isinstance(n, ast.Name) and isinstance(n.ctx, ast.Load) and n.id == prm]
                inner = _site_uses(ctx, callee, names, loads, {prm: created}, created, depth + 1)
                # the callee handing the object back makes the call expression an alias we do not follow
                found.extend((("call", det + " (returns it)", n_) if kd_ == "return" else (kd_, det_, n_)) for kd_, det_, n_ in inner)
                return
        found.append((kd, det, node))
    while work:
        node = work.pop()
        unit = _unit_of(node)
        if unit is None:
            raise AnalysisError(f"R18f: use of an unregistered Index at line {getattr(node, 'lineno', '?')} of "
                                f"{getattr(fn, '_qual', fn.name)} is not inside an evaluable statement")
        key = (getattr(unit, "lineno", 0), getattr(unit, "col_offset", 0), type(unit).__name__, id(unit) if isinstance(unit, ast.Return) and unit.value is node else 0)
        if key in done:
            continue
        done.add(key)

        def env():
            e = {n: sym(n) for n in local}
            e.update(aliases)
            return e
        try:
            outs = sx.run_block(fn, [unit], env)
        except AnalysisError as err:
            raise AnalysisError(f"R18f: statement at line {getattr(unit, 'lineno', '?')} of {getattr(fn, '_qual', fn.name)} using an "
                                f"unregistered Index cannot be evaluated: {err}")
        new_alias = False
        for o in outs:
            vals = []
            if o.kind == "return":
                for kd, det, k in _positions(o.value):
                    # a synthesised return is only a header expression; a real return hands the object out
                    if kd == "plain" and isinstance(unit, ast.Return) and getattr(unit, "_parent", None) is not None:
                        found.append(("return", det, node))
                    else:
                        note(kd, det, k, node)
            for n, v in (o.env or {}).items():
                if n in local and not (isinstance(v, T) and v.op == "sym") and n not in aliases:
                    ps = _positions(v)
                    if ps and all(kd == "plain" for kd, _, _ in ps):
                        aliases[n] = v
                        new_alias = True
                    else:
                        vals.append(v)
            for v in vals + [e for e in o.effects if not _is_created(e)]:
                for kd, det, k in _positions(v):
                    note(kd, det, k, node)
        if new_alias:
            for n in ast.walk(fn):
                if isinstance(n, ast.Name) and isinstance(n.ctx, ast.Load) and n.id in aliases:
                    work.append(n)
    return found


def _placeholder_discipline(ctx, fn):
    """The whole function evaluated: an Index created here may only leave it as the temporary of a substitution list
    [(old, new), ...] - introduced as ``new`` and later eliminated as ``old``.  Returns None or the reason."""
    params = [x.arg for x in fn.args.posonlyargs + fn.args.args + fn.args.kwonlyargs]
    sx = Symex(ctx.model, inline=lambda q: False, what=f"R18f {fn.name}", max_paths=2048)
    try:
        outs = sx.run(fn, lambda: {p_: sym(p_.upper()) for p_ in params})
    except AnalysisError as err:
        return f"the function cannot be evaluated as a whole ({str(err)[:120]})"
    for o in outs:
        for e in o.effects:
            bad = [(kd, det) for kd, det, _ in _positions(e) if kd not in ("scalar", "eliminated", "plain")]
            if bad and not _is_created(e):
                return f"the created index is handed to {bad[0][1]} ({show(e)[:120]})"
        if o.kind != "return" or not _positions(o.value):
            continue
        v = o.value
        if not isinstance(v, (list, tuple)) or not all(isinstance(x, tuple) and len(x) == 2 for x in v):
            return f"it is returned inside {show(v)[:160]}"
        balance = 0
        for old, new_ in v:
            if _positions(new_):
                if not _is_created(new_):
                    return f"it is returned inside {show(new_)[:120]}"
                balance += 1
            if _positions(old):
                if not _is_created(old):
                    return f"it is returned inside {show(old)[:120]}"
                balance -= 1
                if balance < 0:
                    return "a substitution removes the temporary before it was introduced"
        if balance != 0:
            return f"the substitution list {show(v)[:200]} introduces the temporary index without removing it again"
    return None


def r18f(ctx):
    """Printing is injective on the indices of an expression only if one object exists per printed key (name, spin):
    every Index that can occupy an index position is created by the registry (class Indices)."""
    rule = "R18f"
    names = _Names(ctx)
    sites = []
    for mname, m in sorted(ctx.model.modules.items()):
        for node in ast.walk(m.tree):
            if isinstance(node, ast.Call) and isinstance(node.func, (ast.Name, ast.Attribute)) \
                    and names.is_index_class(names.denotes(node.func)):
                sites.append(node)
    registry = [c for c in sites if (getattr(c, "_cls", None) or "").split(".")[0] == "Indices" and c._module.name == "indices"]
    ctx.floor(rule, "creation sites of Index inside the registry (class Indices)", len(registry), 1)
    for c in registry:
        ctx.ok(rule, c, "Index created by the registry", key=f"registry {c._fn}")
    for c in sites:
        if c in registry:
            continue
        fn = _outer_function(c)
        where = f"{c._module.name}:{getattr(fn, '_qual', None) or '<module>'}"
        try:
            shown = ast.unparse(c)
        except Exception:
            shown = "Index(...)"
        if fn is None:
            ctx.bad(rule, c, f"`{shown}` at module level creates an Index behind the registry: it prints like the registered index of "
                    "that name, the printed text is ambiguous and importing it merges the two", fn=where, key="created at module level")
            continue
        al = {}
        if isinstance(c.func, ast.Name) and c.func.id in _local_names(fn):
            al[c.func.id] = names.denotes(c.func)        # a local alias of the class
        created = T("call", "Index", tuple(f"<{ast.unparse(x)}>" for x in c.args), tuple((k.arg or "**", f"<{ast.unparse(k.value)}>") for k in c.keywords))
        uses = _site_uses(ctx, fn, names, [c], al, created)
        idx = [u for u in uses if u[0] == "index"]
        open_ = [u for u in uses if u[0] in ("introduced", "store", "call", "return")]
        if idx:
            ctx.bad(rule, c, f"`{shown}` creates an Index behind the registry and puts it into an index position of "
                    f"{sorted({u[1] for u in idx})}: it prints exactly like every other index of that name and spin (the printer "
                    "shows name and spin only), so the printed expression is ambiguous and importing it merges distinct indices "
                    "(the value changes)", fn=where, key="unregistered index in index position")
            continue
        if open_:
            why = _placeholder_discipline(ctx, fn)
            ctx.check(rule, c, why is None, f"`{shown}` in {where}: temporary of a substitution list, introduced and eliminated again",
                      f"`{shown}` creates an Index behind the registry that leaves {where}: {why}; used as "
                      f"{sorted({u[0] + ' ' + str(u[1]) for u in open_})[:4]}", fn=where, key="unregistered index leaves the function")
            continue
        ctx.ok(rule, c, f"`{shown}` in {where}: only scalar uses ({sorted({u[1] for u in uses})[:6]}), never an index of an object",
               fn=where, key="unregistered index used as scalar")
    ctx.floor(rule, "constructor calls of Index resolved in the package", len(sites), 1)
    # the premise: the printed key of an index is exactly (name, spin) - objects that differ in anything else (space
    # assumptions, identity) print identically, objects that differ in name or spin never do; the importer obtains every
    # index from get_symbols, i.e. one object per key
    wr = Writer(ctx, *configs(ctx)[:1] * 2)
    fn = wr.method("Index")
    texts = {}
    for ix in (i, ia, ib, j, i1, IDX("i1", "a"), IDX("i11"), j12a, IDX("j1"), IDX("j12"), a, aa, ab_, p, pa):
        for space in ("occ", "virt", "general", None):
            o = wr.index(ix)
            if space:
                o.attrs["space"] = space
            outs = wr.sx.run(fn, lambda: positional(fn, o, Obj(None, "printer")))
            t = outs[0].value if len(outs) == 1 and outs[0].kind == "return" else None
            texts.setdefault(t, set()).add(ix[1:])
    bad = {t: sorted(v) for t, v in texts.items() if len(v) != 1 or not isinstance(t, str)}
    ctx.check(rule, fn, not bad and len(texts) >= 15, "the printed key of an index is exactly (name, spin)",
              f"Index._latex is not a function of exactly (name, spin): {bad}", key="printed key")
    rd = Reader(ctx, configs(ctx)[0], configs(ctx)[0], "default")
    read_check(ctx, rule, rd, tensor("AntiSymmetricTensor", "x", (i, a), (i, i)), "one object per printed key",
               "equal index text is one index object (the importer asks the registry)")


# ------------------------------------------------------------------ thorough: literal round trip

def round_trip(ctx, wr, rd, cfg):
    """import(print(O)) = O with the text produced by the evaluated printers, alone and embedded in products, fractions,
    brackets and sums (the separators of the importer)."""
    rule = "R18b"
    kinds = [("AntiSymmetricTensor", cfg["eri"]), ("AntiSymmetricTensor", cfg["fock"]), ("AntiSymmetricTensor", cfg["gs_density"] + "2"),
             ("AntiSymmetricTensor", "x"), ("SymmetricTensor", cfg["coulomb"]), ("SymmetricTensor", cfg["sym_orb_denom"]),
             ("Amplitude", cfg["gs_amplitude"] + "2"), ("Amplitude", cfg["gs_amplitude"] + "1cc"), ("Amplitude", cfg["left_adc_amplitude"]),
             ("Amplitude", cfg["right_adc_amplitude"])]
    objs = []
    for cls, name in kinds:
        for tag, up, lo in GROUPS:
            objs.append((f"{cls} {name} {tag}", (cls, name, up, lo, 0), tensor(cls, name, up, lo).val))
    for tag, up, lo in GROUPS:
        for name in (cfg["orb_energy"], "y"):
            objs.append((f"NonSymmetricTensor {name} {tag}", ("NonSymmetricTensor", name, up + lo), nonsym(name, up + lo).val))
    for d in ((i, j), (ia, ja), (i, ia), (pa, q), (i1, j12a)):
        objs.append((f"delta {d[0][1:]} {d[1][1:]}", ("KroneckerDelta",) + d, delta(*d).val))
    other = nonsym("z", (k,))
    n = 0
    for key, spec, val in objs:
        fn, text, err = wr(*spec)
        if text is None:
            ctx.bad(rule, fn, f"{key}: printer gives {err}", key=f"round trip print {key}")
            continue
        x = X(text, val)
        read_check(ctx, rule, rd, x, f"round trip {key}", f"import(print({key}))")
        # (a delta never carries an exponent: KroneckerDelta._eval_power)
        sq = x if spec[0] == "KroneckerDelta" else power(x, 2)
        read_check(ctx, "R18b'", rd, total((-1, frac(prod(x, other, coeff=3), prod(sq, coeff=2))),
                                            (1, prod(bracket(total((1, x), (-1, other)), 2), x))),
                   f"embedded {key}", f"printed {key} inside a fraction, a bracket and a sum")
        n += 1
    ctx.floor(rule, "round trips", n, 100)


def run_thorough(ctx):
    if not (ctx.want("R18b") or ctx.want("R18b'")):
        return
    defaults, custom = configs(ctx)
    for tag, cfg in (("default", defaults), ("custom", custom)):
        round_trip(ctx, Writer(ctx, cfg, defaults), Reader(ctx, cfg, defaults, tag), cfg)


# ------------------------------------------------------------------ driver

def run(ctx):
    defaults, custom = configs(ctx)
    cfgs = {"default": defaults, "custom": custom}
    readers = {}

    def reader(tag):
        if tag not in readers:
            readers[tag] = Reader(ctx, cfgs[tag], defaults, tag)
        return readers[tag]
    if ctx.want("R18e"):
        r18e(ctx, cfgs)
    if ctx.want("R18f"):
        r18f(ctx)
    if ctx.want("R18b") or ctx.want("R18b'"):
        r18b_writer(ctx, Writer(ctx, defaults, defaults))
        r18b_reader(ctx, reader("default"))
    if ctx.want("R18a"):
        r18a(ctx, {t: reader(t) for t in cfgs}, cfgs)
    if ctx.want("R18c"):
        r18c(ctx, {t: reader(t) for t in cfgs}, cfgs)
    if ctx.want("R18d"):
        for tag in cfgs:
            r18d(ctx, reader(tag), cfgs[tag])
