"""C20 unitary-tensor simplification, decided by abstract evaluation on a model of terms.

``simplify_unitary`` (with its nested ``simplify_term_unitary`` and the ``Term`` properties it reads: ``target``,
``idx``, ``_idx_counter``, ``contracted``) is *evaluated* by sa.symex on small concrete model expressions: a term is a
record whose objects carry a tensor name, a tuple of index records and an exponent; ``Expr(..)``, ``Pow``,
``KroneckerDelta``, ``.terms``/``.sympy``/``.assumptions`` of the container classes and ``func.evaluate_deltas`` are
modelled (products with merged exponents, assumptions carried along).  What comes out is compared with the behaviour
written down here independently of the source:

  * the reference rewriting of the property text (``normal_forms``): a pair of occurrences of the unitary tensor that
    shares an index in the same position, that index not being a target index and occurring exactly twice in the
    term, is replaced by the delta of the two other indices, until no such pair is left; a pair that shares both
    indices, neither occurring anywhere else, and everything else is untouched;
  * the *value* of the expression for an orthogonal matrix: every model term is evaluated numerically (exact
    rationals, index range {0, 1}, U = ((3/5, -4/5), (4/5, 3/5)), fixed non-symmetric values for the other tensors) for
    every assignment of the target indices, before and after.

No source text, local name, statement shape or call spelling takes part in a verdict.
"""
from __future__ import annotations

import itertools
from fractions import Fraction

from ..model import AnalysisError
from ..symex import Symex, Obj, Ent, Func
from ..terms import T, t_mul, t_add, t_pow, expand_products, rebuild, is_num, show, subterms, sym

EXPLANATION = (
    "simplify_unitary (nested simplify_term_unitary and the Term properties target/idx/_idx_counter/contracted evaluated "
    "through) is run by the abstract evaluator on concrete model expressions (objects = tensor name, index records, "
    "exponent; Expr/Pow/KroneckerDelta/.terms/.sympy/.assumptions/evaluate_deltas modelled as products with merged "
    "exponents that carry their assumptions). For every scenario the result must (1) be one of the normal forms of the "
    "reference rewriting written down from the property (pair of unitary occurrences sharing an index in the same "
    "position, index not a target, occurring exactly twice -> delta of the two other indices; a pair that shares BOTH "
    "indices with neither occurring anywhere else is left untouched (its value is the dimension of the space, not 1); with "
    "Einstein targets a pair whose delta is already an object of the term stays if one of the delta's indices occurs exactly "
    "twice (delta*delta = delta would turn it into a target index); "
    "repeated to the fixed point; all other objects, prefactors, exponents, denominators kept), (2) have the same numerical value as the input "
    "for an orthogonal 2x2 matrix and every assignment of the target indices (exact rationals), with the sum convention "
    "also the same target indices, (3) carry the "
    "assumptions of the input expression with no mixing of assumptions on the way. R20a: eligibility guards and delta "
    "indices (first/second position, mixed positions, shared index on a third object / third unitary tensor / provided "
    "target, only 2-index tensors). R20b: rebuilding (both occurrences removed, every other object multiplied back once "
    "wherever it stands, prefactors, recursion to the fixed point, every term of the expression once, fewer than two "
    "unitary tensors unchanged, assumptions kept, non-Expr input refused; a sum kept as one factor (a+b)^n - the library's "
    "Polynom object - is an atomic factor of the product, and when a pair leaves delta = 1 and nothing but number * (a+b) "
    "behind, the rebuilt product is a sum of terms: every addend is kept with the number distributed and each addend is "
    "simplified to the fixed point again - sum factor alone, with a number, three addends, addends with their own contracted "
    "indices or unitary pairs, no targets, next to another tensor, squared, next to a pair that leaves a delta, several "
    "terms, with delta evaluation; the value comparison multiplies sum factors out so that every addend is summed over its "
    "own contracted indices). R20c: bookkeeping (occurrences counted with "
    "exponent multiplicity and denominators, exact tensor name, provided targets instead of Einstein targets, "
    "Term._idx_counter/idx/target/contracted against a direct count, delta evaluation exactly once and only on request, "
    "on the whole result, with a target set that protects the true targets - spin-labelled ones and provided targets "
    "that occur twice included; func.evaluate_deltas itself is evaluated from its source, inside simplify_unitary and directly "
    "on model products against the contract written down here: killable index substituted unless protected, a delta whose two "
    "indices are contracted and sit on no other object is kept because its double sum is the dimension of the space); "
    "the same target indices hold for every delta of a product, however the earlier ones were evaluated: evaluate_deltas is "
    "evaluated on ~900 generated products of two and three deltas over four indices (disjoint pairs, chains, stars, triangles; "
    "remainder objects on none, some or all indices; every subset of the indices as explicit targets, the empty set and the sum "
    "convention; sums of products; an index with a spin label next to indices without), each result compared with the value "
    "of the input for every assignment of the targets (contracted indices summed) and with the form of the contract (killable "
    "index removed unless target, else preferred index removed if no target and the information is equal, a delta between two "
    "targets kept), so that every restart on the remaining deltas and every term of a sum is seen to carry the targets it was "
    "given; simplify_unitary with delta evaluation on terms that generate two and three deltas with provided targets. "
    "Thorough tier: the generated products of deltas for all pairs and triples of deltas over four indices (~9700); "
    "the same three comparisons on every generated term with 2-4 unitary factors over three indices, an optional "
    "remainder object or delta and optional provided targets (also the empty set), each also with delta evaluation requested "
    "(value only).")
ASSUMPTIONS = [
    "bounded: the scenarios listed in the module and the generated products of deltas (thorough: all terms of 2-4 unitary factors over 3 indices with an optional "
    "remainder object of <= 2 indices or a delta and <= 1 provided target or the empty provided set); one index space, uniform "
    "spin per simplify_unitary scenario",
    "the containers are modelled: Expr/Term/Obj are records (objects, exponent, idx, base_and_exponent, assumptions), products "
    "merge equal bases like sympy, KroneckerDelta(p, p) = 1 and delta**n = delta; sympy's isinstance(Add/Mul/Pow), .args, "
    ".func, .atoms(Index), .has, .subs(index, index), Mul/Add.make_args are modelled on these products; get_symbols(<str>) yields spin-less "
    "indices; func.evaluate_deltas and the KroneckerDelta properties it reads are evaluated from their source",
    "sum factors: number * (a+b) is distributed to a sum of terms as sympy does (Expr.terms / len(Expr) of the model), (a+b)^n "
    "next to other factors or with n != 1 stays one factor whose idx lists the indices of all addends with multiplicity (as "
    "Polynom.idx); scenarios with sum factors use provided target indices (the sum convention over a Polynom counts an index "
    "once per addend and is outside the decided domain); unitary tensors inside a sum factor that stays a factor are not looked at",
    "orthogonality is represented by one fixed rational rotation matrix (non-symmetric), dimension 2",
    "evaluate_deltas: products of at most three deltas over four indices of one space (quick: the pairs and seven triples "
    "listed in evd_family, thorough: all pairs and triples), one remainder out of a fixed list; a spin label acts only as "
    "information (indices with and without label range over the same two values in the value comparison, only '' and 'a' mixed); "
    "a bare delta is no product and is returned as it is (documented behaviour); the deltas of a model product are visited in "
    "the canonical order of the model (all index namings are generated, so every delta is the first one in some product)",
    "excluded from the decided domain: terms without provided targets whose Einstein targets change because delta_pp = 1 "
    "removes two occurrences (U_ki^2 X_i -> X_i is the documented upstream behaviour)",
]

FN = "simplify:simplify_unitary"
TERM = "expr_container:Term"
EXPR = "expr_container:Expr"
UNAME = "U"
DIM = 2
UMAT = ((Fraction(3, 5), Fraction(-4, 5)), (Fraction(4, 5), Fraction(3, 5)))


# ------------------------------------------------------------------------------------------------ model values

def tens(name, keys):
    return T("tens", name, tuple(keys))


def delta(a, b):
    return 1 if a == b else tens("delta", sorted((a, b)))


def is_tens(b):
    return isinstance(b, T) and b.op == "tens"


def is_delta(b):
    return is_tens(b) and b.args[0] == "delta"


def poly(*addends):
    """A sum kept as ONE factor of a product, (a + b + ...): what the library wraps in a Polynom object."""
    return T("poly", t_add(*addends))


def is_poly(b):
    return isinstance(b, T) and b.op == "poly"


def keys_of(b):
    """Indices of a factor, one entry per position; for a sum factor the indices of all its addends (with multiplicity)."""
    if is_tens(b):
        return b.args[1]
    if is_poly(b):
        return tuple(sorted(k for c, d in monomials(b.args[0]) for x, e in d.items() for k in keys_of(x) for _ in range(abs(e))))
    return ()


def split_pow(f):
    if isinstance(f, T) and f.op == "pow" and isinstance(f.args[1], int):
        return f.args[0], f.args[1]
    return f, 1


def monomials(v):
    """Sum of products with merged bases: list of (coefficient, {base: exponent}) - what a sympy Add of Muls holds."""
    acc = {}
    for c, fs in expand_products(v):
        d = {}
        for f in fs:
            b, e = split_pow(f)
            d[b] = d.get(b, 0) + e
        d = {b: (1 if is_delta(b) and e >= 1 else e) for b, e in d.items() if e != 0}
        if len(d) == 1 and all(is_poly(b) and e == 1 for b, e in d.items()):
            # number * (a + b) is no product: the number is distributed and the sum is a sum of terms (as sympy does)
            parts = [(Fraction(c) * c2, d2) for b in d for c2, d2 in monomials(b.args[0])]
        else:
            parts = [(Fraction(c), d)]
        for c2, d2 in parts:
            k = mono_key(1, d2)
            if k in acc:
                acc[k] = (acc[k][0] + c2, d2)
            else:
                acc[k] = (c2, d2)
    return [(c, d) for c, d in acc.values() if c != 0]


def mono_key(c, d):
    return (Fraction(c), tuple(sorted((repr(b), e) for b, e in d.items())))


def expr_key(monos):
    return tuple(sorted(mono_key(c, d) for c, d in monos))


def show_monos(monos):
    if not monos:
        return "0"
    out = []
    for c, d in monos:
        fs = [str(c)] if c != 1 or not d else []
        for b, e in sorted(d.items(), key=lambda x: repr(x[0])):
            s = f"{b.args[0]}_{''.join(b.args[1])}" if is_tens(b) else f"({show_monos(monomials(b.args[0]))})" if is_poly(b) else show(b)
            fs.append(s if e == 1 else f"{s}^{e}")
        out.append(" ".join(fs))
    return " + ".join(out)


def akey_of(real=False, sym_tensors=None, antisym_tensors=None, target_idx=None):
    def names(x):
        return tuple(sorted(x)) if isinstance(x, (list, tuple, set, frozenset)) else () if x is None else ("?",)
    tg = None
    if target_idx is not None:
        try:
            tg = tuple(sorted(_key(x) for x in target_idx))
        except TypeError:
            tg = ("?",)
    return (bool(real) if isinstance(real, bool) else "?", names(sym_tensors), names(antisym_tensors), tg)


def _key(x):
    if isinstance(x, Obj):
        return x.__dict__["name"]
    if isinstance(x, str):
        return x
    return "?" + show(x)


class Rec(Obj):
    """Record for a container of the library (Expr / Term / Obj); in arithmetic it stands for its content."""

    @property
    def term(self):
        return self.__dict__["attrs"]["_image"]


class World:
    """The model objects of one evaluation path."""

    def __init__(self):
        self.index = {}
        self.clash = []
        self.unknown = []

    def ix(self, key):
        if key not in self.index:
            name, _, spin = key.partition("_")
            o = Ent(None, key)
            o.attrs.update(name=name, spin=spin, space="occ", dummy_index=0, _classes=("Index", "Symbol", "Basic"))
            self.index[key] = o
        return self.index[key]

    def adict(self, akey):
        real, st, at, tg = akey
        return {"real": real, "sym_tensors": st, "antisym_tensors": at,
                "target_idx": None if tg is None else tuple(self.ix(k) for k in tg)}

    def obj_rec(self, base, exp, akey):
        r = Rec(None, "obj")
        if is_tens(base):
            name = None if is_delta(base) else base.args[0]
            idx = tuple(self.ix(k) for k in base.args[1])
            val = t_pow(base, exp)
        elif is_poly(base):
            name, idx, val = None, tuple(self.ix(k) for k in keys_of(base)), t_pow(base, exp)
        else:  # a number
            name, idx, val, exp = None, (), base, 1
        r.__dict__["name"] = f"<{show(val)}>"
        r.attrs.update(name=name, idx=idx, exponent=exp, base=base, base_and_exponent=(base, exp), sympy=val,
                       assumptions=self.adict(akey), _image=T("cont", val, akey), **self.flags(akey))
        return r

    def term_rec(self, coeff, facs, akey):
        """facs: ordered list of (base, exponent)."""
        objs = []
        if coeff != 1 or not facs:
            objs.append(self.obj_rec(_num(coeff), 1, akey))
        objs += [self.obj_rec(b, e, akey) for b, e in facs]
        val = t_mul(_num(coeff), *[t_pow(b, e) for b, e in facs])
        r = Rec(TERM, f"<term {show(val)}>")
        tg = akey[3]
        r.attrs.update(objects=tuple(objs), provided_target_idx=None if tg is None else tuple(self.ix(k) for k in tg),
                       assumptions=self.adict(akey), sympy=val, _image=T("cont", val, akey), **self.flags(akey))
        return r

    def expr_rec(self, terms, akey):
        val = t_add(*[t.attrs["sympy"] for t in terms]) if terms else 0
        r = Rec(EXPR, "<expr>")
        tg = akey[3]
        r.attrs.update(terms=tuple(terms), provided_target_idx=None if tg is None else tuple(self.ix(k) for k in tg),
                       assumptions=self.adict(akey), sympy=val, _image=T("cont", val, akey), **self.flags(akey))
        return r

    @staticmethod
    def flags(akey):
        return {"real": akey[0], "sym_tensors": akey[1], "antisym_tensors": akey[2]}

    # -- unwrap a value that may contain container images
    def unwrap(self, v):
        if isinstance(v, Rec):
            v = v.term
        seen = []

        def f(x):
            if x.op == "cont":
                if x.args[1] not in seen:
                    seen.append(x.args[1])
                return x.args[0]
            return x
        out = rebuild(v, f) if isinstance(v, T) else v
        if len(seen) > 1:
            self.clash.append(tuple(seen))
        return out, seen


def _num(c):
    c = Fraction(c)
    return int(c) if c.denominator == 1 else c


def has_cont(t):
    return any(x.op == "cont" for x in subterms(t))


# ------------------------------------------------------------------------------------------------ evaluate_deltas model

def einstein_per_object(d):
    cnt = {}
    for b in d:
        for k in set(keys_of(b)):
            cnt[k] = cnt.get(k, 0) + 1
    return {k for k, n in cnt.items() if n == 1}


def substitute(d, old, new):
    out = {}
    for b, e in d.items():
        if is_poly(b) and old in keys_of(b):
            b = poly(*[from_monos([(c2, substitute(d2, old, new))]) for c2, d2 in monomials(b.args[0])])
        if is_tens(b) and old in b.args[1]:
            ks = [new if k == old else k for k in b.args[1]]
            b = delta(*ks) if b.args[0] == "delta" else tens(b.args[0], ks)
            if b == 1:
                continue
        out[b] = out.get(b, 0) + e
    return {b: (1 if is_delta(b) and e >= 1 else e) for b, e in out.items() if e != 0}


def preferred_killable(b):
    """(preferred, killable, equal information) of a delta of one space: with equal spin labels the canonically first index is
    preferred and both carry the same information; an index with a spin label carries more than one without (preferred)."""
    p, k = b.args[1]
    sp, sk = key_spin(p), key_spin(k)
    if sp == sk:
        return p, k, True
    if sk and not sp:
        return k, p, False
    if sp and not sk:
        return p, k, False
    raise AnalysisError(f"reference: delta between the spin labels {sp!r} and {sk!r} is outside the model")


def key_spin(key):
    return key.partition("_")[2]


def model_evaluate_deltas(monos, protected):
    """Contract of func.evaluate_deltas on a sum of products (one space).  In every product, with the SAME set of target
    indices for every delta from the first to the last (provided targets, else the indices that sit on a single object of
    the product as it was handed over): the killable index is replaced by the preferred one unless it is a target index; else
    the preferred one by the killable one if it is no target index and both carry equal information; a delta between two
    target indices stays; a delta whose two indices are contracted and sit on no other object stays (its double sum is the
    dimension of the space).  A bare delta is no product and is returned as it is."""
    out = []
    for c, d in monos:
        tg = einstein_per_object(d) if protected is None else protected
        while True:
            if c == 1 and len(d) == 1 and all(is_delta(b) and e == 1 for b, e in d.items()):
                break
            for b in sorted((b for b in d if is_delta(b) and d[b] >= 1), key=repr):
                p, k, equal = preferred_killable(b)
                if k not in tg:
                    if p not in tg and not any(p in keys_of(o) or k in keys_of(o) for o in d if o != b):
                        # both indices contracted and on no other object: sum_pk delta_pk is the dimension, the delta stays
                        continue
                    d = substitute(d, k, p)
                    break
                if p not in tg and equal:
                    d = substitute(d, p, k)
                    break
            else:
                break
        out.append((c, d))
    return out


def split_names(s):
    out = []
    for ch in s:
        if ch.isdigit() and out:
            out[-1] += ch
        else:
            out.append(ch)
    return out


# ------------------------------------------------------------------------------------------------ the evaluator

class Run:
    """One Symex configured with the container model; ``self.w`` is the world of the path being evaluated."""

    def __init__(self, ctx, what):
        self.w = None
        self.in_evd = False
        self.sx = Symex(ctx.model, inline=lambda q: True, what=what, attr_hook=self.attr_hook, max_paths=64, oracle=self.oracle,
                        isinstance_hook=self.isinst, hooks={
            "Mul": self.h_mul, "Add": self.h_add, "Mul.make_args": self.h_make_args("mul"), "Add.make_args": self.h_make_args("add"), "atoms": self.h_atoms, "has": self.h_has, "subs": self.h_subs, "func": self.h_func,
            "Expr": self.h_expr, "KroneckerDelta": self.h_delta, "Pow": self.h_pow, "evaluate_deltas": self.h_evd,
            "sort_idx_canonical": self.h_sortkey, "get_symbols": self.h_get_symbols, "len": self.h_len})
        self.sx.strict_names = True   # an undefined name is a NameError of the library, not an external value
        self.sx.on_start = self._reset

    def _reset(self, sx):
        self.in_evd = False

    # sympy-level view of the model values --------------------------------------
    def isinst(self, sx, obj, cname):
        if not isinstance(obj, T):
            return None
        if has_cont(obj):
            return cname in ("Expr", "Container")
        if not _is_value(obj):
            return None
        return {"Add": obj.op == "add", "Mul": obj.op == "mul", "Pow": obj.op == "pow", "KroneckerDelta": is_delta(obj),
                "Basic": True}.get(cname, False)

    def h_atoms(self, sx, args, kw):
        recv = args[0]
        if isinstance(recv, Ent):
            return {recv}
        if is_num(recv):
            return set()
        if isinstance(recv, T) and _is_value(recv):
            return {self.w.ix(k) for x in subterms(recv) if x.op == "tens" for k in x.args[1]}
        return NotImplemented

    def h_has(self, sx, args, kw):
        recv, xs = args[0], args[1:]
        if not all(isinstance(x, Ent) for x in xs):
            return NotImplemented
        if isinstance(recv, Ent):
            return any(x is recv for x in xs)
        if is_num(recv):
            return False
        if isinstance(recv, T) and _is_value(recv):
            ks = {k for t in subterms(recv) if t.op == "tens" for k in t.args[1]}
            return any(x.__dict__["name"] in ks for x in xs)
        return NotImplemented

    def h_make_args(self, op):
        """sympy's Mul.make_args / Add.make_args: the arguments of a product (sum), anything else is its own single argument."""
        def hook(sx, args, kw):
            if len(args) != 1 or kw:
                return NotImplemented
            x = args[0]
            if isinstance(x, T) and not has_cont(x) and _is_value(x):
                return tuple(x.args) if x.op == op else (x,)
            if is_num(x) or isinstance(x, Ent):
                return (x,)
            return NotImplemented
        return hook

    def h_func(self, sx, args, kw):
        recv = args[0]
        if isinstance(recv, T) and not has_cont(recv) and _is_value(recv) and recv.op in ("mul", "add") and not kw:
            return from_monos(monomials((t_mul if recv.op == "mul" else t_add)(*args[1:])))
        return NotImplemented

    def h_subs(self, sx, args, kw):
        if len(args) == 3 and isinstance(args[1], Ent) and isinstance(args[2], Ent) and not kw:
            recv, old, new = args
            if is_num(recv):
                return recv
            if isinstance(recv, T) and _is_value(recv):
                return from_monos([(c, substitute(d, old.__dict__["name"], new.__dict__["name"])) for c, d in monomials(recv)])
        return NotImplemented

    # comparisons of two model values (sympy objects of the library) are structural, never open
    def oracle(self, sx, atom):
        if atom.op == "cmp" and atom.args[0] in ("==", "is"):
            a, b = atom.args[1], atom.args[2]
            if all(_is_value(x) for x in (a, b)):
                return expr_key(monomials(a)) == expr_key(monomials(b))
        if atom.op == "cmp" and atom.args[0] == "in" and isinstance(atom.args[2], (frozenset, tuple)):
            a, coll = atom.args[1], atom.args[2]
            if all(_is_value(x) for x in (a, *coll)):
                return any(expr_key(monomials(a)) == expr_key(monomials(b)) for b in coll)
        return None

    # hooks ------------------------------------------------------------------
    def h_mul(self, sx, args, kw):
        return t_mul(*[self.w.unwrap(a)[0] if isinstance(a, (T, Rec)) else a for a in args])

    def h_add(self, sx, args, kw):
        return t_add(*[self.w.unwrap(a)[0] if isinstance(a, (T, Rec)) else a for a in args])

    def h_expr(self, sx, args, kw):
        kw = dict(kw)
        e = args[0] if args else kw.pop("e", 0)
        v, _ = self.w.unwrap(e)
        if "**" in kw or len(args) > 1:
            ak = ("?", (), (), None)
        else:
            ak = akey_of(**{k: kw[k] for k in kw if k in ("real", "sym_tensors", "antisym_tensors", "target_idx")})
            if set(kw) - {"real", "sym_tensors", "antisym_tensors", "target_idx"}:
                ak = ("?",) + ak[1:]
        return T("cont", v, ak)

    def h_delta(self, sx, args, kw):
        if len(args) == 2 and all(isinstance(a, Obj) and a.__dict__["name"] in self.w.index for a in args):
            return delta(args[0].__dict__["name"], args[1].__dict__["name"])
        self.w.unknown.append("KroneckerDelta(" + ", ".join(show(sx_freeze(a)) for a in args) + ")")
        return T("call", "KroneckerDelta", tuple(sx_freeze(a) for a in args), ())

    def h_pow(self, sx, args, kw):
        b, n = args
        b, _ = self.w.unwrap(b) if isinstance(b, (T, Rec)) else (b, None)
        if isinstance(n, int) and not isinstance(n, bool):
            if n == 0:
                return 1
            return t_pow(b, n)
        return T("pow", b, n)

    def h_len(self, sx, args, kw):
        """len() of an Expr container: the number of its terms (0 has length 1); of a Term: the number of its objects."""
        if len(args) == 1 and not kw:
            x = args[0]
            if isinstance(x, T) and has_cont(x):
                v, _ = self.w.unwrap(x)
                return max(1, len(monomials(v)))
            if isinstance(x, Rec) and x.__dict__.get("cls") == EXPR:
                return max(1, len(x.attrs["terms"]))
            if isinstance(x, Rec) and x.__dict__.get("cls") == TERM:
                return len(x.attrs["objects"])
        return NotImplemented

    def h_sortkey(self, sx, args, kw):
        o = args[0]
        if isinstance(o, Obj) and "name" in o.attrs:
            nm = o.attrs["name"]
            return (o.attrs["space"][0], o.attrs["spin"], int(nm[1:]) if nm[1:] else 0, nm[0])
        return ("", 0, show(sx_freeze(o)), 0)

    def h_get_symbols(self, sx, args, kw):
        ind = args[0] if args else kw.get("indices")
        if isinstance(ind, str) and not kw.get("spins") and len(args) < 2:
            return [self.w.ix(n) for n in split_names(ind)]
        if isinstance(ind, (list, tuple)) and all(isinstance(x, Obj) for x in ind):
            return list(ind)
        return NotImplemented

    def h_evd(self, sx, args, kw):
        """func.evaluate_deltas is evaluated from its source; the outermost call is logged."""
        if self.in_evd:
            return NotImplemented
        e = args[0] if args else kw.get("expr", None)
        tg = args[1] if len(args) > 1 else kw.get("target_idx", None)
        plain = (isinstance(e, T) and not has_cont(e)) or not isinstance(e, (T, Obj))
        if tg is None:
            shown = None
        elif isinstance(tg, str):
            shown = tg
        elif isinstance(tg, (list, tuple, set, frozenset)) and all(isinstance(x, Obj) for x in tg):
            shown = tuple(sorted(x.__dict__["name"] for x in tg))
        else:
            shown = "?" + show(sx_freeze(tg))
        sx.effects.append(T("evd", plain, repr(shown)))
        fn = sx.model.fn("func:evaluate_deltas")
        self.in_evd = True
        try:
            return sx._invoke(Func(fn, [], fn._module, fn._qual), list(args), dict(kw), fn)
        finally:
            self.in_evd = False

    def attr_hook(self, sx, obj, attr, node):
        if isinstance(obj, T) and attr in ("terms", "sympy", "assumptions", "provided_target_idx") and has_cont(obj):
            v, seen = self.w.unwrap(obj)
            ak = seen[0]
            if attr == "sympy":
                return from_monos(monomials(v))
            if attr == "assumptions":
                return self.w.adict(ak)
            if attr == "provided_target_idx":
                return self.w.adict(ak)["target_idx"]
            ms = monomials(v) or [(Fraction(0), {})]
            return tuple(self.w.term_rec(c, sorted(d.items(), key=lambda y: repr(y[0])), ak) for c, d in ms)
        if isinstance(obj, T) and obj.op == "tens" and attr in ("idx", "args", "indices"):
            return tuple(self.w.ix(k) for k in obj.args[1])
        if isinstance(obj, T) and not has_cont(obj) and _is_value(obj):
            if attr == "args" and obj.op in ("mul", "add", "pow"):
                return tuple(obj.args)
            if attr == "func" and obj.op in ("mul", "add"):
                f = t_mul if obj.op == "mul" else t_add
                return lambda sx_, a, k: from_monos(monomials(f(*a)))
            if is_delta(obj):
                # properties of the library's KroneckerDelta class are evaluated from their source
                m = sx.find_method("sympy_objects:KroneckerDelta", attr)
                if m is not None and any("property" in ast_name(d) for d in m[0].decorator_list):
                    fn = m[0]
                    return sx._invoke(Func(fn, [], fn._module, fn._qual, bound=obj), [], {}, node)
        return NotImplemented


def ast_name(d):
    import ast
    return ast.unparse(d)


def from_monos(monos):
    """Canonical sum of products (what sympy holds after automatic merging of equal bases)."""
    if not monos:
        return 0
    return t_add(*[t_mul(_num(c), *[t_pow(b, x) for b, x in sorted(d.items(), key=lambda y: repr(y[0]))]) for c, d in monos])


def _is_value(x):
    """A model value: number or arithmetic over tensors (no container image, no foreign term)."""
    if is_num(x):
        return True
    if not isinstance(x, T):
        return False
    if x.op == "tens":
        return True
    if x.op == "poly":
        return _is_value(x.args[0])
    if x.op in ("mul", "add"):
        return all(_is_value(y) for y in x.args)
    if x.op == "pow":
        return _is_value(x.args[0]) and isinstance(x.args[1], int)
    return False


def sx_freeze(v):
    from ..symex import _freeze
    return _freeze(v)


# ------------------------------------------------------------------------------------------------ scenarios

def index_key(ch, spin="", spins=None):
    """Key of the index with the letter ch: its name, '_' and its spin label (spins: letter -> spin overrides spin)."""
    sp = spin if spins is None or ch not in spins else spins[ch]
    return ch + ("_" + sp if sp else "")


def parse_term(s, spin="", spins=None):
    """'-1/2 X:ia U:ki^2 W:m^-1' -> (coefficient, [(base, exponent)])."""
    coeff, facs = Fraction(1), []
    for tok in s.split():
        if ":" not in tok:
            coeff *= Fraction(tok)
            continue
        if tok.startswith("("):
            # '(X:i+2*Y:i)^2': a sum kept as one factor
            inner, _, ex = tok[1:].partition(")")
            adds = [parse_term(a.replace("*", " "), spin, spins) for a in inner.split("+")]
            facs.append((poly(*[t_mul(_num(c), *[t_pow(b, e) for b, e in fs]) for c, fs in adds]), int(ex[1:]) if ex else 1))
            continue
        name, rest = tok.split(":")
        idx, _, ex = rest.partition("^")
        keys = [index_key(ch, spin, spins) for ch in idx]
        facs.append((delta(*keys) if name == "delta" else tens(name, keys), int(ex) if ex else 1))
    return coeff, facs


class Scenario:
    def __init__(self, sid, rule, what, terms, target=None, spin="", t_name=UNAME, ed=False, changed=None, raises=None,
                 real=False, sym_tensors=(), antisym_tensors=(), as_term=False, spins=None):
        self.sid, self.rule, self.what = sid, rule, what
        self.spin, self.t_name, self.ed, self.changed, self.raises = spin, t_name, ed, changed, raises
        self.terms = [parse_term(t, spin, spins) for t in ([terms] if isinstance(terms, str) else terms)]
        self.text = " + ".join([terms] if isinstance(terms, str) else terms)
        tg = None if target is None else tuple(sorted(index_key(ch, spin, spins) for ch in target))
        self.akey = (real, tuple(sorted(sym_tensors)), tuple(sorted(antisym_tensors)), tg)
        self.as_term = as_term

    def monos(self):
        return monomials(t_add(*[t_mul(_num(c), *[t_pow(b, e) for b, e in facs]) for c, facs in self.terms]))

    def targets(self):
        """True target indices of every term (provided, else Einstein with full multiplicity); must agree over the terms."""
        if self.akey[3] is not None:
            return set(self.akey[3])
        ts = [einstein(dict_of(facs)) for c, facs in self.terms]
        if any(t != ts[0] for t in ts):
            raise AnalysisError(f"C20 scenario {self.sid}: terms with different Einstein targets")
        return ts[0]

    def build(self, w):
        terms = [w.term_rec(c, facs, self.akey) for c, facs in self.terms]
        r = w.expr_rec(terms, self.akey)
        if self.as_term:
            # a container that is no Expr but offers everything the function reads from one
            r.__dict__["cls"] = TERM
            r.attrs.update(objects=terms[0].attrs["objects"])
        return r


def dict_of(facs):
    d = {}
    for b, e in facs:
        d[b] = d.get(b, 0) + e
    return d


def counts(d):
    """Occurrences of every index in a product: |exponent| times per position it stands in."""
    cnt = {}
    for b, e in d.items():
        for k in keys_of(b):
            cnt[k] = cnt.get(k, 0) + abs(e)
    return cnt


def einstein(d):
    return {k for k, n in counts(d).items() if n == 1}


# ------------------------------------------------------------------------------------------------ reference behaviour

def rewrites(d, targets, uname, provided):
    """All single replacements the property allows on the product d."""
    cnt = counts(d)
    occ = []
    for b, e in sorted(d.items(), key=lambda x: repr(x[0])):
        if is_tens(b) and b.args[0] == uname and isinstance(e, int) and e > 0:
            occ += [b] * e
    out = []
    for x, y in itertools.combinations(range(len(occ)), 2):
        a, b = occ[x], occ[y]
        if len(a.args[1]) != 2 or len(b.args[1]) != 2:
            raise AnalysisError("reference: unitary tensor without two indices")
        for pos in (0, 1):
            p = a.args[1][pos]
            if b.args[1][pos] != p or p in targets or cnt[p] != 2:
                continue
            q, r = a.args[1][1 - pos], b.args[1][1 - pos]
            if q == r and cnt[q] == 2:
                # the pair shares BOTH indices and neither occurs anywhere else: delta_qq = 1 would drop the second
                # index (and, if it is contracted, its sum: the value is the dimension of the space) - left untouched
                continue
            dl = delta(q, r)
            if not provided and dl != 1 and d.get(dl, 0) >= 1 and (cnt[q] == 2 or cnt[r] == 2):
                # Einstein targets: the delta is already an object of the term, delta * delta = delta would take away one
                # occurrence of q and r and turn an index that occurs twice into a target index - left untouched
                continue
            n = dict(d)
            for t in (a, b):
                n[t] -= 1
            if dl != 1:
                n[dl] = n.get(dl, 0) + 1
            n = {k: (1 if is_delta(k) and v >= 1 else v) for k, v in n.items() if v != 0}
            out.append(n)
    return out


class _OutOfDomain(Exception):
    pass


def normal_forms(d, targets, uname, provided):
    """Set of fixed points of the reference rewriting (keys) reachable from d."""
    seen, nfs, stack = set(), {}, [d]
    while stack:
        x = stack.pop()
        k = mono_key(1, x)
        if k in seen:
            continue
        seen.add(k)
        if not provided and einstein(x) != targets:
            raise _OutOfDomain("Einstein targets change under the rewriting")
        nxt = rewrites(x, targets, uname, provided)
        if not nxt:
            nfs[k] = x
        stack.extend(nxt)
    return nfs


def closed_forms(c, x, targets, uname, provided, depth=0):
    """The normal form x (times c) as sums of terms.  A product that is nothing but number * (a + b) is a sum of terms (the
    number is distributed); each of these terms is subject to the rewriting again, to the fixed point."""
    ms = monomials(from_monos([(c, x)]))
    if len(ms) == 1 and mono_key(1, ms[0][1]) == mono_key(1, x):
        return [ms]
    if depth > 4:
        raise AnalysisError("reference: sum factors nested too deeply")
    per = []
    for c2, d2 in ms:
        alts = []
        for y in normal_forms(d2, targets, uname, provided).values():
            alts.extend(closed_forms(c2, y, targets, uname, provided, depth + 1))
        per.append(alts)
    return [[m for part in choice for m in part] for choice in itertools.product(*per)]


def tvalue(name, vals, uname):
    if name == "delta":
        return Fraction(1 if vals[0] == vals[1] else 0)
    if name == uname:
        return UMAT[vals[0]][vals[1]]
    h = sum((3 * k + 1) * (v + 1) for k, v in enumerate(vals)) * (len(name) + ord(name[0])) + ord(name[-1])
    return Fraction(1 + h % 7, 2 + ord(name[-1]) % 3)


def value(monos, targets, uname):
    """{assignment of the targets: value}; all other indices of a product are summed over {0..DIM-1}."""
    tg = sorted(targets)
    out = {}
    monos = distributed(monos)
    for asg in itertools.product(range(DIM), repeat=len(tg)):
        env0 = dict(zip(tg, asg))
        tot = Fraction(0)
        for c, d in monos:
            free = sorted({k for b in d for k in keys_of(b)} - set(tg))
            for b in d:
                if not (is_tens(b) or is_poly(b)):
                    raise _Unknown(show(b))
            s = Fraction(0)
            for fa in itertools.product(range(DIM), repeat=len(free)):
                env = dict(env0)
                env.update(zip(free, fa))
                p = Fraction(1)
                for b, e in d.items():
                    p *= factor_value(b, env, uname) ** e
                s += p
            tot += c * s
        out[asg] = tot
    return out


def distributed(monos):
    """Every sum factor with a positive exponent multiplied out, so that each product is summed over its own contracted
    indices only (sum_k (X_i + Y_ik Z_k) = X_i + sum_k Y_ik Z_k)."""
    out = []
    for c, d in monos:
        if not any(is_poly(b) and isinstance(e, int) and e > 0 for b, e in d.items()):
            out.append((c, d))
            continue
        acc = [(Fraction(c), {})]
        for b, e in d.items():
            if is_poly(b) and isinstance(e, int) and e > 0:
                parts = distributed(monomials(b.args[0]))
                for _ in range(e):
                    acc = [(c1 * c2, _merge(d1, d2)) for c1, d1 in acc for c2, d2 in parts]
            else:
                acc = [(c1, _merge(d1, {b: e})) for c1, d1 in acc]
        out.extend(acc)
    return out


def _merge(d1, d2):
    d = dict(d1)
    for b, e in d2.items():
        d[b] = d.get(b, 0) + e
    return {b: (1 if is_delta(b) and e >= 1 else e) for b, e in d.items() if e != 0}


def factor_value(b, env, uname):
    """Value of one factor for an assignment of ALL its indices (a sum factor: the sum of the values of its addends)."""
    if is_tens(b):
        return tvalue(b.args[0], [env[k] for k in b.args[1]], uname)
    tot = Fraction(0)
    for c, d in monomials(b.args[0]):
        p = Fraction(c)
        for x, e in d.items():
            if not (is_tens(x) or is_poly(x)):
                raise _Unknown(show(x))
            p *= factor_value(x, env, uname) ** e
        tot += p
    return tot


class _Unknown(Exception):
    pass


def expected_sets(scn):
    """Per input term the dict of allowed results {key: product}; hand-written 'changed' flag cross-checked."""
    tg = scn.targets()
    per_term = []
    for c, facs in scn.terms:
        d = dict_of(facs)
        nfs = normal_forms(d, tg, scn.t_name, scn.akey[3] is not None)
        per_term.append((c, d, nfs))
    return tg, per_term


# ------------------------------------------------------------------------------------------------ checks

def evaluate(ctx, run, scn, fnnode, ed=None):
    def make():
        run.w = World()
        return dict(expr=scn.build(run.w), t_name=scn.t_name, evaluate_deltas=scn.ed if ed is None else ed)
    outs = run.sx.run(fnnode, make)
    return outs


def result_monos(run, o):
    v, seen = run.w.unwrap(o.value)
    return monomials(v), seen


def check_scenario(ctx, run, scn, fnnode):
    rule, sid = scn.rule, scn.sid
    what = f"{scn.what}: {scn.text}" + (f" [targets {','.join(scn.akey[3])}]" if scn.akey[3] is not None else "") + \
        (f" [t_name={scn.t_name}]" if scn.t_name != UNAME else "") + (" [evaluate_deltas]" if scn.ed else "")
    outs = evaluate(ctx, run, scn, fnnode)
    if scn.raises:
        ok = len(outs) >= 1 and all(o.kind == "raise" and o.exc == scn.raises for o in outs)
        ctx.check(rule, fnnode, ok, f"{what}: refused with {scn.raises}",
                  f"{what}: expected {scn.raises}, got {[o.exc if o.kind == 'raise' else 'a result' for o in outs]}", key=f"{sid} refused")
        return
    if len(outs) != 1 or outs[0].kind != "return":
        ctx.bad(rule, fnnode, f"{what}: no single result: {[repr(o)[:160] for o in outs]}", key=f"{sid} result")
        return
    o = outs[0]
    w = run.w
    if not isinstance(o.value, (T, Rec)) or (isinstance(o.value, T) and not has_cont(o.value)):
        ctx.bad(rule, fnnode, f"{what}: the result is not an Expr container: {show(sx_freeze(o.value))[:200]}", key=f"{sid} result")
        return
    got, seen = result_monos(run, o)
    tg, per_term = expected_sets(scn)
    # hand-written expectation of the scenario against the reference (self check of this module)
    ref_changed = any(set(nfs) != {mono_key(1, d)} for c, d, nfs in per_term)
    if scn.changed is not None and scn.changed != ref_changed:
        raise AnalysisError(f"C20 scenario {sid}: reference rewriting {'changes' if ref_changed else 'keeps'} the term, "
                            f"the scenario says otherwise")
    # (1) reference normal form
    allowed = []
    provided = scn.akey[3] is not None
    for choice in itertools.product(*[[ms for x in nfs.values() for ms in closed_forms(c, x, tg, scn.t_name, provided)]
                                      for c, d, nfs in per_term]):
        allowed.append(monomials(from_monos([m for ms in choice for m in ms])))
    evd = [e for e in o.effects if isinstance(e, T) and e.op == "evd"]
    if not scn.ed:
        ok = any(expr_key(got) == expr_key(a) for a in allowed)
        ctx.check(rule, fnnode, ok, f"{what} -> {show_monos(got)}",
                  f"{what}: result {show_monos(got)}, expected {' or '.join(show_monos(a) for a in allowed[:3])}"
                  + (f" (unmodelled: {w.unknown[0]})" if w.unknown else ""), key=f"{sid} form")
    # (2) value
    try:
        v_in = value(scn.monos(), tg, scn.t_name)
        for a in allowed:
            if value(a, tg, scn.t_name) != v_in:
                raise AnalysisError(f"C20 scenario {sid}: the reference rewriting does not preserve the value")
        v_out = value(got, tg, scn.t_name)
        diff = [k for k in v_in if v_in[k] != v_out[k]]
        ctx.check(rule, fnnode, not diff, f"{what}: value unchanged for all {len(v_in)} target assignments",
                  f"{what}: result {show_monos(got)} has another value for an orthogonal U, e.g. targets "
                  f"{dict(zip(sorted(tg), diff[0])) if diff else ''}: {v_in[diff[0]] if diff else ''} -> {v_out[diff[0]] if diff else ''}",
                  key=f"{sid} value")
    except _Unknown as e:
        ctx.bad(rule, fnnode, f"{what}: the result contains a factor that is no tensor of the term: {e}", key=f"{sid} value")
    # (2b) with the sum convention the result must have the target indices of the input
    if scn.akey[3] is None:
        wrong = [(c, d) for c, d in got if all(is_tens(b) for b in d) and einstein(d) != tg]
        ctx.check(rule, fnnode, not wrong, f"{what}: target indices {sorted(tg)} by sum convention kept",
                  f"{what}: the result {show_monos(wrong[:1])} has the target indices {sorted(einstein(wrong[0][1])) if wrong else ''} by sum "
                  f"convention, the input has {sorted(tg)}", key=f"{sid} targets")
    # (3) assumptions
    ok = seen == [scn.akey] and not w.clash
    ctx.check(rule, fnnode, ok, f"{what}: assumptions of the expression kept",
              f"{what}: assumptions {seen} in the result / mixed on the way {w.clash[:1]}, the expression has {scn.akey}",
              key=f"{sid} assumptions")
    # (4) delta evaluation
    if scn.ed:
        ok = len(evd) == 1 and evd[0].args[0] is True
        ctx.check(rule, fnnode, ok, f"{what}: deltas evaluated once on the content of the whole result",
                  f"{what}: evaluate_deltas called {len(evd)} time(s)" + ("" if not evd or evd[0].args[0] else " on a container"),
                  key=f"{sid} evaluated")
    else:
        ctx.check(rule, fnnode, not evd, f"{what}: no delta evaluation without request",
                  f"{what}: evaluate_deltas is called although not requested", key=f"{sid} not evaluated")


SCENARIOS = [
    # ---- R20a: which pairs, which delta
    Scenario("first", "R20a", "common first index", "U:ki U:kj", changed=True),
    Scenario("second", "R20a", "common second index", "U:ik U:jk", changed=True),
    Scenario("first-rem", "R20a", "common first index next to other objects", "U:ki U:kj X:im Y:jn", changed=True),
    Scenario("second-rem", "R20a", "common second index next to other objects", "X:im U:ik Y:jn U:jk", changed=True),
    Scenario("third-obj-1", "R20a", "common first index also on another object", "U:ki U:kj X:k", changed=False),
    Scenario("third-obj-2", "R20a", "common second index also on another object", "U:ik U:jk X:k", changed=False),
    Scenario("third-obj-1b", "R20a", "common first index on another object, other index twice", "U:ki U:kj X:ki", changed=False),
    Scenario("third-obj-2b", "R20a", "common second index on another object, other index twice", "U:ik U:jk X:ki", changed=False),
    Scenario("third-u-1", "R20a", "common first index on a third unitary tensor", "U:ki U:kj U:kl", changed=False),
    Scenario("third-u-2", "R20a", "common second index on a third unitary tensor", "U:jk U:ik U:lk X:jm", changed=False),
    Scenario("target-1", "R20a", "common first index is a target index", "U:ki U:kj X:ij", target="k", changed=False),
    Scenario("target-2", "R20a", "common second index is a target index", "U:ik U:jk X:ij", target="k", changed=False),
    Scenario("diag", "R20a", "diagonal of a transformed matrix", "U:ji U:ki X:jk", target="i", changed=False),
    Scenario("mixed", "R20a", "common index in different positions", "U:ki U:jk", changed=False),
    Scenario("mixed-rem", "R20a", "common index in different positions", "U:ik U:kj X:ij", changed=False),
    Scenario("later-pair", "R20a", "the first pair of unitary tensors shares nothing", "U:mi U:kj U:kl", changed=True),
    Scenario("later-pair-2", "R20a", "the first pairs are blocked, a later one is not", "U:mi U:mj U:mk U:ln U:la", changed=True),
    Scenario("einstein-repeat", "R20a", "four unitary tensors that generate the same delta twice", "U:ij U:ik U:lj U:lk", changed=True),
    Scenario("einstein-repeat-6", "R20a", "six unitary tensors that generate the same delta three times", "U:ij U:ik U:lj U:lk U:mj U:mk", changed=True),
    Scenario("delta-present", "R20a", "the delta of the pair is already an object, its indices occur twice", "delta:jk U:ij U:ik", changed=False),
    Scenario("delta-present-second", "R20a", "the delta of the pair is already an object (second position)", "3 U:ji U:ki delta:jk", changed=False),
    Scenario("delta-present-3", "R20a", "the delta of the pair is already an object, its indices occur three times", "delta:jk U:ij U:ik X:jk", changed=True),
    Scenario("delta-present-half", "R20a", "the delta is already an object, one of its indices occurs twice", "delta:jk U:ij U:ik X:j", changed=False),
    Scenario("delta-present-provided", "R20a", "the delta of the pair is already an object, targets provided", "delta:jk U:ij U:ik", target="", changed=True),
    Scenario("repeat-provided", "R20a", "the same delta twice, targets provided", "U:ij U:ik U:lj U:lk", target="", changed=True),
    Scenario("both", "R20a", "one pair per position", "U:ki U:kj U:ml U:nl", changed=True),
    Scenario("not-2d", "R20a", "three-index tensor of that name", "U:kij U:kl", raises="NotImplementedError"),
    Scenario("not-2d-single", "R20a", "one-index tensor of that name", "U:k U:ki U:kj", raises="NotImplementedError"),
    # ---- R20b: how the term is rebuilt
    Scenario("same-obj", "R20b", "same object twice, other index also on the remainder", "U:ki^2 X:i", target="i", changed=True),
    Scenario("same-obj-3", "R20b", "same object twice next to a partner of the other index", "U:ij^2 U:ik", target="k", changed=True),
    Scenario("square-only", "R20a", "squared unitary tensor whose indices occur nowhere else", "U:ki^2", changed=False),
    Scenario("square-only-rem", "R20a", "squared unitary tensor whose indices occur nowhere else, remainder", "2 U:ki^2 X:mn", changed=False),
    Scenario("square-only-target", "R20a", "squared unitary tensor, second index a provided target", "U:ki^2", target="i", changed=False),
    Scenario("square-second", "R20a", "squared unitary tensor, first index a target on the remainder as well", "U:ki^2 X:k", target="k", changed=True),
    Scenario("same-obj-rem", "R20b", "same object twice among other objects", "X:im U:ki^2 Y:in", target="i", changed=True),
    Scenario("rest", "R20b", "objects before, between and behind the pair, prefactor", "-1/2 X:im U:ki Y:jn U:kj Z:mn^2 W:l^-1", changed=True),
    Scenario("rest-second", "R20b", "objects before, between and behind the pair", "3 X:im U:ik Y:jn U:jk Z:mn", changed=True),
    Scenario("one-u", "R20b", "a single unitary tensor", "U:ki X:ki", changed=False),
    Scenario("no-u", "R20b", "no unitary tensor", "2 X:ij Y:jk", changed=False),
    Scenario("chain", "R20b", "chain of pairs", "U:ki U:kj U:lj U:lm", changed=True),
    Scenario("chain3", "R20b", "three successive replacements", "U:ki U:kj U:lj U:lm U:nm U:na X:ia", changed=True),
    Scenario("terms", "R20b", "several terms", ["2 U:ki U:kj X:ij", "-1 U:ik U:jk Y:ij", "3 Z:ij W:ij", "U:ki U:kj V:kij"], changed=True),
    Scenario("terms-first-only", "R20b", "only the last term simplifies", ["X:ij Y:ij", "5 U:ik U:jk Y:ij"], changed=True),
    Scenario("assumptions", "R20b", "non-default assumptions", "U:ki U:kj X:im Y:jn", target="ijmn", real=True,
             sym_tensors=("X",), antisym_tensors=("Y",), changed=True),
    # a sum kept as one factor, (a + b)^1: when the pair leaves delta = 1 and nothing but the sum factor behind, the rebuilt
    # product is a sum of terms - every addend is kept
    Scenario("sum-factor", "R20b", "squared unitary tensor next to a sum factor only", "U:ij^2 (X:i+Y:i)", target="i", changed=True),
    Scenario("sum-factor-number", "R20b", "squared unitary tensor next to a number and a sum factor", "2 U:ij^2 (X:i+Y:i)", target="i", changed=True),
    Scenario("sum-factor-three", "R20b", "squared unitary tensor next to a sum factor of three addends", "-1/2 U:ij^2 (X:i+Y:i+3*Z:i)", target="i", changed=True),
    Scenario("sum-factor-first", "R20b", "squared unitary tensor (first index contracted) next to a sum factor", "U:ji^2 (X:i+Y:ik*Z:k)", target="i", changed=True),
    Scenario("sum-factor-scalar", "R20b", "squared unitary tensor next to a sum factor, no target indices", "U:ij^2 (X:i+Y:i)", target="", changed=True),
    Scenario("sum-factor-tensor", "R20b", "squared unitary tensor next to a sum factor and another tensor", "U:ij^2 (X:i+Y:i) Z:k", target="ik", changed=True),
    Scenario("sum-factor-square", "R20b", "squared unitary tensor next to a squared sum factor", "3 U:ij^2 (X:i+Y:i)^2", target="i", changed=True),
    Scenario("sum-factor-pair", "R20b", "pair with a delta next to a sum factor", "U:ki U:kj (X:i+Y:i)", target="ij", changed=True),
    Scenario("sum-factor-units", "R20b", "squared unitary tensor next to a sum factor whose addends hold unitary pairs", "U:ij^2 (X:i+U:ki*U:kl*Y:l)", target="i", changed=True),
    Scenario("sum-factor-terms", "R20b", "two terms, one with a sum factor", ["U:ij^2 (X:i+Y:i)", "2 U:ki U:kl Z:l"], target="i", changed=True),
    Scenario("sum-factor-evd", "R20b", "squared unitary tensor next to a sum factor, delta evaluation requested", "2 U:ij^2 (X:i+Y:i)", target="i", ed=True),
    Scenario("not-expr", "R20b", "a container that is not an Expr", "U:ki U:kj", as_term=True, raises="TypeError"),
    # ---- R20c: bookkeeping
    Scenario("exp-mult", "R20c", "unitary object with exponent 2 next to a partner", "U:ki^2 U:kj", target="ij", changed=False),
    Scenario("denominator", "R20c", "common index in a denominator", "U:ki U:kj X:k^-1", changed=False),
    Scenario("denominator2", "R20c", "common index in a squared denominator", "U:ik U:jk X:k^-2", changed=False),
    Scenario("rem-exp", "R20c", "other indices on a squared object", "U:ki U:kj X:ij^2", changed=True),
    Scenario("diag-obj", "R20c", "common index twice on one other object", "U:ki U:kj X:kk", changed=False),
    Scenario("name-exact", "R20c", "tensors whose name only contains the name", "UU:ki UU:kj U2:li U2:lj u:mi u:mj", changed=False),
    Scenario("name-other", "R20c", "another tensor name requested", "U:ki U:kj X:ij", t_name="V", changed=False),
    Scenario("name-used", "R20c", "the requested name decides", "A:ki A:kj U:li U:lj", t_name="A", target="ij", changed=True),
    Scenario("prov-targets", "R20c", "all indices provided as targets", "U:ij U:kj", target="ijk", changed=False),
    Scenario("prov-targets-c", "R20c", "provided targets, common index contracted", "U:ki U:kj X:i X:j", target="ij", changed=True),
    Scenario("evd-plain", "R20c", "delta evaluation requested", "U:ki U:kj X:ij", ed=True),
    Scenario("evd-target", "R20c", "delta evaluation requested, delta between a target and a contracted index", "2 U:ki U:kj X:jl", ed=True),
    Scenario("evd-spin", "R20c", "delta evaluation requested, spin-labelled target indices", "U:ki U:kj X:l", spin="a", ed=True),
    Scenario("evd-spin-b", "R20c", "delta evaluation requested, spin-labelled indices", "3 U:ik U:jk X:jl Y:m", spin="b", ed=True),
    Scenario("evd-terms", "R20c", "delta evaluation requested, several terms", ["U:ki U:kj X:ij", "2 U:ik U:jk Y:ij"], ed=True),
    Scenario("evd-provided", "R20c", "delta evaluation requested, provided targets that occur twice", "U:ki U:kj X:i X:j", target="ij", ed=True),
    Scenario("evd-provided-one", "R20c", "delta evaluation requested, one provided target on the delta", "3 U:ik U:jk X:i Y:jm Z:m", target="i", ed=True),
    Scenario("evd-provided-spin", "R20c", "delta evaluation requested, provided spin-labelled targets", "U:ki U:kj X:il Y:jl", target="ij", spin="b", ed=True),
    Scenario("evd-trace", "R20c", "delta evaluation requested, both indices of the delta contracted and on no other object", "U:jk U:jl Y:i", target="i", ed=True),
    Scenario("evd-trace-empty", "R20c", "delta evaluation requested, scalar with an empty provided target set", "2 U:ij U:ik", target="", ed=True),
    Scenario("evd-trace-4", "R20c", "delta evaluation requested, tr(U^T U U^T U)/3", "1/3 U:ij U:ik U:lj U:lk", target="", ed=True),
    Scenario("evd-trace-second", "R20c", "delta evaluation requested, trace over second positions next to a remainder", "U:kj U:lj X:im Y:m", target="i", ed=True),
    Scenario("evd-repeat", "R20c", "delta evaluation requested, the same delta generated twice (Einstein targets)", "U:ij U:ik U:lj U:lk", ed=True),
    Scenario("evd-provided-none", "R20c", "delta evaluation requested, provided targets not on the delta", "U:ki U:kj X:il Y:jl", target="l", ed=True),
    # several generated deltas: the provided targets hold for every one of them, whichever way the earlier ones were evaluated
    Scenario("evd-two-preferred", "R20c", "delta evaluation requested, two deltas, the first loses its preferred index, the second "
             "connects provided targets", "U:mi U:mj X:i U:nk U:nl Y:kl", target="jkl", ed=True),
    Scenario("evd-two-killable", "R20c", "delta evaluation requested, two deltas, the first loses its killable index, the second "
             "connects provided targets", "U:mi U:mj X:j U:nk U:nl Y:kl", target="ikl", ed=True),
    Scenario("evd-two-kept-first", "R20c", "delta evaluation requested, two deltas, the first connects provided targets, the second "
             "loses its preferred index", "U:mi U:mj Y:ij U:nk U:nl X:k", target="ijl", ed=True),
    Scenario("evd-three", "R20c", "delta evaluation requested, three deltas: preferred index removed, killable index removed, "
             "provided targets connected", "U:mi U:mj X:i U:nk U:nl Y:kl U:ab U:ac Z:c", target="bjkl", ed=True),
    Scenario("evd-two-einstein", "R20c", "delta evaluation requested, two deltas, targets by sum convention",
             "U:mi U:mj X:i U:nk U:nl Y:kl", ed=True),
    Scenario("evd-two-terms", "R20c", "delta evaluation requested, two terms with two deltas each, provided targets",
             ["U:mi U:mj X:i U:nk U:nl Y:kl", "2 U:mi U:mj X:i U:nk U:nl Z:lk"], target="jkl", ed=True),
]


def scenarios(ctx, rule):
    fnnode = ctx.model.fn(FN)
    n = 0
    for scn in SCENARIOS:
        if scn.rule != rule:
            continue
        run = Run(ctx, f"simplify_unitary[{scn.sid}]")
        try:
            check_scenario(ctx, run, scn, fnnode)
        except _OutOfDomain as e:
            raise AnalysisError(f"C20 scenario {scn.sid} is outside the decided domain: {e}")
        n += 1
    ctx.floor(rule, "model expressions evaluated", n, {"R20a": 32, "R20b": 24, "R20c": 30}[rule])


def r20c_request(ctx):
    """Delta evaluation exactly when requested: the flag is left symbolic, both paths are looked at."""
    rule = "R20c"
    fnnode = ctx.model.fn(FN)
    scn = Scenario("evd-flag", rule, "symbolic flag", "U:ki U:kj X:jl")
    run = Run(ctx, "simplify_unitary[evd-flag]")
    flag = sym("EVALUATE_DELTAS")
    outs = evaluate(ctx, run, scn, fnnode, ed=flag)
    rows = []
    for o in outs:
        pol = [p for a, p in o.path if a == flag]
        evd = [e for e in o.effects if isinstance(e, T) and e.op == "evd"]
        rows.append((pol[0] if pol else None, o.kind, len(evd)))
    ok = sorted(rows, key=repr) == sorted([(True, "return", 1), (False, "return", 0)], key=repr)
    ctx.check(rule, fnnode, ok, "delta evaluation if and only if the flag is set",
              f"paths (flag, outcome, evaluate_deltas calls): {rows}", key="evd-flag")


def r20c_term_tables(ctx):
    """Term._idx_counter / idx / target / contracted against a direct count on model terms."""
    rule = "R20c"
    cases = [("U:ki U:kj X:k", None), ("U:ki^2 U:kj", None), ("U:ki U:kj X:k^-1", None), ("X:kk^-2 Y:ij^3 2", None),
             ("U:ji U:ki X:jk", "i"), ("U:ij U:kj", "ijk"), ("-1 X:ij", None), ("U:ki U:kj X:l", None)]
    for meth in ("_idx_counter", "idx", "target", "contracted"):
        fnnode = ctx.model.fn(f"{TERM}.{meth}")
        for text, target in cases:
            scn = Scenario("t", rule, "", text, target=target, spin="a" if "l" in text else "")
            run = Run(ctx, f"Term.{meth}")

            def make():
                run.w = World()
                return dict(self=scn.build(run.w).attrs["terms"][0])
            outs = run.sx.run(fnnode, make)
            cnt = counts(dict_of(scn.terms[0][1]))
            prov = scn.akey[3]
            if meth == "_idx_counter":
                want = {k: n - 1 for k, n in cnt.items()}
            elif meth == "idx":
                want = dict(cnt)
            elif meth == "target":
                want = {k: 1 for k in (prov if prov is not None else [k for k, n in cnt.items() if n == 1])}
            else:
                want = {k: 1 for k in cnt if (k not in prov if prov is not None else cnt[k] > 1)}
            got = None
            if len(outs) == 1 and outs[0].kind == "return" and isinstance(outs[0].value, (tuple, list)):
                got = {}
                try:
                    for x in outs[0].value:
                        if meth == "_idx_counter":
                            k, n = x
                            got[_key(k)] = got.get(_key(k), 0) + n if _key(k) in got else n
                        else:
                            got[_key(x)] = got.get(_key(x), 0) + 1
                except (TypeError, ValueError):
                    got = None
            what = f"Term.{meth} of {text}" + (f" [targets {target}]" if target else "")
            ctx.check(rule, fnnode, got == want, f"{what} = {want}", f"{what} gives {got if got is not None else outs}, a direct count gives {want}",
                      key=f"{meth} {text} {target}")


EVD_CASES = [
    # (sum of products, target_idx handed over: None | string of provided index letters, spin)
    (["delta:kl Y:i"], "i", ""), (["2 delta:jk"], "", ""), (["delta:jk X:j"], "", ""), (["delta:jk X:k"], "", ""),
    (["delta:ij X:jl"], None, ""), (["delta:ij X:i X:j"], "ij", ""), (["delta:ij X:i X:j"], "i", ""), (["delta:ij X:i X:j"], "j", ""),
    (["delta:ij delta:kl X:jk"], "", ""), (["delta:ij delta:kl"], "", ""), (["delta:ij delta:kl X:m"], "m", "a"),
    (["delta:ij delta:jk X:k"], "i", ""), (["delta:ij X:ij", "2 delta:kl Y:m"], "m", ""), (["delta:ij X:l"], None, "b"),
    (["2 delta:ij"], "i", ""), (["delta:ij Y:m"], "jm", ""), (["delta:ij delta:ik X:i"], "i", ""),
    (["1/3 delta:jk U:lj U:lk"], "", ""), (["delta:jk U:lj U:lk"], None, ""), (["X:ij Y:jk"], "ik", ""), (["delta:ij"], "", ""),
]


def evd_case(ctx, fnnode, terms, tgt, spin="", spins=None):
    """func.evaluate_deltas, evaluated from its source, on one model sum of products with the target indices ``tgt`` (None:
    sum convention).  -> (description, problem | None, result, contract result, value kept?, form of the contract?)."""
    scn = Scenario("evd", "R20c", "", terms, target=tgt, spin=spin, spins=spins)
    run = Run(ctx, "evaluate_deltas")

    def make():
        run.w = World()
        run.in_evd = True   # the function itself is the subject here: not logged, not re-entered through the hook
        return dict(expr=from_monos(scn.monos()), target_idx=None if tgt is None else [run.w.ix(k) for k in scn.akey[3]])
    outs = run.sx.run(fnnode, make)
    what = f"evaluate_deltas({scn.text}, targets {'by sum convention' if tgt is None else '(' + ','.join(scn.akey[3]) + ')'})"
    if len(outs) != 1 or outs[0].kind != "return" or not (is_num(outs[0].value) or _is_value(outs[0].value)):
        return what, f"no single value: {[repr(o)[:200] for o in outs]}", None, None, False, False
    got = monomials(outs[0].value)
    prot = None if tgt is None else set(scn.akey[3])
    want = model_evaluate_deltas(scn.monos(), prot)
    tg = set(scn.akey[3]) if tgt is not None else set().union(*[einstein_per_object(d) for c, d in scn.monos()])
    v_in = value(scn.monos(), tg, UNAME)
    if value(want, tg, UNAME) != v_in:
        raise AnalysisError(f"C20: the contract of evaluate_deltas written down in the module does not preserve the value of "
                            f"{scn.text} [targets {tgt}]")
    return what, None, got, want, value(got, tg, UNAME) == v_in, expr_key(got) == expr_key(want)


def r20c_evaluate_deltas(ctx):
    """func.evaluate_deltas (evaluated from its source) on model products: the value for every assignment of the targets and
    the form demanded by the contract written down in ``model_evaluate_deltas`` (a delta whose two indices are contracted and
    sit on no other object stays: its double sum is the dimension of the space)."""
    rule = "R20c"
    fnnode = ctx.model.fn("func:evaluate_deltas")
    n = 0
    for terms, tgt, spin in EVD_CASES:
        text = " + ".join(terms)
        what, problem, got, want, v_ok, f_ok = evd_case(ctx, fnnode, terms, tgt, spin)
        n += 1
        if problem:
            ctx.bad(rule, fnnode, f"{what}: {problem}", key=f"evd {text} {tgt}")
            continue
        ctx.check(rule, fnnode, v_ok, f"{what} = {show_monos(got)}: value unchanged",
                  f"{what} = {show_monos(got)}: the value changes (a sum over an index that only sits on the delta is lost or a "
                  f"target index removed); expected {show_monos(want)}", key=f"evd value {text} {tgt}")
        ctx.check(rule, fnnode, f_ok, f"{what}: form {show_monos(want)}",
                  f"{what} = {show_monos(got)}, the contract demands {show_monos(want)}", key=f"evd form {text} {tgt}")
    ctx.floor(rule, "products handed to evaluate_deltas", n, 21)


def _subsets(letters):
    return ["".join(c) for r in range(len(letters) + 1) for c in itertools.combinations(letters, r)]


def evd_family(tier):
    """Products of two and three deltas with explicit target indices (every subset of the indices, the empty set included) and
    the sum convention: (family, terms, targets, spins).  Every way through the function is contained for every delta of the
    product in every position of the processing order - killable index removed, preferred index removed, kept because both
    are targets, kept because the information differs, kept because nothing else carries its indices - followed by deltas
    whose fate depends on the targets (a delta between two targets that also sit on other objects has to stay), so every
    restart on the remaining deltas is seen to work with the targets it was given."""
    idx4 = "ijkl"
    pairs4 = ["".join(c) for c in itertools.combinations(idx4, 2)]
    full = tier == "thorough"
    # two deltas over four indices
    two = [(a, b) for a, b in itertools.combinations(pairs4, 2)]
    rem2 = ["", "X:i X:j X:k X:l", "X:ij Y:kl", "X:ik Y:jl", "X:i Y:kl", "X:j Y:kl", "X:k Y:ij", "X:l Y:ij", "X:il Y:jk",
            "X:i X:j", "X:k X:l", "2 Y:jk", "X:ijkl"]
    if not full:
        two = [(a, b) for a, b in two if not set(a) & set(b)] + [("ij", "jk"), ("ij", "ik"), ("ik", "jk"), ("jk", "kl")]
        rem2 = rem2[:6]
    for a, b in two:
        used = "".join(sorted(set(a + b)))
        for rem in rem2:
            for tg in [None] + _subsets(idx4 if full else used):
                yield "two deltas", [f"delta:{a} delta:{b} {rem}".strip()], tg, None
    # three deltas over four indices (chains, stars, triangles, a disjoint pair and a bridge)
    three = list(itertools.combinations(pairs4, 3))
    rem3 = ["X:i X:j X:k X:l", "", "X:ij Y:kl", "X:il Y:jk", "X:i Y:kl", "X:l Y:ij"]
    if not full:
        three = [("ij", "jk", "kl"), ("ij", "ik", "il"), ("ij", "ik", "jk"), ("ij", "jk", "kl")[::-1], ("ij", "kl", "jk"),
                 ("il", "jl", "kl"), ("ik", "jl", "kl")]
        rem3 = rem3[:2]
    for ds in three:
        for rem in rem3:
            for tg in [None] + _subsets(idx4):
                yield "three deltas", [" ".join(f"delta:{d}" for d in ds) + (" " + rem if rem else "")], tg, None
    # two sums: the targets hold for every term
    for tg in _subsets("ijkl" if full else "jkl"):
        yield "sum of products", ["delta:ij X:i delta:kl Y:kl", "2 delta:ik delta:jl X:i Y:kl"], tg, None
    # mixed information: an index with a spin label next to indices without (only the index without label may go)
    mixed = [("ij", "kl"), ("ij", "jk"), ("ik", "jk")] if not full else two
    for a, b in mixed:
        used = "".join(sorted(set(a + b)))
        for spins in ({"j": "a"}, {"i": "a"}, {"i": "a", "j": "a"}, {"k": "a"}, {"j": "a", "k": "a"}) if full else ({"j": "a"}, {"i": "a"}):
            for rem in ("X:i X:j X:k X:l", "X:i Y:kl") if not full else rem2[:6]:
                for tg in _subsets(used):
                    yield "mixed information", [f"delta:{a} delta:{b} {rem}".strip()], tg, spins


def r20c_evaluate_deltas_family(ctx, tier):
    """The generated products of ``evd_family``: value against the sum over the contracted indices and form of the contract."""
    rule = "R20c"
    fnnode = ctx.model.fn("func:evaluate_deltas")
    n, bad = {}, {}
    for fam, terms, tgt, spins in evd_family(tier):
        what, problem, got, want, v_ok, f_ok = evd_case(ctx, fnnode, terms, tgt, spins=spins)
        n[fam] = n.get(fam, 0) + 1
        if problem:
            bad.setdefault((fam, "result"), []).append(f"{what}: {problem}")
            continue
        if not v_ok:
            bad.setdefault((fam, "value"), []).append(f"{what} = {show_monos(got)}, expected {show_monos(want)}")
        if not f_ok:
            bad.setdefault((fam, "form"), []).append(f"{what} = {show_monos(got)}, the contract demands {show_monos(want)}")
    for fam, cnt in n.items():
        for aspect, fact in (("result", "a single value"),
                             ("value", "value unchanged for every assignment of the target indices (contracted indices summed)"),
                             ("form", "every delta treated with the target indices handed over (form of the contract)")):
            msgs = bad.get((fam, aspect), [])
            ctx.check(rule, fnnode, not msgs, f"evaluate_deltas on {cnt} generated products ({fam}): {fact}",
                      f"evaluate_deltas on {cnt} generated products ({fam}): {fact} fails for {len(msgs)}, e.g. " + " || ".join(msgs[:2]),
                      key=f"evd family {fam} {aspect}")
    total = sum(n.values())
    ctx.floor(rule, "generated products of deltas handed to evaluate_deltas", total, 3000 if tier == "thorough" else 300)
    if tier == "thorough":
        ctx.note(f"evaluate_deltas family: {total} generated products evaluated")


# ------------------------------------------------------------------------------------------------ thorough sweep

def sweep(ctx):
    fnnode = ctx.model.fn(FN)
    letters = "ijk"
    pairs = [a + b for a in letters for b in letters]
    rems = [None] + [f"X:{a}" for a in letters] + [f"X:{a}{b}" for a in letters for b in letters]
    dls = ["delta:ij", "delta:ik", "delta:jk"]
    n = skipped = 0
    bad = {}
    run = Run(ctx, "simplify_unitary[sweep]")
    for nu in (2, 3, 4):
        for us in itertools.combinations_with_replacement(pairs, nu):
            for rem in (rems + dls if nu == 2 else rems[:4] + dls if nu == 3 else rems[:1]):
                for target in ((None, "", "i", "j", "k") if nu < 4 else (None, "")):
                    facs = {}
                    for u in us:
                        facs[u] = facs.get(u, 0) + 1
                    text = " ".join(f"U:{u}" + (f"^{e}" if e > 1 else "") for u, e in facs.items()) + (f" {rem}" if rem else "")
                    scn = Scenario(f"sweep {text} {target}", "R20a", "generated", text, target=target)
                    try:
                        tg, per_term = expected_sets(scn)
                    except _OutOfDomain:
                        skipped += 1
                        continue
                    outs = evaluate(ctx, run, scn, fnnode)
                    n += 1
                    if len(outs) != 1 or outs[0].kind != "return":
                        bad.setdefault("result", []).append(text + f" [{target}]")
                        continue
                    got, seen = result_monos(run, outs[0])
                    c, d, nfs = per_term[0]
                    if expr_key(got) not in {expr_key([(c, x)]) for x in nfs.values()}:
                        bad.setdefault("form", []).append(f"{text} [targets {target}] -> {show_monos(got)}, expected "
                                                          f"{' or '.join(show_monos([(c, x)]) for x in nfs.values())}")
                    try:
                        if value(got, tg, UNAME) != value(scn.monos(), tg, UNAME):
                            bad.setdefault("value", []).append(f"{text} [targets {target}] -> {show_monos(got)}")
                    except _Unknown as e:
                        bad.setdefault("value", []).append(f"{text} [targets {target}]: foreign factor {e}")
                    if seen != [scn.akey] or run.w.clash:
                        bad.setdefault("assumptions", []).append(f"{text} [targets {target}]")
                    if target is None and any(all(is_tens(b) for b in d) and einstein(d) != tg for c, d in got):
                        bad.setdefault("targets", []).append(f"{text} -> {show_monos(got)}")
                    # the same term with delta evaluation requested: the value must survive
                    outs = evaluate(ctx, run, scn, fnnode, ed=True)
                    if len(outs) != 1 or outs[0].kind != "return":
                        bad.setdefault("result", []).append(text + f" [{target}] [evaluate_deltas]")
                        continue
                    got, seen = result_monos(run, outs[0])
                    try:
                        if value(got, tg, UNAME) != value(scn.monos(), tg, UNAME):
                            bad.setdefault("evaluated", []).append(f"{text} [targets {target}] -> {show_monos(got)}")
                    except _Unknown as e:
                        bad.setdefault("evaluated", []).append(f"{text} [targets {target}]: foreign factor {e}")
    ctx.floor("R20a", "generated terms evaluated", n, 7000)
    ctx.note(f"sweep: {n} generated terms evaluated, {skipped} outside the decided domain")
    for aspect, fact in (("form", "result is a normal form of the reference rewriting"), ("value", "value unchanged for an orthogonal U"),
                         ("assumptions", "assumptions kept"), ("result", "a single result"),
                         ("evaluated", "value unchanged after the requested delta evaluation"),
                         ("targets", "target indices by sum convention kept")):
        rule = "R20b" if aspect == "assumptions" else "R20c" if aspect == "evaluated" else "R20a"
        ctx.check(rule, fnnode, aspect not in bad, f"{n} generated terms: {fact}",
                  f"{len(bad.get(aspect, []))} of {n} generated terms: {fact} fails, e.g. {bad.get(aspect, [''])[0]}", key=f"sweep {aspect}")


def run(ctx):
    for r in ("R20a", "R20b", "R20c"):
        if ctx.want(r):
            scenarios(ctx, r)
    if ctx.want("R20c"):
        r20c_request(ctx)
        r20c_term_tables(ctx)
        r20c_evaluate_deltas(ctx)
        r20c_evaluate_deltas_family(ctx, "quick")


def run_thorough(ctx):
    if ctx.want("R20c"):
        r20c_evaluate_deltas_family(ctx, "thorough")
    if ctx.want("R20a") or ctx.want("R20b") or ctx.want("R20c"):
        sweep(ctx)
