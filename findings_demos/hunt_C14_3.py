"""remove_tensor silently leaves the tensor in the expression if it is hidden
in a polynomial factor of a term (not expanded expression).

Run from the worktree root:  /venv/bin/python hunt_out/3/demo.py
exit 1: defect present, exit 0: fixed.
"""
import os
import sys
sys.path.insert(0, os.getcwd())
import itertools  # noqa E402
import random  # noqa E402
from sympy import Rational, S  # noqa E402
from adcgen import Expr, remove_tensor  # noqa E402
from adcgen.indices import get_symbols  # noqa E402
from adcgen.sympy_objects import (  # noqa E402
    AntiSymmetricTensor, NonSymmetricTensor, SymbolicTensor
)

i, j, a, b = get_symbols("ijab")


def f(p, q):
    return AntiSymmetricTensor("f", (p,), (q,))


def Z(*idx):
    return NonSymmetricTensor("Z", idx)


def U(*idx):
    return NonSymmetricTensor("U", idx)


def contains(expr, name):
    return any(t.name == name for t in expr.sympy.atoms(SymbolicTensor))


def as_str(res):
    return {key: str(val) for key, val in res.items()}


failed = False
cases = {
    "(f_ij + 2 f_ji) Z_ij":
        (f(i, j) + 2 * f(j, i)) * Z(i, j),
    "f_ia Z_ia + (f_ij + Z_ij) U_ij":
        f(i, a) * Z(i, a) + (f(i, j) + Z(i, j)) * U(i, j),
    "f_ia (Z_ia + U_ia)":
        f(i, a) * (Z(i, a) + U(i, a)),
    "(f_ij + 2 f_ji)^2 Z_ij":
        (f(i, j) + 2 * f(j, i))**2 * Z(i, j),
}
for label, sym in cases.items():
    expr = Expr(sym)
    before = str(expr)
    ref = remove_tensor(Expr(sym.expand()), "f")
    try:
        res = remove_tensor(expr, "f")
    except AssertionError as ex:
        failed = True
        print(f"\n{label}\n  remove_tensor(expr, 'f') raises {ex!r}\n"
              f"  remove_tensor(expr.expand(), 'f') = {as_str(ref)}")
        continue
    print(f"\n{label}\n  remove_tensor(expr, 'f')          = {as_str(res)}"
          f"\n  remove_tensor(expr.expand(), 'f') = {as_str(ref)}")
    bad = [key for key, val in res.items() if contains(val, "f")]
    if bad:
        failed = True
        print(f"  WRONG: the block expression(s) {bad} still contain the "
              "tensor f")
    if set(res) != set(ref) or \
            any((res[key] - ref[key]).sympy.expand() is not S.Zero
                for key in ref):
        failed = True
        print("  WRONG: result differs from the result for the expanded "
              "expression")
    if str(expr) != before:
        failed = True
        print("  WRONG: the input expression was modified")

# numeric check for the first case: sum_ij R_oo(i,j) f_ij == expr
rng = random.Random(3)
fv = {(p, q): Rational(rng.randint(1, 9), rng.randint(1, 5))
      for p in range(2) for q in range(2)}
zv = {(p, q): Rational(rng.randint(1, 9), rng.randint(1, 5))
      for p in range(2) for q in range(2)}
value = sum((fv[p, q] + 2 * fv[q, p]) * zv[p, q]
            for p, q in itertools.product(range(2), repeat=2))
res = remove_tensor(Expr(cases["(f_ij + 2 f_ji) Z_ij"]), "f")
recontracted = S.Zero
if ("oo",) in res:
    for p, q in itertools.product(range(2), repeat=2):
        # R_oo(i, j): substitute the numeric values for Z
        r = res[("oo",)].sympy
        r = r.subs({Z(i, j): zv[p, q], Z(j, i): zv[q, p]})
        recontracted += fv[p, q] * r
print(f"\nvalue of (f_ij + 2 f_ji) Z_ij = {value}, 'oo' block expression "
      f"contracted with f_ij = {recontracted}")
if recontracted != value:
    failed = True
    print("  WRONG")

sys.exit(1 if failed else 0)
