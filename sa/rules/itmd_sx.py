"""Formula IR of intermediates.py obtained by abstract evaluation (sa.symex).

Counterpart of ``itmd_ir.registry`` / ``itmd_ir.definition`` that does not look at the shape of the source:

* ``registry_sx(ctx)``: class table.  The class attributes are *evaluated*, ``_build_tensor`` is evaluated on the default
  index names with the tensor constructors of sympy_objects.py as vocabulary (arguments bound to the parameter names of
  ``__new__``), the result is read off the constructed tensor value.
* ``definition_sx(ctx, name, fully_expand)``: ``_build_expanded_itmd`` is evaluated with ``Symex`` on concrete model
  values: index names, ``Poly`` polynomials (itmd_ir) for everything sympy-valued.  Helper functions, nested functions,
  loops, comprehensions, temporaries, keyword/positional spelling are evaluated through; ``eri``/``fock``/``orb_energy``
  are evaluated through as well (down to the tensor constructors).  Vocabulary (not looked into): ``get_symbols``,
  the tensor constructors, ``tensor_names``, ``RegisteredIntermediate.tensor`` / ``.expand_itmd`` (modelled by their
  documented behaviour: validated indices; the cached base expression of the referenced definition with the target
  indices substituted and every *declared* contracted index replaced by a fresh one), ``Expr(..)``,
  ``.substitute_contracted()``, ``.atoms(Index)``, ``.permute``, ``.subs``, ``.copy``, ``.expand``, ``.sympy``,
  ``sort_idx_canonical``, ``namedtuple``.

Nothing of the repository is imported or executed.
"""
from __future__ import annotations

import re
from fractions import Fraction

from ..model import AnalysisError
from ..symex import Symex, Obj, Ext, ClassRef, Raised
from .itmd_ir import Poly, tensor_factor, space_of, BASE, CANON_KEY, _Typing, _factor_indices

MOD = "intermediates"
TENSOR_CLASSES = ("AntiSymmetricTensor", "Amplitude", "SymmetricTensor", "NonSymmetricTensor")
NAME_FIELDS = ("eri", "coulomb", "fock", "operator", "gs_amplitude", "gs_density", "left_adc_amplitude",
               "right_adc_amplitude", "orb_energy", "sym_orb_denom")

_CACHE = {}


def _marker(field):
    return "{" + field + "}"


class TensorVal:
    """value of a tensor constructor call"""

    def __init__(self, kind, name, upper, lower, bra_ket_sym):
        self.kind, self.name, self.upper, self.lower, self.bra_ket_sym = kind, name, upper, lower, bra_ket_sym

    def __repr__(self):
        return f"{self.kind}({self.name!r}, {self.upper}, {self.lower}, {self.bra_ket_sym})"


class _Ref:
    """a definite (never None) record with fixed attributes"""

    def __init__(self, name, **attrs):
        self.name, self.attrs = name, attrs

    def __repr__(self):
        return f"<{self.name}>"


class XPoly(Poly):
    """model of an ``expr_container.Expr``: a *mutable* record around a polynomial.  Which methods update the record and
    return it, and which return a new record, is read off the source of expr_container.py (``expr_method_kinds``);
    ``.sympy`` is an immutable snapshot (plain ``Poly``)."""

    def __init__(self, terms=None, target=None, kinds=None):
        super().__init__(terms)
        self.target = target
        self.kinds = kinds or {}

    def result(self, method, poly):
        """outcome of the Expr method ``method`` whose value is ``poly``"""
        k = self.kinds.get(method)
        if k == "inplace":
            self.terms = list(poly.terms)
            return self
        if k == "fresh":
            return XPoly(poly.terms, self.target, self.kinds)
        raise AnalysisError(f"Expr.{method}: neither updates the container and returns it nor returns a new container on "
                            "every path (expr_container.py), the model cannot follow it")

    @staticmethod
    def _val(o):
        return Poly(list(o.terms)) if isinstance(o, Poly) else o

    def __add__(self, o):
        return self.result("__add__", Poly(list(self.terms)) + self._val(o))

    def __radd__(self, o):
        return self.result("__radd__", self._val(o) + Poly(list(self.terms)))

    def __sub__(self, o):
        return self.result("__sub__", Poly(list(self.terms)) - self._val(o))

    def __rsub__(self, o):
        return self.result("__rsub__", Poly.lift(self._val(o)) - Poly(list(self.terms)))

    def __mul__(self, o):
        return self.result("__mul__", Poly(list(self.terms)) * self._val(o))

    def __rmul__(self, o):
        return self.result("__rmul__", Poly.lift(self._val(o)) * Poly(list(self.terms)))

    def __truediv__(self, o):
        return self.result("__truediv__", Poly(list(self.terms)) / self._val(o))

    def __rtruediv__(self, o):
        return self.result("__rtruediv__", Poly.lift(self._val(o)) / Poly(list(self.terms)))

    def __neg__(self):
        raise AnalysisError("unary minus on an Expr container (the library defines none)")

    def __pow__(self, n):
        raise AnalysisError("power of an Expr container is outside the formula IR")

    def sx_inplace(self, sx, op, v, node):
        import ast as _ast
        tbl = {_ast.Add: ("__iadd__", "__add__"), _ast.Sub: ("__isub__", "__sub__"), _ast.Mult: ("__imul__", "__mul__"),
               _ast.Div: ("__itruediv__", "__truediv__")}
        if type(op) not in tbl:
            return NotImplemented
        im, m = tbl[type(op)]
        cur = Poly(list(self.terms))
        v = self._val(v)
        val = {"__add__": lambda: cur + v, "__sub__": lambda: cur - v, "__mul__": lambda: cur * v,
               "__truediv__": lambda: cur / v}[m]()
        return self.result(im if self.kinds.get(im) is not None else m, val)


def names(x):
    """index names of an index argument (string of names, one name, sequence of names)"""
    if x is None:
        return []
    if isinstance(x, str):
        out = re.findall(r"[a-z]\d*", x)
        if "".join(out) != x:
            raise AnalysisError(f"index string {x!r} not understood")
        return out
    if isinstance(x, (tuple, list)):
        out = []
        for e in x:
            if not isinstance(e, str) or not re.fullmatch(r"[a-z]\d*", e):
                raise AnalysisError(f"index argument {x!r} not understood")
            out.append(e)
        return out
    raise AnalysisError(f"index argument {x!r} not understood")


def _num(v, what):
    if isinstance(v, bool):
        return int(v)
    if isinstance(v, (int, Fraction)):
        return v
    if isinstance(v, Ext):
        tbl = {"S.One": 1, "S.Zero": 0, "S.NegativeOne": -1, "One": 1, "Zero": 0, "NegativeOne": -1}
        if v.name in tbl:
            return tbl[v.name]
    raise AnalysisError(f"{what}: value {v!r} is not a number")


# ---------------------------------------------------------------------------
# evaluator


class _Eval:
    """one evaluator per (tree, purpose); hooks close over the class table"""

    def __init__(self, ctx, reg=None):
        self.ctx = ctx
        self.model = ctx.model
        self.reg = reg
        self.fresh = 0
        self.current = "?"
        m = self.model.module(MOD)
        self.mod = m
        self.kinds = expr_method_kinds(ctx)

        def inline(q):
            return True
        hooks = {
            "get_symbols": self.h_get_symbols,
            "sort_idx_canonical": lambda sx, a, kw: CANON_KEY(a[0]),
            "namedtuple": self.h_namedtuple,
            "tensor_names": Obj(None, "tensor_names", **{f: _marker(f) for f in NAME_FIELDS}),
            "RegisteredIntermediate.tensor": self.h_tensor,
            "RegisteredIntermediate.expand_itmd": self.h_expand_itmd,
            "Expr": self.h_expr,
            "S": Obj(None, "S", Half=Fraction(1, 2), One=1, Zero=0, NegativeOne=-1),
            "Pow": self.h_pow,
        }
        for k in TENSOR_CLASSES:
            hooks[k] = (lambda kind: lambda sx, a, kw: self.h_tensor_ctor(sx, kind, a, kw))(k)
        self.sx = Symex(self.model, inline=inline, hooks=hooks, what="intermediates", attr_hook=self.attr_hook,
                        max_steps=2000000, max_depth=24)

    # ----------------------------------------------------------------- hooks
    def h_get_symbols(self, sx, a, kw):
        b = sx.bind(self.model.fn("indices:get_symbols"), a, kw, False, True, True)
        if b.get("spins") is not None:
            raise AnalysisError(f"{self.current}: get_symbols with spins is outside the formula IR")
        x = b.get("indices")
        if isinstance(x, str):
            return names(x)  # a list, as the library returns
        if isinstance(x, (tuple, list)):
            names(x)
            return x
        raise AnalysisError(f"{self.current}: get_symbols({x!r}) not understood")

    def h_pow(self, sx, a, kw):
        if len(a) != 2 or kw or not isinstance(a[0], (Poly, int, Fraction)) or isinstance(a[0], bool):
            raise AnalysisError(f"{self.current}: Pow({a!r}) outside the formula IR")
        return Poly.lift(a[0]) ** a[1] if isinstance(a[0], Poly) else Fraction(a[0]) ** a[1]

    def h_namedtuple(self, sx, a, kw):
        fields = a[1] if len(a) > 1 else kw.get("field_names")
        if isinstance(fields, str):
            fields = fields.replace(",", " ").split()
        tname = a[0] if a else kw.get("typename")
        fields = list(fields)

        def make(sx2, a2, kw2):
            vals = dict(zip(fields, a2))
            for k, v in kw2.items():
                if k not in fields or k in vals:
                    raise Raised("TypeError", None, None)
                vals[k] = v
            if set(vals) != set(fields):
                raise Raised("TypeError", None, None)
            return Obj(None, tname, _fields=tuple(fields), **vals)
        return make

    def h_tensor_ctor(self, sx, kind, a, kw):
        m = sx.find_method(f"sympy_objects:{kind}", "__new__")
        if m is None:
            raise AnalysisError(f"constructor of {kind} not found")
        b = sx.bind(m[0], a, kw, True, True, False)
        name = b.get("name")
        if not isinstance(name, str):
            raise AnalysisError(f"{self.current}: tensor name {name!r} is not a string")
        if kind == "NonSymmetricTensor":
            idx = names(list(b["indices"]))
            if name == _marker("orb_energy"):
                if len(idx) != 1:
                    raise AnalysisError(f"{self.current}: orbital energy with {len(idx)} indices")
                return tensor_factor("e", "e", idx)
            return TensorVal(kind, name, tuple(idx), None, 0)
        up, lo = names(list(b["upper"])), names(list(b["lower"]))
        bks = _num(b.get("bra_ket_sym", 0), f"{self.current}: bra_ket_sym")
        if name in (_marker("eri"), _marker("fock")):
            n = 2 if name == _marker("eri") else 1
            if kind != "AntiSymmetricTensor" or bks != 0 or len(up) != n or len(lo) != n:
                # the IR (and the factorisation code) assume <pq||rs> / f_pq: antisymmetric, n upper / n lower
                return TensorVal(kind, name, tuple(up), tuple(lo), bks)
            return tensor_factor("eri", "V", up, lo) if n == 2 else tensor_factor("fock", "f", up, lo)
        return TensorVal(kind, name, tuple(up), tuple(lo), bks)

    def _validated(self, obj, indices, node_name):
        n = obj.attrs["name"]
        inf = self.reg[n]
        idx = list(inf["default_idx"]) if indices is None else names(list(indices) if not isinstance(indices, str) else indices)
        if len(idx) != len(inf["default_idx"]):
            raise _Typing(f"{self.current}: `{n}` is called with {len(idx)} indices, it has {len(inf['default_idx'])}",
                          inf["build"])
        for got, want in zip(idx, inf["default_idx"]):
            if space_of(got) != space_of(want):
                raise _Typing(f"{self.current}: `{n}` is called with index `{got}` at the position of `{want}` (other space)",
                              inf["build"])
        return n, idx

    def h_tensor(self, sx, a, kw):
        b = sx.bind(self.model.fn(f"{MOD}:RegisteredIntermediate.tensor"), a, kw, False, True, True)
        n, idx = self._validated(b["self"], b.get("indices"), "tensor")
        t = tensor_factor("itmd", n, idx)
        rs = b.get("return_sympy")
        if not isinstance(rs, bool):
            raise AnalysisError(f"{self.current}: tensor(return_sympy={rs!r})")
        return t if rs else XPoly(t.terms, None, self.kinds)  # sympy object | Expr container

    def h_expand_itmd(self, sx, a, kw):
        b = sx.bind(self.model.fn(f"{MOD}:RegisteredIntermediate.expand_itmd"), a, kw, False, True, True)
        n, idx = self._validated(b["self"], b.get("indices"), "expand_itmd")
        full = b.get("fully_expand")
        if not isinstance(full, bool):
            raise AnalysisError(f"{self.current}: expand_itmd(fully_expand={full!r})")
        rs = b.get("return_sympy")
        if not isinstance(rs, bool):
            raise AnalysisError(f"{self.current}: expand_itmd(return_sympy={rs!r})")
        p = self.expansion(n, idx, full)
        return p if rs else XPoly(p.terms, tuple(idx), self.kinds)

    def expansion(self, n, idx, full):
        """what ``<n>.expand_itmd(indices=idx, fully_expand=full)`` returns: the cached base expression with the targets
        substituted and every declared contracted index replaced by a fresh (generic) one"""
        d = definition_sx(self.ctx, n, full)
        if isinstance(d, _Typing):
            raise _Typing(f"{self.current}: the referenced definition {n} is ill-typed ({d.msg})", d.node)
        poly, target, contracted = d
        mp = dict(zip(target, idx))
        for c in contracted or ():
            self.fresh += 1
            mp[c] = f"{BASE[{'o': 'occ', 'v': 'virt', 'g': 'general'}[space_of(c)]][0]}{1000 + self.fresh}"
        return poly.rename(mp)

    def h_expr(self, sx, a, kw):
        m = sx.find_method("expr_container:Expr", "__init__")
        b = sx.bind(m[0], a, kw, True, True, True) if m else dict(e=a[0], **kw)
        params = list(b)
        x = b[params[0]]
        tgt = b.get("target_idx")
        p = Poly.lift(x) if not isinstance(x, TensorVal) else None
        if p is None:
            raise AnalysisError(f"{self.current}: Expr({x!r}) outside the formula IR")
        return XPoly(list(p.terms), None if tgt is None else tuple(names(tgt if isinstance(tgt, str) else list(tgt))),
                     self.kinds)

    # ------------------------------------------------------ model of Poly methods
    def attr_hook(self, sx, obj, attr, node):
        if isinstance(obj, Obj) and "_fields" in obj.attrs:
            return NotImplemented
        if isinstance(obj, _Ref):
            return obj.attrs.get(attr, NotImplemented)
        if not isinstance(obj, Poly):
            return NotImplemented
        box = isinstance(obj, XPoly)  # Expr container (mutable) | sympy object (immutable value)
        cur = Poly(list(obj.terms))

        def out(method, poly):
            return obj.result(method, poly) if box else poly

        if attr == "sympy":
            if not box:
                return NotImplemented  # sympy objects have no .sympy
            return cur
        if attr in ("copy", "expand", "doit"):
            return lambda s, a, kw: out(attr, cur)
        if attr == "permute":
            if not box:
                return NotImplemented  # only the containers know permute

            def permute(s, a, kw):
                for p in a:
                    if not (isinstance(p, (tuple, list)) and len(p) == 2):
                        raise AnalysisError(f"{self.current}: permute({a!r}) not understood")
                return out("permute", cur.permute(*[tuple(names(list(p))) for p in a]))
            return permute
        if attr == "subs":
            def subs(s, a, kw):
                pairs = a[0].items() if a and isinstance(a[0], dict) else a[0] if len(a) == 1 else [tuple(a)] if len(a) == 2 else None
                try:
                    pairs = list(pairs)
                    mp = {names([k])[0]: names([v])[0] for k, v in pairs}
                except (TypeError, ValueError):
                    raise AnalysisError(f"{self.current}: subs argument not understood")
                if len(mp) != len(pairs):
                    raise AnalysisError(f"{self.current}: subs with a repeated key")
                if kw.get("simultaneous") is not True and set(mp) & set(mp.values()) and any(k != v for k, v in mp.items()):
                    raise AnalysisError(f"{self.current}: subs of overlapping indices without simultaneous=True")
                return out("subs", cur.rename(mp))
            return subs
        if attr == "substitute_contracted":
            if not box:
                return NotImplemented
            return lambda s, a, kw: out("substitute_contracted", substitute_contracted(cur, obj.target, self.current))
        if attr == "atoms":
            def atoms(s, a, kw):
                if len(a) != 1 or not (isinstance(a[0], ClassRef) and a[0].short == "Index"):
                    raise AnalysisError(f"{self.current}: atoms({a!r}) outside the formula IR")
                return set(cur.indices())
            return atoms
        return NotImplemented

    # ---------------------------------------------------------------- driving
    def run(self, fn, args, what):
        self.current = what
        self.sx.what = what
        outs = self.sx.run(fn, lambda: dict(args))
        if len(outs) != 1:
            raise AnalysisError(f"{what}: {len(outs)} evaluation paths on concrete input")
        return outs[0]

    def class_attr(self, cname, attr):
        cr = ClassRef(self.mod, cname)
        outs = self.sx._explore(lambda: self.sx.getattr(cr, attr, None))
        return outs[0].value


EXPR_METHODS = ("permute", "subs", "expand", "doit", "copy", "substitute_contracted",
                "__add__", "__sub__", "__mul__", "__truediv__", "__radd__", "__rsub__", "__rmul__", "__rtruediv__",
                "__iadd__", "__isub__", "__imul__", "__itruediv__")


def expr_method_kinds(ctx):
    """How the methods of expr_container.Expr treat the container, read off their source by abstract evaluation on an
    abstract ``self``: 'inplace' (every returning path returns ``self`` and some path assigns ``self._expr``), 'fresh'
    (every returning path returns a new ``Expr(...)`` and none assigns ``self._expr``), None (anything else / missing)."""
    key = ("expr-kinds", ctx.model.digest)
    if key in _CACHE:
        return _CACHE[key]
    from ..terms import T, sym, args_of
    model = ctx.model
    model.module("expr_container")
    inl = {f"expr_container:{c}.{m}" for c in ("Expr", "Container") for m in EXPR_METHODS + ("sympy",)}
    kinds = {}
    for meth in EXPR_METHODS:
        sx = Symex(model, inline=lambda q: q in inl, what=f"Expr.{meth}", max_paths=256)
        found = sx.find_method("expr_container:Expr", meth)
        if found is None:
            kinds[meth] = None
            continue
        fn = found[0]
        params = [a.arg for a in fn.args.args][1:]
        objs = []

        def make(fn=fn, params=params, objs=objs):
            o = Obj("expr_container:Expr", "self", _expr=sym("E0"))
            objs.append(o)
            d = dict(self=o)
            for p in params:
                d[p] = sym(p.upper())
            if fn.args.vararg:
                d[fn.args.vararg.arg] = ((sym("P"), sym("Q")),)
            if fn.args.kwarg:
                d[fn.args.kwarg.arg] = {}
            return d
        outs = sx.run(fn, make)
        if len(outs) != len(objs):
            raise AnalysisError(f"Expr.{meth}: evaluation paths lost")
        rets = [(o, me) for o, me in zip(outs, objs) if o.kind == "return"]
        if not rets:
            kinds[meth] = None
            continue
        changed = [me.attrs.get("_expr") != sym("E0") for _, me in rets]
        if all(o.value is me for o, me in rets) and any(changed):
            kinds[meth] = "inplace"
        elif all(isinstance(o.value, T) and o.value.op == "call" and o.value.args[0] == "Expr" for o, _ in rets) \
                and not any(changed):
            kinds[meth] = "fresh"
            if meth == "copy" and any(list(args_of(o.value).values())[:1] != [sym("E0")] for o, _ in rets):
                kinds[meth] = None  # a copy that does not wrap the same expression
        else:
            kinds[meth] = None
    _CACHE[key] = kinds
    return kinds


def einstein_target(poly):
    """indices occurring exactly once outside denominators (must agree for all terms)"""
    tg = None
    for c, fs in poly.terms:
        if c == 0:
            continue
        cnt = {}
        for f in fs:
            if f[0] == "denom":
                continue
            for i in _factor_indices(f):
                cnt[i] = cnt.get(i, 0) + 1
        t = frozenset(i for i, n in cnt.items() if n == 1)
        if tg is None:
            tg = t
        elif tg != t:
            raise AnalysisError("terms with different target indices")
    return tuple(sorted(tg or (), key=CANON_KEY))


def substitute_contracted(poly, target, what="?"):
    """Term.substitute_contracted: per term and space the contracted indices are renamed to the lowest available
    names that are not target names"""
    if target is None:
        target = einstein_target(poly)
    tset = set(target)
    out = []
    for c, fs in poly.terms:
        idx = []
        for f in fs:
            for i in _factor_indices(f):
                if i not in tset and i not in idx:
                    idx.append(i)
        mp = {}
        for sp, letters in (("o", BASE["occ"]), ("v", BASE["virt"]), ("g", BASE["general"])):
            mine = sorted((i for i in idx if space_of(i) == sp), key=CANON_KEY)
            k = 0
            for i in mine:
                while True:
                    cand = letters[k % len(letters)] + (str(k // len(letters)) if k >= len(letters) else "")
                    k += 1
                    if cand not in tset:
                        break
                mp[i] = cand
        out += Poly([(c, fs)]).rename(mp).terms
    return Poly(out)


# ---------------------------------------------------------------------------
# class table


def registry_sx(ctx):
    key = ("reg", ctx.model.digest)
    if key in _CACHE:
        ctx.model.used_modules.add(MOD)
        return _CACHE[key]
    ev = _Eval(ctx)
    m = ev.mod
    out = {}
    for cname, cls in m.classes.items():
        if "RegisteredIntermediate" not in ev.sx._bases(f"{MOD}:{cname}"):
            continue
        itype, order, didx = (ev.class_attr(cname, a) for a in ("_itmd_type", "_order", "_default_idx"))
        if not isinstance(itype, str) or not isinstance(order, int) or isinstance(order, bool):
            raise AnalysisError(f"{cname}: _itmd_type/_order do not evaluate to a string / an integer")
        try:
            didx = tuple(names(didx if isinstance(didx, str) else list(didx)))
        except (TypeError, AnalysisError):
            raise AnalysisError(f"{cname}: _default_idx does not evaluate to index names")
        if len(set(didx)) != len(didx):
            raise AnalysisError(f"{cname}: repeated default index")
        build = ev.sx.find_method(f"{MOD}:{cname}", "_build_expanded_itmd")  # own or inherited
        bt = ev.sx.find_method(f"{MOD}:{cname}", "_build_tensor")
        if build is None or bt is None:
            raise AnalysisError(f"{cname}: _build_expanded_itmd/_build_tensor missing")
        build, bt = build[0], bt[0]
        me = _itmd_obj(cname, "self", didx, order, itype)
        o = ev.run(bt, dict(self=me, indices=didx), f"{cname}._build_tensor")
        t = o.value
        if o.kind != "return" or not isinstance(t, TensorVal):
            raise AnalysisError(f"{cname}._build_tensor does not return a tensor ({o.kind} {t!r})")
        pos = {n: k for k, n in enumerate(didx)}
        try:
            if t.kind == "NonSymmetricTensor":
                groups_pos = [[pos[n] for n in t.upper]]
            else:
                groups_pos = [[pos[n] for n in t.upper], [pos[n] for n in t.lower]]
        except KeyError:
            raise AnalysisError(f"{cname}._build_tensor uses foreign indices: {t!r}")
        allpos = sorted(p for g in groups_pos for p in g)
        cfg, ext = None, ""
        mm = re.fullmatch(r"\{(\w+)\}(.*)", t.name)
        if mm:
            cfg, ext = mm.group(1), mm.group(2)
        out[cname] = {
            "cls": cls, "itmd_type": itype, "order": order, "default_idx": didx, "build": build, "build_tensor": bt,
            "tensor_kind": t.kind, "tensor_name_literal": None if mm else t.name, "tensor_name_cfg": cfg,
            "tensor_ext": ext, "groups": [[didx[p] for p in g] for g in groups_pos], "groups_pos": groups_pos,
            "bra_ket_sym": t.bra_ket_sym, "partition_ok": allpos == list(range(len(didx))),
            "slices": [tuple(g) for g in groups_pos],
        }
    if len(out) < 5:
        raise AnalysisError("no registered intermediates found")
    _CACHE[key] = out
    return out


# ---------------------------------------------------------------------------
# definitions


def definition_sx(ctx, name, fully_expand=False):
    """-> (Poly, target names, contracted names | None)  or the _Typing error of the definition"""
    key = ("def", ctx.model.digest, name, fully_expand)
    if key in _CACHE:
        return _CACHE[key]
    if ("busy",) + key in _CACHE:
        raise AnalysisError(f"{name}: the definitions reference each other cyclically")
    _CACHE[("busy",) + key] = True
    try:
        r = _definition(ctx, name, fully_expand)
    except _Typing as t:
        r = t
    finally:
        del _CACHE[("busy",) + key]
    _CACHE[key] = r
    return r


def _itmd_obj(cname, label, didx, order, itype):
    o = Obj(f"{MOD}:{cname}", label, default_idx=didx, order=order, itmd_type=itype, _default_idx=didx, _order=order,
            _itmd_type=itype)
    o.attrs["name"] = cname
    return o


def _self_obj(reg, name):
    registry_val = {}
    for n, inf in reg.items():
        registry_val.setdefault(inf["itmd_type"], {})[n] = _itmd_obj(n, n, inf["default_idx"], inf["order"],
                                                                     inf["itmd_type"])
    me = registry_val[reg[name]["itmd_type"]][name]
    for tbl in registry_val.values():
        for o in tbl.values():
            o.attrs["_registry"] = registry_val
    return me


def _definition(ctx, name, fully_expand):
    reg = registry_sx(ctx)
    info = reg[name]
    ev = _Eval(ctx, reg)
    what = f"{name}._build_expanded_itmd({'fully_expand' if fully_expand else 'once'})"
    o = ev.run(info["build"], dict(self=_self_obj(reg, name), fully_expand=fully_expand), what)
    if o.kind == "raise":
        if o.exc == "Inputerror":
            raise _Typing(f"{name}: an integral is built with the wrong number of indices (Inputerror raised)", info["build"])
        raise AnalysisError(f"{what} raises {o.exc}")
    val = o.value
    if not (isinstance(val, Obj) and val.attrs.get("_fields") == ("expr", "target", "contracted")):
        raise AnalysisError(f"{what} did not return base_expr(expr, target, contracted) ({val!r})")
    expr, target, contracted = val.attrs["expr"], val.attrs["target"], val.attrs["contracted"]
    if isinstance(expr, TensorVal):
        raise _Typing(f"{name}: the definition contains the tensor {expr!r}, which is not an integral the formula IR knows "
                      "(eri: antisymmetric 2/2, fock: antisymmetric 1/1, orb_energy: one index)", info["build"])
    try:
        expr = Poly(Poly.lift(expr).terms)
        target = names(list(target))
        contracted = None if contracted is None else names(list(contracted))
    except (TypeError, AnalysisError) as e:
        raise AnalysisError(f"{what}: returned value not understood ({e})")
    return expr, target, contracted


# ---------------------------------------------------------------------------
# integral builders


def builder(ctx, fname, idx):
    """value of eri/fock/orb_energy(idx): ('value', Poly | TensorVal) or ('raise', exception name)"""
    ev = _Eval(ctx)
    fn = ctx.model.fn(f"{MOD}:{fname}")
    o = ev.run(fn, dict(idx=idx), f"{fname}({idx!r})")
    if o.kind == "raise":
        return "raise", o.exc
    return "value", o.value


def substituted(ctx, poly, reg, what="?"):
    """every reference of an intermediate in ``poly`` replaced by its fully expanded definition (as expand_itmd does)"""
    ev = _Eval(ctx, reg)
    ev.current = what
    out = []
    for c, fs in poly.terms:
        acc = Poly([(c, ())])
        for f in fs:
            if f[0] == "itmd":
                acc = acc * ev.expansion(f[1], list(f[2]), True)
            else:
                acc = acc * Poly([(Fraction(1), (f,))])
        out += acc.terms
    return Poly(out)


# ---------------------------------------------------------------------------
# spin blocks


def spin_blocks(poly, target, allowed):
    """blocks (strings over 'ab' in the order of ``target``) on which ``poly`` does not vanish by the spin restrictions of
    its factors: a block survives when, for at least one term, the summation indices can be given spins such that every
    factor is on one of its own non-vanishing blocks.  ``allowed(factor)`` -> None (no restriction) or
    predicate(tuple of spins of the indices of the factor, in the order of the factor)"""
    import itertools
    target = list(target)
    out = set()
    terms = []
    for c, fs in poly.terms:
        if c == 0:
            continue
        cons = []
        for f in fs:
            if f[0] == "denom":
                continue
            p = allowed(f)
            if p is not None:
                cons.append((_factor_indices(f), p))
        free = sorted({i for idx, _ in cons for i in idx} - set(target))
        terms.append((cons, free))
    for block in itertools.product("ab", repeat=len(target)):
        spin = {}
        ok = True
        for i, s in zip(target, block):
            if spin.setdefault(i, s) != s:
                ok = False  # a repeated target index cannot carry two spins
        if not ok:
            continue
        for cons, free in terms:
            hit = False
            for fb in itertools.product("ab", repeat=len(free)):
                sp = dict(spin)
                sp.update(zip(free, fb))
                if all(p(tuple(sp[i] for i in idx)) for idx, p in cons):
                    hit = True
                    break
            if hit:
                out.add("".join(block))
                break
    return out


def _conserving(n_first):
    return lambda s: s[:n_first].count("a") == s[n_first:].count("a")


def expected_spin_blocks(ctx, name):
    """non-vanishing blocks of the definition of ``name`` (default index order) by spin conservation of the integrals:
    <pq||rs> needs as many alpha spins in pq as in rs, f_pq equal spins, orbital energies are unrestricted; a referenced
    intermediate is restricted to the blocks obtained in the same way from its own definition"""
    key = ("spin-expected", ctx.model.digest, name)
    if key in _CACHE:
        return _CACHE[key]
    d = definition_sx(ctx, name, False)
    if isinstance(d, _Typing):
        raise AnalysisError(f"{name}: ill-typed definition, spin blocks undefined")
    poly, target, _ = d

    def allowed(f):
        if f[0] == "eri":
            return _conserving(2)
        if f[0] == "fock":
            return _conserving(1)
        if f[0] == "e":
            return None
        if f[0] == "itmd":
            blocks = expected_spin_blocks(ctx, f[1])
            return lambda s: "".join(s) in blocks
        raise AnalysisError(f"spin blocks: factor {f!r}")
    r = spin_blocks(poly, target, allowed)
    _CACHE[key] = r
    return r


class _SpinEval(_Eval):
    """evaluates RegisteredIntermediate.allowed_spin_blocks; spatial_orbitals.allowed_spin_blocks is vocabulary,
    modelled by its contract (a block survives when the indices can be given spins such that every object is on one of
    the blocks its own Obj.allowed_spin_blocks lists; objects without known blocks do not restrict; an index that only
    sits on such objects makes the library give up); Obj.allowed_spin_blocks itself is evaluated (object_spin_blocks)"""

    def __init__(self, ctx, reg):
        super().__init__(ctx, reg)
        self.sx.hooks["RegisteredIntermediate.tensor"] = self.h_tensor_obj
        self.sx.hooks["spatial_orbitals:allowed_spin_blocks"] = self.h_spin_blocks

    def h_tensor_obj(self, sx, a, kw):
        b = sx.bind(self.model.fn(f"{MOD}:RegisteredIntermediate.tensor"), a, kw, False, True, True)
        n, idx = self._validated(b["self"], b.get("indices"), "tensor")
        if b.get("return_sympy") is not True:
            raise AnalysisError(f"{self.current}: tensor() wrapped in Expr is outside the spin block model")
        inf = self.reg[n]
        kind = inf["tensor_kind"]
        groups = [tuple(idx[p] for p in g) for g in inf["groups_pos"]]
        classes = (kind,) + tuple(sorted(sx._bases(f"sympy_objects:{kind}")))
        name = inf["tensor_name_literal"] or (_marker(inf["tensor_name_cfg"]) + inf["tensor_ext"])
        if kind == "NonSymmetricTensor":
            return Obj(None, f"tensor({n})", _classes=classes, indices=groups[0], idx=groups[0])
        o = Obj(None, f"tensor({n})", _classes=classes, upper=groups[0], lower=groups[1], bra_ket_sym=inf["bra_ket_sym"])
        o.attrs["name"] = name
        o.attrs["idx"] = (groups[1] + groups[0]) if kind == "Amplitude" else (groups[0] + groups[1])
        return o

    def object_blocks(self, f):
        return object_spin_blocks(self.ctx, self.reg, f)

    def h_spin_blocks(self, sx, a, kw):
        b = sx.bind(self.model.fn("spatial_orbitals:allowed_spin_blocks"), a, kw, False, True, True)
        expr, tgt = b.get("expr"), b.get("target_idx")
        if not isinstance(expr, Poly):
            raise AnalysisError(f"{self.current}: allowed_spin_blocks({expr!r}, ..) outside the spin block model")
        tgt = names(tgt if isinstance(tgt, str) else list(tgt))
        try:
            other = set(einstein_target(expr)) != set(tgt)
        except AnalysisError:
            other = True
        if other:
            raise Raised("ValueError", None, None)  # the library refuses terms with other target indices

        def allowed(f):
            blocks = self.object_blocks(f)
            if blocks is None:
                return None
            return lambda s: "".join(s) in blocks
        for c, fs in expr.terms:
            covered = set()
            for f in fs:
                if f[0] != "denom" and allowed(f) is not None:
                    covered |= set(_factor_indices(f))
            if c != 0 and {i for f in fs if f[0] != "denom" for i in _factor_indices(f)} - covered:
                # an index (target or not) that only sits on tensors without known blocks is never assigned a spin by
                # an object: the library gives up ("Not all indices were assigned to a spin")
                raise Raised("RuntimeError", None, None)
        return tuple(sorted(spin_blocks(expr, tgt, allowed)))


def object_spin_blocks(ctx, reg, f):
    """value of ``expr_container.Obj.allowed_spin_blocks`` (evaluated) for the tensor object of the factor ``f``: set of
    block strings in the order the tensor lists its indices, None = no known restriction; raises ``Raised``"""
    kind = f[0]
    if kind == "itmd":
        inf = reg[f[1]]
        tk = inf["tensor_kind"]
        tname = inf["tensor_name_literal"] or (_marker(inf["tensor_name_cfg"]) + inf["tensor_ext"])
        nidx = len(inf["default_idx"])
        key = ("obj-spin", ctx.model.digest, "itmd", f[1])
    else:
        tk, tname, nidx = {"eri": ("AntiSymmetricTensor", _marker("eri"), 4), "fock": ("AntiSymmetricTensor", _marker("fock"), 2),
                           "e": ("NonSymmetricTensor", _marker("orb_energy"), 1)}[kind]
        key = ("obj-spin", ctx.model.digest, kind)
    if key in _CACHE:
        r = _CACHE[key]
        if isinstance(r, Raised):
            raise r
        return r
    idx = tuple("pqrstuvw"[:nidx])
    ev = _Eval(ctx, reg)
    fn = ctx.model.fn("expr_container:Obj.allowed_spin_blocks")

    def lookup(sx, a, kw):
        o = Obj(None, "Intermediates()")
        avail = {}
        if kind == "itmd":
            d = declared_spin_blocks(ctx, f[1])
            if d is None:
                raise Raised("RuntimeError", None, None)
            avail[f[1]] = _Ref(f[1], allowed_spin_blocks=tuple(sorted(d)))
        o.attrs["available"] = avail
        return o
    ev.sx.hooks["Intermediates"] = lookup
    ev.sx.hooks["longname"] = lambda sx, a, kw: f[1] if kind == "itmd" else "<no intermediate>"
    ev.sx.hooks["is_t_amplitude"] = lambda sx, a, kw: bool(re.fullmatch(r"\{gs_amplitude\}\d*(cc)?", str(a[0])))
    base = Obj(f"sympy_objects:{tk}", "tensor", idx=idx)
    base.attrs["name"] = tname
    me = Obj("expr_container:Obj", "obj", idx=idx, base=base)
    try:
        o = ev.run(fn, dict(self=me), f"Obj.allowed_spin_blocks of {tname}")
        if o.kind == "raise":
            raise Raised(o.exc, None, None)
    except Raised as r:
        _CACHE[key] = r
        raise
    v = o.value
    if v is not None:
        if not isinstance(v, (tuple, list)) or any(not (isinstance(x, str) and len(x) == nidx and set(x) <= {"a", "b"}) for x in v):
            raise AnalysisError(f"Obj.allowed_spin_blocks of {tname} evaluates to {v!r}")
        v = set(v)
    _CACHE[key] = v
    return v


def declared_spin_blocks(ctx, name):
    """value of ``<name>.allowed_spin_blocks`` (set of block strings in default index order)"""
    key = ("spin-declared", ctx.model.digest, name)
    if key in _CACHE:
        return _CACHE[key]
    if ("busy",) + key in _CACHE:
        raise AnalysisError(f"{name}: allowed_spin_blocks refers to itself")
    _CACHE[("busy",) + key] = True
    try:
        reg = registry_sx(ctx)
        ev = _SpinEval(ctx, reg)
        m = ev.sx.find_method(f"{MOD}:{name}", "allowed_spin_blocks")
        if m is None:
            raise AnalysisError(f"{name}: allowed_spin_blocks not found")
        o = ev.run(m[0], dict(self=_self_obj(reg, name)), f"{name}.allowed_spin_blocks")
        if o.kind != "return":
            if o.exc == "RuntimeError":
                _CACHE[key] = None  # no blocks declared (the library cannot determine them)
                return None
            raise AnalysisError(f"{name}.allowed_spin_blocks raises {o.exc}")
        v = o.value
        n = len(reg[name]["default_idx"])
        if not isinstance(v, (tuple, list, set, frozenset)) or \
                any(not (isinstance(x, str) and len(x) == n and set(x) <= {"a", "b"}) for x in v):
            raise AnalysisError(f"{name}.allowed_spin_blocks does not evaluate to spin block strings of length {n}: {v!r}")
        r = set(v)
    finally:
        del _CACHE[("busy",) + key]
    _CACHE[key] = r
    return r
