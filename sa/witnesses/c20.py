S = "simplify.py"
E = "expr_container.py"
F = "func.py"

_IF1 = ("            if idx1[0] == idx2[0] and idx1[0] not in target and \\\n"
        "                    idx_counter[idx1[0]] == 2:")
_IF2 = ("            elif idx1[1] == idx2[1] and idx1[1] not in target and \\\n"
        "                    idx_counter[idx1[1]] == 2:")
_BRANCHES = (_IF1 + "\n                delta = KroneckerDelta(idx1[1], idx2[1])\n            # U_qp U_rp = delta_qr\n" + _IF2 +
             "\n                delta = KroneckerDelta(idx1[0], idx2[0])\n            else:  # no matching indices\n                continue\n")
_LOWER = ("            if i1 == i2:\n"
          "                base, exponent = obj[i1].base_and_exponent\n"
          "                new_term *= Pow(base, exponent - 2)\n"
          "            else:\n"
          "                b1, exponent1 = obj[i1].base_and_exponent\n"
          "                b2, exponent2 = obj[i2].base_and_exponent\n"
          "                new_term *= Pow(b1, exponent1 - 1)\n"
          "                new_term *= Pow(b2, exponent2 - 1)\n")
_REST = ("            for i, o in enumerate(obj):\n"
         "                if i == i1 or i == i2:\n"
         "                    continue\n"
         "                else:\n"
         "                    new_term *= o\n")

_EVD_KILL = ("                expr = expr.subs(killable, preferred)\n"
             "                if len(deltas) > 1:\n"
             "                    return evaluate_deltas(expr, target_idx)")
_EVD_PREF = ("                expr = expr.subs(preferred, killable)\n"
             "                if len(deltas) > 1:\n"
             "                    return evaluate_deltas(expr, target_idx)")

# the repaired end of simplify_term_unitary (F56); witnesses anchored on it are skipped as long as /repo does not have the fix
_F56 = ("            if len(new_term) == 1:\n"
        "                return simplify_term_unitary(new_term.terms[0])\n"
        "            res = e.Expr(0, **term.assumptions)\n"
        "            for new_t in new_term.terms:\n"
        "                res += simplify_term_unitary(new_t)\n"
        "            return res\n")

WITNESSES = [
    # ------------------------------------------------------------------ breaking edits
    dict(id="c20-target-guard", prop="C20", file=S, expect="R20a",
         old=_IF1, new="            if idx1[0] == idx2[0] and \\\n                    idx_counter[idx1[0]] == 2:"),
    dict(id="c20-counter-guard", prop="C20", file=S, expect="R20a",
         old=_IF2, new="            elif idx1[1] == idx2[1] and idx1[1] not in target:"),
    dict(id="c20-counter-ge", prop="C20", file=S, expect="R20a",
         old=_IF1, new="            if idx1[0] == idx2[0] and idx1[0] not in target and \\\n                    idx_counter[idx1[0]] >= 2:"),
    dict(id="c20-wrong-position", prop="C20", file=S, expect="R20a",
         old="                delta = KroneckerDelta(idx1[0], idx2[0])", new="                delta = KroneckerDelta(idx1[0], idx2[1])"),
    dict(id="c20-counter-other-index", prop="C20", file=S, expect="R20a",
         old=_IF2, new="            elif idx1[1] == idx2[1] and idx1[1] not in target and \\\n                    idx_counter[idx1[0]] == 2:"),
    dict(id="c20-exponent", prop="C20", file=S, expect="R20b",
         old="                new_term *= Pow(base, exponent - 2)", new="                new_term *= Pow(base, exponent - 1)"),
    dict(id="c20-rest-dropped", prop="C20", file=S, expect="R20b",
         old="                if i == i1 or i == i2:\n                    continue", new="                if i <= i1 or i == i2:\n                    continue"),
    dict(id="c20-counter-source", prop="C20", file=S, expect="R20c",
         old="        idx_counter = Counter(term.idx)", new="        idx_counter = Counter(term.contracted)"),
    dict(id="c20-idx-counter-abs", prop="C20", file=E, expect="R20c",
         old="            n = abs(o.exponent)  # abs value for denominators", new="            n = 1"),
    # new checks of the re-founded module
    dict(id="c20-mixed-positions", prop="C20", file=S, expect="R20a",
         old="            else:  # no matching indices\n                continue\n",
         new="            elif idx1[0] == idx2[1] and idx1[0] not in target and \\\n                    idx_counter[idx1[0]] == 2:\n"
             "                delta = KroneckerDelta(idx1[1], idx2[0])\n            else:  # no matching indices\n                continue\n"),
    dict(id="c20-second-exponent-kept", prop="C20", file=S, expect="R20",
         old="                new_term *= Pow(b2, exponent2 - 1)", new="                new_term *= Pow(b2, exponent2)"),
    dict(id="c20-assumptions-dropped", prop="C20", file=S, expect="R20b",
         old="            new_term = e.Expr(delta, **term.assumptions)", new="            new_term = e.Expr(delta)"),
    dict(id="c20-result-assumptions-dropped", prop="C20", file=S, expect="R20",
         old="    res = e.Expr(0, **expr.assumptions)", new="    res = e.Expr(0)"),
    dict(id="c20-name-prefix", prop="C20", file=S, expect="R20c",
         old="if o.name == t_name", new="if o.name is not None and o.name.startswith(t_name)"),
    dict(id="c20-name-ignored-case", prop="C20", file=S, expect="R20c",
         old="if o.name == t_name", new="if o.name is not None and o.name.lower() == t_name.lower()"),
    dict(id="c20-exponent-multiplicity", prop="C20", file=S, expect=["R20b", "R20c"],
         old="        unitary_tensors = [i for i, o in enumerate(obj) if o.name == t_name\n                           for _ in range(o.exponent)]",
         new="        unitary_tensors = [i for i, o in enumerate(obj) if o.name == t_name]"),
    dict(id="c20-evaluate-always", prop="C20", file=S, expect="R20c",
         old="    if evaluate_deltas:\n", new="    if evaluate_deltas is not None:\n"),
    dict(id="c20-evaluate-never", prop="C20", file=S, expect="R20c",
         old="    if evaluate_deltas:\n", new="    if evaluate_deltas is None:\n"),
    dict(id="c20-evaluate-no-targets", prop="C20", file=S, expect="R20c",
         old="func.evaluate_deltas(res.sympy, res.provided_target_idx)", new="func.evaluate_deltas(res.sympy, \"\")"),
    dict(id="c20-evaluate-container", prop="C20", file=S, expect="R20c",
         old="func.evaluate_deltas(res.sympy, res.provided_target_idx)", new="func.evaluate_deltas(res, res.provided_target_idx)"),
    dict(id="c20-evaluate-per-term", prop="C20", file=S, expect="R20c",
         old="        res += simplify_term_unitary(term)\n",
         new="        res += func.evaluate_deltas(simplify_term_unitary(term).sympy)\n"),
    dict(id="c20-type-guard", prop="C20", file=S, expect="R20b",
         old="    if not isinstance(expr, e.Expr):\n        raise TypeError(f\"Expr needs to be provided as {e.Expr}.\")\n\n    res = e.Expr(0, **expr.assumptions)",
         new="    res = e.Expr(0, **expr.assumptions)"),
    dict(id="c20-no-recursion", prop="C20", file=S, expect="R20b",
         old="            return simplify_term_unitary(new_term.terms[0])", new="            return new_term.terms[0]"),
    dict(id="c20-need-three", prop="C20", file=S, expect="R20",
         old="        if len(unitary_tensors) < 2:", new="        if len(unitary_tensors) <= 2:"),
    dict(id="c20-one-index-accepted", prop="C20", file=S, expect="R20a",
         old="        if any(len(obj[i].idx) != 2 for i in unitary_tensors):", new="        if any(len(obj[i].idx) > 2 for i in unitary_tensors):"),
    dict(id="c20-three-index-accepted", prop="C20", file=S, expect="R20a",
         old="        if any(len(obj[i].idx) != 2 for i in unitary_tensors):", new="        if any(len(obj[i].idx) < 2 for i in unitary_tensors):"),
    dict(id="c20-last-term-only", prop="C20", file=S, expect="R20b",
         old="        res += simplify_term_unitary(term)\n", new="        res = simplify_term_unitary(term)\n"),
    dict(id="c20-first-pair-only", prop="C20", file=S, expect="R20",
         old="            else:  # no matching indices\n                continue\n", new="            else:  # no matching indices\n                break\n"),
    dict(id="c20-term-target-einstein", prop="C20", file=E, expect="R20",
         old="            return target\n        else:\n            return tuple(s for s, n in self._idx_counter if not n)",
         new="            return tuple(s for s, n in self._idx_counter if not n)\n        else:\n            return tuple(s for s, n in self._idx_counter if not n)"),
    dict(id="c20-term-idx-once", prop="C20", file=E, expect="R20c",
         old="        return tuple(s for s, n in self._idx_counter for _ in range(n + 1))",
         new="        return tuple(s for s, n in self._idx_counter)"),
    dict(id="c20-seed-remainder-only", prop="C20", file=S, expect="R20",
         edits=[("        idx_counter = Counter(term.idx)\n",
                 "        remainder_idx = {s for i, o in enumerate(obj)\n                         if i not in unitary_tensors for s in o.idx}\n"),
                ("                    idx_counter[idx1[0]] == 2:", "                    idx1[0] not in remainder_idx:"),
                ("                    idx_counter[idx1[1]] == 2:", "                    idx1[1] not in remainder_idx:"),
                ("all(idx_counter[s] == 2 for s in idx1)", "all(s not in remainder_idx for s in idx1)"),
                ("any(idx_counter[s] == 2 for s in delta.idx)", "any(s not in remainder_idx for s in delta.idx)")]),
    dict(id="c20-seed-einstein-targets", prop="C20", file=S, expect="R20",
         edits=[("        target = term.target\n        idx_counter = Counter(term.idx)\n",
                 "        idx_counter = Counter(term.idx)\n        target = {s for s, n in idx_counter.items() if n == 1}\n")]),
    # reverts of the fixes 85db5b6 / 1b02e68 (findings of this module) and variants of the repaired guards
    dict(id="c20-square-revert", prop="C20", file=S, expect="R20a",
         old="            # both indices are shared and occur nowhere else: the delta\n"
             "            # would be 1 and the remaining index (and its sum) would be lost\n"
             "            if idx1 == idx2 and all(idx_counter[s] == 2 for s in idx1):\n                continue\n",
         new=""),
    dict(id="c20-evaluate-einstein-revert", prop="C20", file=S, expect="R20c",
         old="        res = e.Expr(\n            func.evaluate_deltas(res.sympy, res.provided_target_idx),\n            **res.assumptions\n        )\n",
         new="        res = e.Expr(func.evaluate_deltas(res.sympy), **res.assumptions)\n"),
    dict(id="c20-square-guard-any", prop="C20", file=S, expect="R20",
         old="if idx1 == idx2 and all(idx_counter[s] == 2 for s in idx1):", new="if idx1 == idx2 and any(idx_counter[s] == 2 for s in idx1):"),
    dict(id="c20-square-guard-every-pair", prop="C20", file=S, expect="R20",
         old="if idx1 == idx2 and all(idx_counter[s] == 2 for s in idx1):", new="if all(idx_counter[s] == 2 for s in idx1):"),
    dict(id="c20-square-guard-never", prop="C20", file=S, expect="R20a",
         old="if idx1 == idx2 and all(idx_counter[s] == 2 for s in idx1):", new="if idx1 == idx2 and all(idx_counter[s] == 1 for s in idx1):"),
    dict(id="c20-evaluate-term-targets", prop="C20", file=S, expect="R20c",
         old="func.evaluate_deltas(res.sympy, res.provided_target_idx)", new="func.evaluate_deltas(res.sympy, ())"),
    # seeded change C20-3 on the repaired code (the seeded patch itself no longer applies): targets handed over as a
    # string of index names, which drops the spin labels
    dict(id="c20-seed-name-string-targets", prop="C20", file=S, expect="R20c",
         edits=[("    res = e.Expr(0, **expr.assumptions)\n    for term in expr.terms:\n",
                 "    res = e.Expr(0, **expr.assumptions)\n    target = set()\n    for term in expr.terms:\n        target.update(term.target)\n"),
                ("func.evaluate_deltas(res.sympy, res.provided_target_idx)",
                 "func.evaluate_deltas(res.sympy, \"\".join(sorted(s.name for s in target)))")]),
    # seeded change C20-1 as it stands after the fix 85db5b6 (idx_counter no longer defined: NameError on every eligible pair)
    dict(id="c20-seed-remainder-nameerror", prop="C20", file=S, expect="R20",
         edits=[("        idx_counter = Counter(term.idx)\n",
                 "        remainder_idx = {s for i, o in enumerate(obj)\n                         if i not in unitary_tensors for s in o.idx}\n"),
                ("                    idx_counter[idx1[0]] == 2:", "                    idx1[0] not in remainder_idx:"),
                ("                    idx_counter[idx1[1]] == 2:", "                    idx1[1] not in remainder_idx:")]),
    # reverts of the fixes d75a3e8 (F30, func.evaluate_deltas) and 87d0b39 (F31, simplify_unitary) and variants of the guards
    dict(id="c20-f30-trace-delta-revert", prop="C20", file=F, expect="R20c", old="                # both indices are contracted and do only occur on the delta:\n                # sum_pq delta_pq gives the dimension of the space and not 1\n                # -> no index can be removed without loosing the sum\n                if preferred not in target_idx and not any(\n                        obj.has(preferred) or obj.has(killable)\n                        for obj in expr.args if obj is not d):\n                    continue\n", new=""),
    dict(id="c20-f31-present-delta-revert", prop="C20", file=S, expect="R20a", old="            # the delta is already part of the term: delta * delta = delta\n            # removes one occurrence of both indices, which turns an index\n            # that occurs twice from a contracted into a target index if the\n            # target indices are determined with the Einstein sum convention\n            if term.provided_target_idx is None and \\\n                    any(o.sympy == delta for o in obj) and \\\n                    any(idx_counter[s] == 2 for s in delta.idx):\n                continue\n", new=""),
    dict(id="c20-f30-guard-preferred-only", prop="C20", file=F, expect="R20c",
         old="obj.has(preferred) or obj.has(killable)", new="obj.has(preferred)"),
    dict(id="c20-f30-guard-includes-delta", prop="C20", file=F, expect="R20c",
         old="                        for obj in expr.args if obj is not d):\n", new="                        for obj in expr.args):\n"),
    dict(id="c20-f30-guard-ignores-targets", prop="C20", file=F, expect="R20c",
         old="                if preferred not in target_idx and not any(\n", new="                if not any(\n"),
    dict(id="c20-f31-guard-provided-too", prop="C20", file=S, expect="R20a",
         old="            if term.provided_target_idx is None and \\\n                    any(o.sympy == delta for o in obj) and \\\n",
         new="            if any(o.sympy == delta for o in obj) and \\\n"),
    dict(id="c20-f31-guard-all", prop="C20", file=S, expect="R20a",
         old="any(idx_counter[s] == 2 for s in delta.idx)", new="all(idx_counter[s] == 2 for s in delta.idx)"),
    dict(id="c20-f31-guard-any-count", prop="C20", file=S, expect="R20a",
         old="any(idx_counter[s] == 2 for s in delta.idx)", new="any(idx_counter[s] >= 2 for s in delta.idx)"),
    dict(id="c20-evd-targets-inverted", prop="C20", file=F, expect="R20c",
         old="            target_idx = [s for s, n in indices.items() if not n]\n",
         new="            target_idx = [s for s, n in indices.items() if n]\n"),
    dict(id="c20-evd-helper-counts-twice", prop="C20", file=F, expect="R20c",
         edits=[("            target_idx = [s for s, n in indices.items() if not n]\n", "            target_idx = _indices_on_single_object(expr)\n"),
                ("    return [s for s, n in counter.items() if n == 1]", "    return [s for s, n in counter.items() if n <= 2]")]),
    # seeded change C20-12 and its relatives: a restart of evaluate_deltas on the remaining deltas that forgets the targets
    dict(id="c20-seed-evd-preferred-restart-loses-targets", prop="C20", file=F, expect="R20c",
         old=_EVD_PREF, new=_EVD_PREF.replace("evaluate_deltas(expr, target_idx)", "evaluate_deltas(expr)") + "\n                continue"),
    dict(id="c20-evd-killable-restart-loses-targets", prop="C20", file=F, expect="R20c",
         old=_EVD_KILL, new=_EVD_KILL.replace("evaluate_deltas(expr, target_idx)", "evaluate_deltas(expr)")),
    dict(id="c20-evd-sum-loses-targets", prop="C20", file=F, expect="R20c",
         old="evaluate_deltas(arg, target_idx)", new="evaluate_deltas(arg)"),
    dict(id="c20-evd-preferred-no-restart", prop="C20", file=F, expect="R20c",
         old=_EVD_PREF, new="                expr = expr.subs(preferred, killable)"),
    dict(id="c20-evd-information-guard-dropped", prop="C20", file=F, expect="R20c",
         old="            elif preferred not in target_idx \\\n                    and d.indices_contain_equal_information:",
         new="            elif preferred not in target_idx:"),
    dict(id="c20-evd-restart-targets-of-first-delta", prop="C20", file=F, expect="R20c",
         old=_EVD_PREF, new=_EVD_PREF.replace("evaluate_deltas(expr, target_idx)", "evaluate_deltas(expr, [killable])")),
    # revert of the fix of F56 (only the first addend of a sum factor survives when the pair leaves nothing else) and variants
    dict(id="c20-F56-revert", prop="C20", file=S, expect="R20b",
         old=_F56, new="            return simplify_term_unitary(new_term.terms[0])\n"),
    dict(id="c20-f56-always-first", prop="C20", file=S, expect="R20b",
         old="            if len(new_term) == 1:\n                return simplify_term_unitary(new_term.terms[0])\n",
         new="            if len(new_term) >= 1:\n                return simplify_term_unitary(new_term.terms[0])\n"),
    dict(id="c20-f56-skips-first", prop="C20", file=S, expect="R20b",
         old="            for new_t in new_term.terms:\n                res += simplify_term_unitary(new_t)\n",
         new="            for new_t in new_term.terms[1:]:\n                res += simplify_term_unitary(new_t)\n"),
    dict(id="c20-f56-addends-not-simplified", prop="C20", file=S, expect="R20b",
         old="            for new_t in new_term.terms:\n                res += simplify_term_unitary(new_t)\n",
         new="            for new_t in new_term.terms:\n                res += new_t\n"),
    # ------------------------------------------------------------------ behaviour-preserving edits
    dict(id="c20-ok-f56-twin-parts", prop="C20", file=S, expect=None,
         old=_F56, new="            parts = [simplify_term_unitary(new_t) for new_t in new_term.terms]\n"
                       "            if len(parts) == 1:\n                return parts[0]\n"
                       "            res = e.Expr(0, **term.assumptions)\n            for part in parts:\n                res += part\n"
                       "            return res\n"),
    dict(id="c20-ok-f56-twin-always-sum", prop="C20", file=S, expect=None,
         old=_F56, new="            res = e.Expr(0, **term.assumptions)\n            for new_t in new_term.terms:\n"
                       "                res += simplify_term_unitary(new_t)\n            return res\n"),
    dict(id="c20-ok-f56-twin-sum-builtin", prop="C20", file=S, expect=None,
         old=_F56, new="            if len(new_term.terms) < 2:\n                return simplify_term_unitary(new_term.terms[0])\n"
                       "            return sum((simplify_term_unitary(new_t) for new_t in new_term.terms),\n"
                       "                       e.Expr(0, **term.assumptions))\n"),
    # the restarts of evaluate_deltas spelled differently (targets still handed on)
    dict(id="c20-ok-evd-restart-keyword", prop="C20", file=F, expect=None,
         old=_EVD_PREF, new=_EVD_PREF.replace("evaluate_deltas(expr, target_idx)", "evaluate_deltas(expr, target_idx=target_idx)")),
    dict(id="c20-ok-evd-restart-tidied", prop="C20", file=F, expect=None,
         old=_EVD_PREF, new="                expr = expr.subs(preferred, killable)\n                # collect the remaining deltas again\n"
                            "                if len(deltas) > 1:\n                    return evaluate_deltas(expr, target_idx)\n                continue"),
    dict(id="c20-ok-evd-restart-early-return", prop="C20", file=F, expect=None,
         old=_EVD_PREF, new="                expr = expr.subs(preferred, killable)\n                if len(deltas) == 1:\n                    return expr\n"
                            "                return evaluate_deltas(expr, tuple(target_idx))"),
    dict(id="c20-ok-evd-restart-conditional", prop="C20", file=F, expect=None,
         old=_EVD_PREF, new="                remaining = expr.subs(preferred, killable)\n"
                            "                return evaluate_deltas(remaining, target_idx) if len(deltas) > 1 else remaining"),
    dict(id="c20-ok-evd-restart-always", prop="C20", file=F, expect=None,
         edits=[(_EVD_KILL, "                expr = expr.subs(killable, preferred)\n                return evaluate_deltas(expr, target_idx)"),
                (_EVD_PREF, "                expr = expr.subs(preferred, killable)\n                return evaluate_deltas(expr, target_idx)")]),
    dict(id="c20-ok-evd-shared-restart", prop="C20", file=F, expect=None,
         edits=[(_EVD_KILL + "\n                continue\n", "                new = expr.subs(killable, preferred)\n"),
                ("            elif preferred not in target_idx \\\n                    and d.indices_contain_equal_information:\n" + _EVD_PREF + "\n",
                 "            elif preferred not in target_idx \\\n                    and d.indices_contain_equal_information:\n"
                 "                new = expr.subs(preferred, killable)\n            else:\n                continue\n"
                 "            if len(deltas) > 1:\n                return evaluate_deltas(new, target_idx)\n            expr = new\n")]),
    # the repaired guards spelled differently
    dict(id="c20-ok-f30-twin", prop="C20", file=F, expect=None,
         old="                if preferred not in target_idx and not any(\n                        obj.has(preferred) or obj.has(killable)\n                        for obj in expr.args if obj is not d):\n",
         new="                others = [obj for obj in expr.args if obj is not d]\n"
             "                lonely = all(not obj.has(preferred, killable) for obj in others)\n"
             "                if lonely and preferred not in target_idx:\n"),
    dict(id="c20-ok-f30-twin-loop", prop="C20", file=F, expect=None,
         old="                if preferred not in target_idx and not any(\n                        obj.has(preferred) or obj.has(killable)\n                        for obj in expr.args if obj is not d):\n                    continue\n",
         new="                elsewhere = False\n                for obj in expr.args:\n                    if obj is d:\n                        continue\n"
             "                    if obj.has(killable) or obj.has(preferred):\n                        elsewhere = True\n"
             "                if not (elsewhere or preferred in target_idx):\n                    continue\n"),
    dict(id="c20-ok-f31-twin", prop="C20", file=S, expect=None,
         old="            if term.provided_target_idx is None and \\\n                    any(o.sympy == delta for o in obj) and \\\n                    any(idx_counter[s] == 2 for s in delta.idx):\n",
         new="            einstein = term.provided_target_idx is None\n"
             "            if einstein and delta in [o.sympy for o in obj] and \\\n"
             "                    2 in [idx_counter[s] for s in delta.idx]:\n"),
    dict(id="c20-ok-f31-twin-nested", prop="C20", file=S, expect=None,
         old="            if term.provided_target_idx is None and \\\n                    any(o.sympy == delta for o in obj) and \\\n                    any(idx_counter[s] == 2 for s in delta.idx):\n                continue\n",
         new="            collapses = False\n            if term.provided_target_idx is None:\n                for o in obj:\n"
             "                    if o.sympy == delta:\n                        collapses = min(idx_counter[s] for s in delta.idx) == 2\n"
             "            if collapses:\n                continue\n"),
    # Einstein target detection of evaluate_deltas through sympy's make_args / the private helper (kind of refactoring 5A3)
    dict(id="c20-ok-evd-make-args", prop="C20", file=F, expect=None,
         old="            for obj in expr.args:\n                for s in obj.atoms(Index):\n                    if s in indices:",
         new="            for obj in Mul.make_args(expr):\n                for s in obj.atoms(Index):\n                    if s in indices:"),
    dict(id="c20-ok-evd-helper-targets", prop="C20", file=F, expect=None,
         old="            target_idx = [s for s, n in indices.items() if not n]\n",
         new="            target_idx = _indices_on_single_object(expr)\n"),
    # refactoring D5 (tuple unpacking of the index pairs, membership test in the remainder loop) on the repaired code
    dict(id="c20-ok-d5-unpacking", prop="C20", file=S, expect=None,
         edits=[("            idx1 = obj[i1].idx\n            idx2 = obj[i2].idx\n",
                 "            first1, second1 = obj[i1].idx\n            first2, second2 = obj[i2].idx\n"),
                (_IF1 + "\n                delta = KroneckerDelta(idx1[1], idx2[1])",
                 "            if first1 == first2 and first1 not in target and \\\n                    idx_counter[first1] == 2:\n"
                 "                delta = KroneckerDelta(second1, second2)"),
                (_IF2 + "\n                delta = KroneckerDelta(idx1[0], idx2[0])",
                 "            elif second1 == second2 and second1 not in target and \\\n                    idx_counter[second1] == 2:\n"
                 "                delta = KroneckerDelta(first1, first2)"),
                ("if idx1 == idx2 and all(idx_counter[s] == 2 for s in idx1):",
                 "if (first1, second1) == (first2, second2) and \\\n                    all(idx_counter[s] == 2 for s in (first1, second1)):"),
                ("                if i == i1 or i == i2:\n                    continue\n                else:\n                    new_term *= o\n",
                 "                if i not in (i1, i2):\n                    new_term *= o\n")]),
    dict(id="c20-ok-square-guard-spelled", prop="C20", file=S, expect=None,
         old="if idx1 == idx2 and all(idx_counter[s] == 2 for s in idx1):",
         new="if i1 == i2 and idx_counter[idx1[0]] == 2 and idx_counter[idx1[1]] == 2:"),
    dict(id="c20-ok-square-guard-first", prop="C20", file=S, expect=None,
         edits=[("            # both indices are shared and occur nowhere else: the delta\n"
                 "            # would be 1 and the remaining index (and its sum) would be lost\n"
                 "            if idx1 == idx2 and all(idx_counter[s] == 2 for s in idx1):\n                continue\n", ""),
                ("            idx2 = obj[i2].idx\n",
                 "            idx2 = obj[i2].idx\n            if idx1 == idx2 and {idx_counter[s] for s in idx1} == {2}:\n                continue\n")]),
    dict(id="c20-ok-evaluate-targets-from-expr", prop="C20", file=S, expect=None,
         old="func.evaluate_deltas(res.sympy, res.provided_target_idx)", new="func.evaluate_deltas(res.sympy, expr.provided_target_idx)"),
    dict(id="c20-ok-rename", prop="C20", file=S, expect=None,
         old="        target = term.target\n        idx_counter = Counter(term.idx)", new="        idx_counter = Counter(term.idx)\n        target = term.target"),
    dict(id="c20-ok-manual-counter", prop="C20", file=S, expect=None,
         old="        idx_counter = Counter(term.idx)\n",
         new="        idx_counter = {}\n        for s in term.idx:\n            idx_counter[s] = idx_counter.get(s, 0) + 1\n"),
    dict(id="c20-ok-tuple-count", prop="C20", file=S, expect=None,
         edits=[("        idx_counter = Counter(term.idx)\n", "        all_idx = term.idx\n"),
                ("                    idx_counter[idx1[0]] == 2:", "                    all_idx.count(idx1[0]) == 2:"),
                ("                    idx_counter[idx1[1]] == 2:", "                    all_idx.count(idx1[1]) == 2:"),
                ("all(idx_counter[s] == 2 for s in idx1)", "all(all_idx.count(s) == 2 for s in idx1)"),
                ("any(idx_counter[s] == 2 for s in delta.idx)", "any(all_idx.count(s) == 2 for s in delta.idx)")]),
    dict(id="c20-ok-index-loops", prop="C20", file=S, expect=None,
         old="        for (i1, i2) in combinations(unitary_tensors, 2):\n",
         new="        for i1, i2 in ((unitary_tensors[n1], unitary_tensors[n2])\n                       for n1 in range(len(unitary_tensors))\n"
             "                       for n2 in range(n1 + 1, len(unitary_tensors))):\n"),
    dict(id="c20-ok-position-loop", prop="C20", file=S, expect=None,
         old=_BRANCHES,
         new="            for pos in (0, 1):\n                if idx1[pos] == idx2[pos] and idx1[pos] not in target and \\\n"
             "                        idx_counter[idx1[pos]] == 2:\n                    delta = KroneckerDelta(idx1[1 - pos], idx2[1 - pos])\n"
             "                    break\n            else:  # no matching indices\n                continue\n"),
    dict(id="c20-ok-position-list", prop="C20", file=S, expect=None,
         old=_BRANCHES,
         new="            shared = [pos for pos in range(2)\n                      if idx1[pos] == idx2[pos] and idx1[pos] not in target\n"
             "                      and idx_counter[idx1[pos]] == 2]\n            if not shared:\n                continue\n"
             "            delta = KroneckerDelta(idx1[1 - shared[0]], idx2[1 - shared[0]])\n"),
    dict(id="c20-ok-divide-out", prop="C20", file=S, expect=None,
         old="                new_term *= Pow(base, exponent - 2)", new="                new_term *= obj[i1].sympy / base**2"),
    dict(id="c20-ok-two-step-power", prop="C20", file=S, expect=None,
         old="                new_term *= Pow(b1, exponent1 - 1)\n", new="                new_term *= Pow(b1, exponent1)\n                new_term *= Pow(b1, -1)\n"),
    dict(id="c20-ok-target-set", prop="C20", file=S, expect=None,
         old="        target = term.target\n", new="        target = frozenset(term.target)\n"),
    dict(id="c20-ok-reversed-terms", prop="C20", file=S, expect=None,
         old="    for term in expr.terms:\n        res += simplify_term_unitary(term)\n",
         new="    for term in reversed(expr.terms):\n        res += simplify_term_unitary(term)\n"),
    dict(id="c20-ok-slice-test", prop="C20", file=S, expect=None,
         old="        if len(unitary_tensors) < 2:", new="        if not unitary_tensors[1:]:"),
    dict(id="c20-ok-uniform-lowering", prop="C20", file=S, expect=None,
         old=_LOWER + "\n            # add remaining objects\n" + _REST,
         new="            lowered = Counter((i1, i2))\n            for i, o in enumerate(obj):\n"
             "                base, exponent = o.base_and_exponent\n                new_term *= Pow(base, exponent - lowered[i])\n"),
    dict(id="c20-ok-rest-first", prop="C20", file=S, expect=None,
         old="            new_term = e.Expr(delta, **term.assumptions)\n" + _LOWER + "\n            # add remaining objects\n" + _REST,
         new="            new_term = e.Expr(1, **term.assumptions)\n" + _REST.replace("if i == i1 or i == i2", "if i in {i1, i2}") + _LOWER +
             "            new_term *= delta\n"),
    dict(id="c20-ok-counter-get", prop="C20", file=E, expect=None,
         old="                if s in idx:\n                    idx[s] += n\n                else:  # start counting at 0\n                    idx[s] = n - 1\n",
         new="                idx[s] = idx.get(s, -1) + n\n"),
    dict(id="c20-ok-idx-sum", prop="C20", file=E, expect=None,
         old="        return tuple(s for s, n in self._idx_counter for _ in range(n + 1))",
         new="        return sum(((s,) * (n + 1) for s, n in self._idx_counter), ())"),
    dict(id="c20-ok-explicit-assumptions", prop="C20", file=S, expect=None,
         old="            new_term = e.Expr(delta, **term.assumptions)",
         new="            new_term = e.Expr(delta, real=term.real, sym_tensors=term.sym_tensors,\n"
             "                              antisym_tensors=term.antisym_tensors,\n"
             "                              target_idx=term.provided_target_idx)"),
    dict(id="c20-ok-evaluate-keyword", prop="C20", file=S, expect=None,
         old="func.evaluate_deltas(res.sympy, res.provided_target_idx)", new="func.evaluate_deltas(expr=res.sympy, target_idx=res.provided_target_idx)"),
]
