#!/usr/bin/env python3
"""Applies every kept seeded change (seeded/<id>/patch.diff) to /repo in turn,
runs the check of its property, and undoes it straight afterwards.
Usage: tools/seed_eval.py [ids...]   (prints one line per seed)"""
import json
import os
import subprocess
import sys

HERE = os.path.dirname(os.path.dirname(os.path.abspath(__file__)))
REPO = "/repo"


def sh(*a, **k):
    return subprocess.run(a, capture_output=True, text=True, **k)


def main():
    ids = sys.argv[1:] or sorted(os.listdir(os.path.join(HERE, "seeded")))
    assert sh("git", "-C", REPO, "status", "--porcelain", "--untracked-files=no").stdout.strip() == "", "repo dirty"
    rows = []
    for sid in ids:
        d = os.path.join(HERE, "seeded", sid)
        if not os.path.exists(os.path.join(d, "patch.diff")):
            continue
        meta = json.load(open(os.path.join(d, "meta.json")))
        prop = meta["property"]
        r = sh("git", "-C", REPO, "apply", os.path.join(d, "patch.diff"))
        if r.returncode != 0:
            rows.append((sid, prop, "PATCH-DOES-NOT-APPLY", r.stderr.strip()[:100]))
            continue
        try:
            out = {}
            for tier in ("quick", "thorough"):
                c = sh(os.path.join(HERE, "check"), prop, "--tier", tier, "--rule", "", cwd=HERE) if False else \
                    sh("/venv/bin/python", "-m", "sa.main", prop, "--tier", tier, cwd=HERE,
                       env={**os.environ, "PYTHONDONTWRITEBYTECODE": "1", "VERIF_NO_EVIDENCE": "1"})
                rules = sorted({ln.split("rule=")[1].split()[0] for ln in c.stdout.splitlines() if " rule=" in ln})
                out[tier] = (c.returncode, rules)
                if c.returncode == 1:
                    break
            det = "DETECTED" if any(rc == 1 for rc, _ in out.values()) else \
                  ("ANALYSIS-ERROR" if any(rc == 2 for rc, _ in out.values()) else "MISSED")
            rows.append((sid, prop, det, json.dumps(out)))
        finally:
            sh("git", "-C", REPO, "checkout", "--", ".")
    for r in rows:
        print(*r)
    # evidence files were rewritten by the patched runs: restore them
    sh("git", "-C", HERE, "checkout", "--", "evidence")


if __name__ == "__main__":
    main()
