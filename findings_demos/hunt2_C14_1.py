"""remove_tensor: a fresh index generated for a repeated/target index of a later
occurrence collides with the index of a previously removed occurrence that no
longer occurs in the remainder (explicit target indices).

E_c = A_c * (sum_{ia} d^i_a) * (sum_b d^b_b),  target index c
Removing d must give for the key ('ov', 'vv') the block expression
    R_{c; ia; bd} = A_c delta_{bd}     (5 free indices besides c: i, a | b, d)
so that  sum_{ia} sum_{bd} d^i_a d^b_d R = E_c.
"""
import sys
import itertools
from fractions import Fraction
import random
sys.path.insert(0, '.')
import adcgen  # noqa E402
from adcgen import Expr  # noqa E402
from adcgen.indices import get_symbols  # noqa E402
from adcgen.sympy_objects import (AntiSymmetricTensor, NonSymmetricTensor,
                                  KroneckerDelta)  # noqa E402
from adcgen.simplify import remove_tensor  # noqa E402

i, = get_symbols('i')
a, b, c = get_symbols('abc')
expr = Expr(
    NonSymmetricTensor('A', (c,)) * AntiSymmetricTensor('d', (i,), (a,))
    * AntiSymmetricTensor('d', (b,), (b,)),
    target_idx=[c]
)
res = remove_tensor(expr, 'd')
print("input :", expr, " target:", expr.provided_target_idx)
for key, val in res.items():
    print("result:", key, val, " target:", val.provided_target_idx)

fail = False
if list(res.keys()) != [('ov', 'vv')]:
    print("unexpected keys", list(res.keys()))
    sys.exit(1)
block = res[('ov', 'vv')]
target = block.provided_target_idx
# the target index c + 2 indices of the ov block + 2 indices of the vv block
if target is None or len(set(target)) != 5:
    print(f"DEFECT: block expression has the target indices {target}; "
          "expected 5 distinct indices (c, 2 for d_ov, 2 for d_vv)")
    fail = True

# numeric re-contraction: nocc = 2, nvirt = 2
rng = random.Random(7)
occ, virt = [0, 1], [2, 3]
A = {p: Fraction(rng.randint(1, 9), rng.randint(1, 5)) for p in virt}
d = {(p, q): Fraction(rng.randint(1, 9), rng.randint(1, 5))
     for p in occ + virt for q in occ + virt}


def ev(x, env):
    if x.is_number:
        return Fraction(int(x.p), int(x.q))
    if x.is_Mul or x.is_Add:
        vals = [ev(y, env) for y in x.args]
        if x.is_Add:
            return sum(vals)
        r = Fraction(1)
        for v in vals:
            r *= v
        return r
    if isinstance(x, KroneckerDelta):
        return Fraction(int(env[x.args[0]] == env[x.args[1]]))
    if isinstance(x, AntiSymmetricTensor):
        return d[(env[x.upper[0]], env[x.lower[0]])]
    if isinstance(x, NonSymmetricTensor):
        return A[env[x.indices[0]]]
    raise TypeError(type(x))


def rng_of(s):
    return occ if s.space == 'occ' else virt


if not fail:
    # documented convention: the indices of the removed blocks are the lowest
    # indices that are no target indices, in the order of the key
    ti, = get_symbols('i')
    ta, tb, td = get_symbols('abd')
    for cval in virt:
        expected = A[cval] * sum(d[(p, q)] for p in occ for q in virt) \
            * sum(d[(p, p)] for p in virt)
        got = Fraction(0)
        for vi, va, vb, vd in itertools.product(occ, virt, virt, virt):
            tenv = {c: cval, ti: vi, ta: va, tb: vb, td: vd}
            val = Fraction(0)
            for term in block.terms:
                contracted = term.contracted
                for assign in itertools.product(*[rng_of(s)
                                                  for s in contracted]):
                    env = dict(tenv)
                    env.update(zip(contracted, assign))
                    val += ev(term.sympy, env)
            got += d[(vi, va)] * d[(vb, vd)] * val
        if got != expected:
            print(f"DEFECT: c={cval}: re-contraction gives {got}, "
                  f"original expression is {expected}")
            fail = True
sys.exit(1 if fail else 0)
