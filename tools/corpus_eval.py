#!/usr/bin/env python3
"""Evaluates both corpora in parallel and writes seeded/RESULTS.md and refactors/RESULTS.md (same tables as
tools/seed_eval.py --md and tools/refac_eval.py --md, which stay the per-item tools).
Every task applies one patch to its own scratch worktree of /repo's HEAD (under /tmp, removed afterwards; /repo itself is
never touched) and runs the checks against it with evidence and witnesses switched off:
  seeded change  -> the check of its property, quick tier, then thorough if quick is silent (exit 1 = DETECTED)
  refactoring    -> all 20 checks, quick tier (any exit != 0 = false alarm)
Usage: tools/corpus_eval.py [--jobs N] [--only-seeds] [--only-refactors] [--ids a,b,c]
(--ids after a complete run re-evaluates only those items and rewrites both tables from the stored rows;\n--changed-props=C07,C17: refactorings are run only against the listed checks, and of those only the ones that read a\nfile the patch touches - for the incremental re-evaluation after a change of a few rule modules)"""
import json
import os
import subprocess
import sys
import tempfile
from concurrent.futures import ProcessPoolExecutor

HERE = os.path.dirname(os.path.dirname(os.path.abspath(__file__)))
REPO = "/repo"
PROPS = [f"C{n:02d}" for n in range(1, 21)]
ENV = {**os.environ, "PYTHONDONTWRITEBYTECODE": "1", "VERIF_NO_EVIDENCE": "1", "VERIF_NO_WITNESS": "1", "PYTHONHASHSEED": "0"}


def sh(*a, **k):
    return subprocess.run(a, capture_output=True, text=True, **k)


def run_check(prop, tier, tree):
    c = sh("/venv/bin/python", "-m", "sa.main", prop, "--tier", tier, "--repo", tree, cwd=HERE, env=ENV)
    rules = sorted({ln.split("rule=")[1].split()[0] for ln in c.stdout.splitlines() if " rule=" in ln})
    return c.returncode, rules


# files a check reads beyond the anchors of its property (used only by --changed-props: which of the re-evaluated
# checks can be influenced by a patch at all)
COMMON = {"adcgen/misc.py", "adcgen/indices.py", "adcgen/sympy_objects.py", "adcgen/expr_container.py", "adcgen/tensor_names.py"}
READS = {
    "C06": {"adcgen/symmetry.py"},
    "C07": {"adcgen/simplify.py", "adcgen/symmetry.py"},
    "C11": {"adcgen/intermediates.py", "adcgen/factor_intermediates.py", "adcgen/reduce_expr.py", "adcgen/eri_orbenergy.py",
            "adcgen/symmetry.py", "adcgen/simplify.py", "adcgen/func.py"},
    "C14": {"adcgen/simplify.py", "adcgen/derivative.py", "adcgen/symmetry.py"},
    "C15": {"adcgen/spatial_orbitals.py", "adcgen/intermediates.py"},
    "C17": {"adcgen/generate_code/generate_code.py", "adcgen/generate_code/optimize_contractions.py",
            "adcgen/generate_code/contraction.py", "adcgen/generate_code/config.py", "adcgen/sort_expr.py", "adcgen/symmetry.py"},
    "C19": set(),   # (this session only R19j changed: Expr.rename_tensor / TensorNames.rename_tensors, i.e. COMMON)
    "C20": {"adcgen/simplify.py", "adcgen/func.py"},
}
CHANGED = None


def task(job):
    kind, ident = job
    d = os.path.join(HERE, "seeded" if kind == "seed" else "refactors", ident)
    patch = os.path.join(d, "patch.diff")
    tree = tempfile.mkdtemp(prefix="corpus_eval_", dir="/tmp")
    os.rmdir(tree)
    if sh("git", "-C", REPO, "worktree", "add", "--detach", tree, "HEAD").returncode != 0:
        return kind, ident, "NO-WORKTREE", {}
    try:
        r = sh("git", "-C", tree, "apply", patch)
        if r.returncode != 0:
            return kind, ident, "PATCH-DOES-NOT-APPLY", {"err": r.stderr.strip()[:100]}
        if kind == "seed":
            prop = json.load(open(os.path.join(d, "meta.json")))["property"]
            out = {}
            for tier in ("quick", "thorough"):
                out[tier] = run_check(prop, tier, tree)
                if out[tier][0] == 1:
                    break
            det = "DETECTED" if any(rc == 1 for rc, _ in out.values()) else \
                ("ANALYSIS-ERROR" if any(rc == 2 for rc, _ in out.values()) else "MISSED")
            return kind, ident, det, out
        alarms = {}
        props = PROPS
        if CHANGED is not None:
            files = {ln[6:].strip() for ln in open(patch) if ln.startswith("+++ b/")}
            props = [p for p in CHANGED if READS.get(p) is None or files & (READS[p] | COMMON)]
        for prop in props:
            rc, rules = run_check(prop, "quick", tree)
            if rc != 0:
                alarms[prop] = (rc, rules)
        return kind, ident, "SILENT" if not alarms else "ALARM", alarms
    finally:
        sh("git", "-C", REPO, "worktree", "remove", "--force", tree)


def main():
    global CHANGED
    jobs = 14
    ids = None
    for a in sys.argv[1:]:
        if a.startswith("--changed-props="):
            CHANGED = a.split("=", 1)[1].upper().split(",")
        if a.startswith("--jobs"):
            jobs = int(a.split("=")[1])
        if a.startswith("--ids="):
            ids = set(a.split("=", 1)[1].split(","))
    work = []
    if "--only-refactors" not in sys.argv:
        work += [("seed", i) for i in sorted(os.listdir(os.path.join(HERE, "seeded")))
                 if os.path.exists(os.path.join(HERE, "seeded", i, "patch.diff"))]
    if "--only-seeds" not in sys.argv:
        work += [("refactor", i) for i in sorted(os.listdir(os.path.join(HERE, "refactors")))
                 if os.path.exists(os.path.join(HERE, "refactors", i, "patch.diff"))]
    if ids is not None:
        work = [w for w in work if w[1] in ids]
    # long tasks (refactorings: 20 checks) first
    work.sort(key=lambda w: (w[0] != "refactor", w[1]))
    rows = {}
    with ProcessPoolExecutor(jobs) as ex:
        for kind, ident, verdict, info in ex.map(task, work):
            rows[(kind, ident)] = (verdict, info)
            print(kind, ident, verdict, json.dumps(info)[:300], flush=True)
    store = os.environ.get("CORPUS_ROWS", "/tmp/corpus_eval_rows.json")
    if ids is not None and os.path.exists(store):
        # partial run: the rows of the last complete run are kept for every other item
        old = {tuple(k.split(":", 1)): tuple(v) for k, v in json.load(open(store)).items()}
        old.update(rows)
        rows = {k: v for k, v in old.items()
                if os.path.exists(os.path.join(HERE, "seeded" if k[0] == "seed" else "refactors", k[1], "patch.diff"))}
    elif ids is not None:
        return
    json.dump({f"{k}:{i}": v for (k, i), v in rows.items()}, open(store, "w"))
    seeds = sorted(i for k, i in rows if k == "seed")
    if seeds:
        lines = ["Every change was produced by an independent sub-agent that saw only the property text and its own scratch worktree, "
                 "passes the 127 tests, and has a demonstration (seeded/<id>/demo.py) that fails with it; each was re-confirmed in a "
                 "scratch worktree before it was kept. `tools/corpus_eval.py` (per item: `tools/seed_eval.py`) applies each patch to a "
                 "scratch worktree of /repo's HEAD and runs the property's check against it (quick, then thorough if quick is silent).", "",
                 "| seed | property | verdict | tier | rule(s) | function(s) | change |", "|---|---|---|---|---|---|---|"]
        for sid in seeds:
            det, out = rows[("seed", sid)]
            meta = json.load(open(os.path.join(HERE, "seeded", sid, "meta.json")))
            tier = [t for t, v in out.items() if isinstance(v, (list, tuple)) and v[0] == 1]
            tier = tier[0] if tier else "-"
            rules = ", ".join(out[tier][1]) if tier != "-" else ""
            fns = meta.get("functions", [])
            fns = ", ".join(fns) if isinstance(fns, list) else str(fns)
            lines.append(f"| {sid} | {meta['property']} | {det} | {tier} | {rules} | {fns} | {' '.join(str(meta.get('summary', '')).split())[:220]} |")
        n = sum(1 for s in seeds if rows[("seed", s)][0] == "DETECTED")
        lines += ["", f"{n} of {len(seeds)} seeded changes are reported."]
        open(os.path.join(HERE, "seeded", "RESULTS.md"), "w").write("\n".join(lines) + "\n")
    refs = sorted(i for k, i in rows if k == "refactor")
    if refs:
        lines = ["The entries `RN_<name>` are mechanical: one private name (underscore function, cached property) renamed "
                 "consistently in the whole package (the suite passes with all of them applied together). "
                 "Every other refactoring was written by an independent sub-agent that saw only the library (its own scratch worktree), was "
                 "asked for behaviour-preserving edits of the functions the rules inspect, ran the 127 tests and differential runs "
                 "with each patch, and knew nothing about /verif. `tools/corpus_eval.py` (per item: `tools/refac_eval.py`) applies each patch to a scratch worktree of "
                 "/repo's HEAD and runs all 20 checks (quick tier) against it; any VIOLATION or ANALYSIS-ERROR is a false alarm.",
                 "", "| refactoring | files | what was changed | verdict of all checks |", "|---|---|---|---|"]
        bad = 0
        for rid in refs:
            verdict, alarms = rows[("refactor", rid)]
            p = os.path.join(HERE, "refactors", rid, "patch.diff")
            note = os.path.join(HERE, "refactors", rid, "note.txt")
            files = sorted({ln[6:].strip() for ln in open(p) if ln.startswith("+++ b/")})
            if verdict != "SILENT":
                bad += 1
                verdict = "ALARM " + ", ".join(f"{pr} exit {v[0]}" for pr, v in sorted(alarms.items()) if isinstance(v, (list, tuple))) \
                    if verdict == "ALARM" else verdict
            lines.append("| " + " | ".join([rid, ", ".join(f.replace("adcgen/", "") for f in files),
                                            " ".join(open(note).read().split())[:260] if os.path.exists(note) else "", verdict]) + " |")
        lines += ["", f"{len(refs)} refactorings evaluated, {bad} with alarms."]
        open(os.path.join(HERE, "refactors", "RESULTS.md"), "w").write("\n".join(lines) + "\n")


if __name__ == "__main__":
    main()
