"""
C11 / defect 3: factor_intermediates raises instead of skipping a candidate
that can not be factored (and for a candidate whose indices are not in
canonical order).

1) factor_intermediates(expr, "mp_density") raises a RuntimeError for every
   expression that holds a term of third (or higher) order - already the
   preparation of the p0_3_ov definition (p0_2_oo factored) fails.
2) sum_kab t1^{ab}_{ik} t1^{ab}_{jk} Y^{a}_{l}: the only candidate for p0_2_oo
   is invalid (the contracted index a of p0_2_oo also occurs in Y) -> the
   expression has to be returned as it is, but a RuntimeError is raised.
3) t1^{bc}_{i3j} V^{ka}_{bc} = - t2eri1^{ji3}_{ka}: AttributeError, because the
   tensor of the intermediate comes with a sign for the index order (i3, j).

For each case the result (if there is one) is compared to the input by a
brute force evaluation (exact rationals, 2 occupied and 2 virtual orbitals,
random tensors) after expanding all intermediates.
Run from the worktree root: /venv/bin/python hunt_out/3/demo.py
"""
import os
import sys
import itertools
import hashlib
from fractions import Fraction
sys.path.insert(0, os.getcwd())
os.environ.setdefault("ADCGEN_LOG_LEVEL", "ERROR")

from sympy import Add, Mul, Pow, Rational  # noqa E402
from adcgen.expr_container import Expr  # noqa E402
from adcgen.indices import Index, get_symbols  # noqa E402
from adcgen.sympy_objects import (  # noqa E402
    AntiSymmetricTensor, NonSymmetricTensor, Amplitude
)
from adcgen.intermediates import eri, orb_energy  # noqa E402
from adcgen.factor_intermediates import factor_intermediates  # noqa E402

NO, NV = 2, 2


_cache = {}


def rnd(*key):
    if key not in _cache:
        _cache[key] = _rnd(*key)
    return _cache[key]


def _rnd(*key):
    h = hashlib.sha256(repr(key).encode()).digest()
    return Fraction(h[0] % 17 - 8 or 3, h[1] % 5 + 1)


def sort_sign(t):
    t, sign = list(t), 1
    for i in range(len(t)):
        for j in range(len(t) - 1 - i):
            if t[j] > t[j + 1]:
                t[j], t[j + 1], sign = t[j + 1], t[j], -sign
    if any(x == y for x, y in zip(t, t[1:])):
        return tuple(t), 0
    return tuple(t), sign


def tensor(t, val):
    if isinstance(t, NonSymmetricTensor):
        idx = tuple(val[s] for s in t.idx)
        if t.name == "e":  # orbital energies: occ < 0 < virt
            p = idx[0]
            return rnd("e", p) / 100 + (-1 - p if p < NO else 1 + p)
        return rnd(t.name, idx)
    up, s1 = sort_sign(val[s] for s in t.upper)
    lo, s2 = sort_sign(val[s] for s in t.lower)
    if s1 * s2 == 0:
        return Fraction(0)
    if t.name == "V" and lo < up:  # real orbitals: <pq||rs> = <rs||pq>
        up, lo = lo, up
    return s1 * s2 * rnd(t.name, up, lo)


def value(x, val):
    if x.is_Rational:
        return Fraction(int(x.p), int(x.q))
    if isinstance(x, (AntiSymmetricTensor, NonSymmetricTensor)):
        return tensor(x, val)
    if isinstance(x, Pow):
        return value(x.base, val) ** int(x.exp)
    if isinstance(x, Mul):
        res = Fraction(1)
        for arg in x.args:
            res *= value(arg, val)
        return res
    if isinstance(x, Add):
        return sum(value(arg, val) for arg in x.args)
    raise TypeError(f"{x}: {type(x)}")


def rng(s):
    return range(NO) if s.space == "occ" else range(NO, NO + NV)


def term_value(term, val):
    """sum the term over all indices that have no value yet (depth first,
       a factor is evaluated as soon as all of its indices are known)."""
    factors = [(f, f.atoms(Index)) for f in Mul.make_args(term)]
    order = sorted(set().union(*(idx for _, idx in factors)) - set(val),
                   key=lambda s: s.name)
    known, levels = set(val), []
    for s in [None] + order:
        known.add(s)
        levels.append([f for f, idx in factors if idx <= known and
                       not any(f is g for lv in levels for g in lv)])

    def rec(depth):
        res = Fraction(1)
        for f in levels[depth]:
            res *= value(f, val)
            if not res:
                return res
        if depth == len(order):
            return res
        tot = Fraction(0)
        for v in rng(order[depth]):
            val[order[depth]] = v
            tot += rec(depth + 1)
        del val[order[depth]]
        return res * tot
    return rec(0)


def evaluate(expr, target):
    """value of the expression for all values of the target indices; all
       other indices of a term are summed."""
    res = {}
    terms = Add.make_args(expr.expand())
    for tv in itertools.product(*[rng(s) for s in target]):
        res[tv] = sum((term_value(term, dict(zip(target, tv)))
                       for term in terms), Fraction(0))
    return res


def check(label, sympy_expr, target, itmds):
    target = get_symbols(target)
    expr = Expr(sympy_expr, real=True, target_idx=target)
    print(f"{label}\n  input   : {expr}\n  factor_intermediates(expr, {itmds})")
    try:
        factored = factor_intermediates(expr.copy(), itmds)
    except Exception as exc:
        msg = str(exc).split(chr(10))[0]
        print(f"  RAISED {type(exc).__name__}: {msg}")
        return False
    ref = evaluate(expr.copy().expand_intermediates().sympy, target)
    res = evaluate(factored.copy().expand_intermediates().sympy, target)
    bad = [k for k in ref if ref[k] != res[k]]
    print(f"  factored: {str(factored)[:300]}")
    if bad:
        k = bad[0]
        print(f"  MISMATCH for {len(bad)} of {len(ref)} target index values,"
              f" e.g. {dict(zip(target, k))}: input {ref[k]} != "
              f"factored {res[k]}")
    else:
        print("  values agree")
    return not bad


i, j, k, l, a, b, c = get_symbols("ijklabc")
i3 = get_symbols(["i3"])[0]
ok = True
# 1) a third order term without any density in it
denom = orb_energy(a) + orb_energy(b) - orb_energy(i) - orb_energy(j)
ok &= check("1) type 'mp_density', harmless third order term",
            eri((i, j, a, b)) * eri((j, k, b, c)) * eri((i, k, a, c)) / denom,
            "", "mp_density")
# 2) invalid candidate for a short intermediate
ok &= check("2) invalid candidate for p0_2_oo",
            Amplitude("t1", (a, b), (i, k)) * Amplitude("t1", (a, b), (j, k))
            * AntiSymmetricTensor("Y", (a,), (l,)), "ijl",
            ["t2_1", "p0_2_oo"])
# 3) intermediate indices that are not in canonical order
ok &= check("3) t2eri_1 with the indices i3, j",
            Amplitude("t1", (b, c), (i3, j)) * eri((k, a, b, c)),
            [i3, j, k, a], ["t2_1", "t2eri_1"])
sys.exit(0 if ok else 1)
