"""C08 index renaming (structural clauses)."""
from __future__ import annotations

import ast

from ..abseval import Interp, Rec
from ..model import (AnalysisError, U, Defs, FuncNode, calls_in, call_name, walk_fn, kwarg, enclosing,
                     enclosing_stmt, short)
from ..pathcond import conditions
from . import common
from .deriv import reaching_assignments

EXPLANATION = (
    "R08a: every .subs( call site of the package is classified: argument is an ordered substitution "
    "list (order_substitutions(...) directly, a local whose reaching definitions are one, or a value "
    "taken from a verified producer: compare_terms, find_compatible_terms, find_compatible_eri_parts, "
    "_compare_eri_parts (third tuple component), substitute_contracted(only_build_sub=True)), a dict "
    "with simultaneous=True, a single (old, new) pair, a forwarding wrapper, or not an index map; a "
    "raw index dict is a violation. R08b: Index(...) constructor calls are exactly "
    "Indices._new_symbol plus four frozen exceptions. R08c: the registry fields _symbols, "
    "_generic_indices, _counter are touched only inside class Indices. R08d: registry pairing in "
    "get_indices / _gen_generic_idx / get_generic_indices (constructor only on a cache miss, stored "
    "before returned, removed from the generic pool; generic names filtered against used names, "
    "materialised through get_indices). R08e: contracted-only renaming with (space, spin) preserved "
    "and zero guard in Term.substitute_contracted / substitute_with_generic (+ expand_itmd, "
    "reduce_expr). R08f: decision tables of order_substitutions (all 625 maps on 4 indices incl. "
    "chains, cycles, many-to-one: sequential application equals the simultaneous map) and "
    "get_lowest_avail_indices / split_idx_string / index_space on small inputs. R08g: "
    "minimize_tensor_indices on all 620 index tuples of length <= 3 over {i,j,k,a,b} x 4 target sets: targets stay, the other "
    "indices get the lowest unused names in order of first appearance, and the returned permutations reproduce the result.")
ASSUMPTIONS = [
    "R08f is evaluated on all index maps over four indices and small name sets (bounded, not exhaustive)",
    "sympy's subs applies a list of pairs sequentially",
]

ORD = "ORD"
PRODUCERS = {
    "order_substitutions": ORD,
    "compare_terms": ORD,
    "find_compatible_terms": ("dict", ("dict", ORD)),
    "find_compatible_eri_parts": ("dict", ("dict", ORD)),
    "_compare_eri_parts": ("list", ("tuple", [None, None, ORD, None])),
}
INDEX_CTOR_FROZEN = {
    "indices:Indices._new_symbol": "the one registry constructor",
    "func:_contraction": "fresh occ/virt dummy of the general-index contraction (never registered on purpose)",
    "indices:order_substitutions": "temporary index for cyclic substitutions, removed by the final substitution",
    "derivative:derivative": "placeholder symbol x of the symbolic differentiation, substituted back",
}


class Prov:
    def __init__(self, fn):
        self.fn = fn

    def type_of(self, node, depth=0):
        if depth > 8 or node is None:
            return None
        if isinstance(node, ast.Call):
            name = call_name(node)
            if name in PRODUCERS:
                return PRODUCERS[name]
            if name == "substitute_contracted":
                kw = kwarg(node, "only_build_sub", 1)
                return ORD if kw is not None and U(kw) == "True" else None
            if name == "items" and isinstance(node.func, ast.Attribute):
                t = self.type_of(node.func.value, depth + 1)
                if isinstance(t, tuple) and t[0] == "dict":
                    return ("list", ("tuple", [None, t[1]]))
                return None
            return None
        if isinstance(node, ast.Subscript):
            t = self.type_of(node.value, depth + 1)
            if isinstance(t, tuple) and t[0] == "dict":
                return t[1]
            if isinstance(t, tuple) and t[0] == "list" and not isinstance(node.slice, ast.Slice):
                return t[1]
            if isinstance(t, tuple) and t[0] == "tuple" and isinstance(node.slice, ast.Constant):
                return t[1][node.slice.value]
            if isinstance(node.slice, ast.Constant) and node.slice.value == "sub_list":
                return self._variant_data(node)
            return None
        if isinstance(node, ast.Name):
            return self.name_type(node, depth)
        return None

    def _variant_data(self, node):
        return None

    def name_type(self, node, depth):
        from .deriv import _block_chain
        name = node.id
        st = enclosing_stmt(node)
        live = reaching_assignments(self.fn, name, st)
        loops = [p for p in _parents(node) if isinstance(p, (ast.For, ast.comprehension))]
        binding = None
        for lp in loops:
            tgt = lp.target
            names = [U(e) for e in tgt.elts] if isinstance(tgt, ast.Tuple) else [U(tgt)]
            if name in names:
                binding = (lp, tgt, names)
                break
        if binding is not None:
            lp, tgt, names = binding
            chain_st = _block_chain(st)
            dom = [a for a in live if isinstance(lp, ast.For) and any(a is x for x in ast.walk(lp))
                   and _block_chain(a) and _block_chain(a)[0] in chain_st]
            if dom:
                live = dom
            else:
                t = self.type_of(lp.iter, depth + 1)
                if not (isinstance(t, tuple) and t[0] == "list"):
                    return None
                el = t[1]
                if isinstance(tgt, ast.Tuple):
                    if isinstance(el, tuple) and el[0] == "tuple" and len(el[1]) == len(names):
                        return el[1][names.index(name)]
                    return None
                return el
        if not live:
            return None
        ts = []
        for a in live:
            t = a.targets[0]
            if isinstance(t, ast.Name):
                ts.append(self.type_of(a.value, depth + 1))
            else:
                ts.append(None)
        if all(x == ts[0] for x in ts):
            return ts[0]
        return None


def _parents(n):
    p = getattr(n, "_parent", None)
    while p is not None:
        yield p
        p = getattr(p, "_parent", None)


def verify_producers(ctx, rule):
    # compare_terms
    fn = ctx.model.fn("simplify:find_compatible_terms.compare_terms")
    pv = Prov(fn)
    for r in common.returns_of(fn):
        if U(r.value) == "None":
            continue
        ctx.check(rule, r, pv.type_of(r.value) == ORD, "compare_terms returns an ordered substitution list",
                  f"compare_terms returns `{U(r.value)}`, which is not the result of order_substitutions", key="producer compare_terms")
    fn = ctx.model.fn("simplify:find_compatible_terms")
    st = [a for a in walk_fn(fn, nested=False) if isinstance(a, ast.Assign) and isinstance(a.targets[0], ast.Subscript)
          and U(a.targets[0].value).startswith("compatible_terms")]
    vals = sorted(U(a.value) for a in st)
    ok = vals == ["sub", "{}"]
    subdef = [a for a in walk_fn(fn, nested=False) if isinstance(a, ast.Assign) and U(a.targets[0]) == "sub"]
    ok = ok and len(subdef) == 1 and call_name(subdef[0].value) == "compare_terms"
    r = common.returns_of(fn, nested=False)
    ok = ok and U(r[-1].value) == "compatible_terms"
    ctx.check(rule, fn, ok, "find_compatible_terms stores compare_terms results only", "find_compatible_terms stores other values",
              key="producer find_compatible_terms")
    fn = ctx.model.fn("reduce_expr:find_compatible_eri_parts")
    rs = sorted(U(r.value) for r in common.returns_of(fn))
    ctx.check(rule, fn, rs == ["find_compatible_terms(eri_parts)", "{0: {}}"], "find_compatible_eri_parts forwards find_compatible_terms",
              f"find_compatible_eri_parts returns {rs}", key="producer find_compatible_eri_parts")
    fn = ctx.model.fn("factor_intermediates:_compare_eri_parts")
    ap = [c for c in calls_in(fn) if call_name(c) == "append" and U(c.func.value) == "valid"]
    pv = Prov(fn)
    ok = len(ap) == 1 and isinstance(ap[0].args[0], ast.Tuple) and len(ap[0].args[0].elts) == 4 \
        and pv.type_of(ap[0].args[0].elts[2]) == ORD
    rs = [U(r.value) for r in common.returns_of(fn) if U(r.value) != "None"]
    ctx.check(rule, fn, ok and rs == ["valid if valid else None"], "_compare_eri_parts: third tuple component is ordered",
              "_compare_eri_parts no longer returns (.., .., ordered list, ..) tuples", key="producer _compare_eri_parts")
    fn = ctx.model.fn("expr_container:Term.substitute_contracted")
    pv = Prov(fn)
    r = [x for x in common.returns_of(fn) if ("only_build_sub", True) in conditions(x)]
    ctx.check(rule, fn, len(r) == 1 and pv.type_of(r[0].value) == ORD, "substitute_contracted(only_build_sub) returns the ordered list",
              "substitute_contracted(only_build_sub=True) does not return an ordered list", key="producer substitute_contracted")


def r08a(ctx, modules=None):
    rule = "R08a"
    verify_producers(ctx, rule)
    n = 0
    kinds = {}
    for ref, fn in ctx.model.all_functions():
        if modules and ref.split(":")[0] not in modules:
            continue
        pv = Prov(fn)
        for c in calls_in(fn, nested=False):
            if call_name(c) != "subs" or not isinstance(c.func, ast.Attribute):
                continue
            n += 1
            kind = None
            if any(isinstance(a, ast.Starred) for a in c.args) and any(k.arg is None for k in c.keywords):
                kind = "forwarding wrapper"
            elif kwarg(c, "simultaneous") is not None and U(kwarg(c, "simultaneous")) == "True":
                kind = "simultaneous dict"
            elif len(c.args) == 2:
                if isinstance(c.args[1], ast.Constant) and isinstance(c.args[1].value, (int, float)):
                    kind = "not an index map"
                else:
                    kind = "single pair"
            elif len(c.args) == 1 and not c.keywords:
                t = pv.type_of(c.args[0])
                if t == ORD:
                    kind = "ordered list"
            kinds[kind] = kinds.get(kind, 0) + 1
            ctx.check(rule, c, kind is not None, f"{ref.split(':')[1]}: {kind}",
                      f"`{short(c, 80)}`: the substitution argument is not an ordered substitution list, a single pair or a "
                      "simultaneous dict; sequential application of a raw index map captures indices (i->j, j->k)",
                      fn=ref, key=f"subs {short(c.args[0], 50) if c.args else ''}")
    if not modules:
        ctx.floor(rule, ".subs( call sites package-wide", n, 25)
    ctx.note(f"R08a site kinds: {kinds}")


def r08b(ctx):
    rule = "R08b"
    n = 0
    for ref, fn in ctx.model.all_functions():
        if getattr(fn, "_fn", None) is not None:
            continue
        for c in calls_in(fn):
            if isinstance(c.func, ast.Name) and c.func.id == "Index":
                n += 1
                ok = ref in INDEX_CTOR_FROZEN
                ctx.check(rule, c, ok, f"{ref}: {INDEX_CTOR_FROZEN.get(ref)}",
                          f"`{U(c)}` constructs an Index outside the registry (Indices._new_symbol); two requests for the same "
                          "name would give different index objects", fn=ref, key=f"Index ctor in {ref}")
    ctx.floor(rule, "Index(...) constructor calls", n, 1)
    for m in ctx.model.modules.values():
        for node in m.tree.body:
            for c in ast.walk(node) if not isinstance(node, (ast.FunctionDef, ast.ClassDef)) else []:
                if isinstance(c, ast.Call) and isinstance(c.func, ast.Name) and c.func.id == "Index":
                    ctx.bad(rule, c, "module-level Index construction", key="module level Index")


def r08c(ctx):
    rule = "R08c"
    fields = ("_symbols", "_generic_indices", "_counter")
    n_inside = 0
    for mname, m in ctx.model.modules.items():
        ctx.model.used_modules.add(mname)
        for node in ast.walk(m.tree):
            if isinstance(node, ast.Attribute) and node.attr in fields:
                inside = getattr(node, "_cls", None) == "Indices" and mname == "indices"
                if inside:
                    n_inside += 1
                else:
                    ctx.bad(rule, node, f"registry field `{node.attr}` accessed outside class Indices", key=f"{mname} {node.attr}")
    ctx.floor(rule, "registry accesses inside Indices (positive fixture)", n_inside, 10)
    ctx.ok(rule, None, f"{n_inside} registry accesses, all inside class Indices", fn="indices:Indices", key="registry ownership")
    # the class is a singleton
    cls = ctx.model.cls("indices:Indices")
    ctx.check(rule, cls, any(U(k.value) == "Singleton" for k in cls.keywords if k.arg == "metaclass"), "Indices is a singleton",
              "Indices is no longer a singleton", key="singleton")
    sg = ctx.model.fn("misc:Singleton.__call__")
    body = [U(s) for s in sg.body]
    ctx.check(rule, sg, body == ["if cls not in cls._instances:\n    cls._instances[cls] = super(Singleton, cls).__call__(*args, **kwargs)",
                                 "return cls._instances[cls]"], "singleton returns the cached instance", "Singleton.__call__ changed",
              key="singleton call")


def r08d(ctx):
    rule = "R08d"
    fn = ctx.model.fn("indices:Indices.get_indices")
    new = [c for c in calls_in(fn) if call_name(c) == "_new_symbol"]
    ctx.floor(rule, "constructor call in get_indices", len(new), 1)
    lp = enclosing(new[0], ast.For)
    body = lp.body
    texts = [U(s) for s in body]
    i_new = next(i for i, s in enumerate(body) if new[0] in list(ast.walk(s)))
    hit = [i for i, s in enumerate(body) if isinstance(s, ast.If) and U(s.test) == "symbol is not None"]
    ok = len(hit) == 1 and hit[0] < i_new and isinstance(body[hit[0]].body[-1], ast.Continue) \
        and any("append(symbol)" in U(x) for x in body[hit[0]].body)
    ctx.check(rule, lp, ok, "constructor reached only on a cache miss; hits return the cached object",
              "the cache-hit path of get_indices changed", key="cache hit")
    look = [a for a in body if isinstance(a, ast.Assign) and U(a.targets[0]) == "symbol" and ".get(" in U(a.value)]
    ctx.check(rule, lp, len(look) == 1 and U(look[0].value) == "self._symbols[space][spin].get(idx, None)", "lookup by (space, spin, name)",
              "cache lookup changed", key="lookup")
    store = [i for i, s in enumerate(body) if U(s) == "self._symbols[space][spin][idx] = symbol"]
    ctx.check(rule, lp, len(store) == 1 and store[0] > i_new, "new symbol stored under [space][spin][name]", "new symbols are not stored",
              key="store")
    rm = [i for i, s in enumerate(body) if isinstance(s, ast.Try) and "self._generic_indices[space][spin].remove(idx)" in U(s)]
    ctx.check(rule, lp, len(rm) == 1 and rm[0] > i_new, "name removed from the generic pool", "generic pool is not updated", key="pool remove")
    ctx.check(rule, lp, U(new[0]) == "self._new_symbol(idx, space, spin)", "symbol built with the name's space and the requested spin",
              "constructor arguments changed", key="ctor args")
    sp = [a for a in body if isinstance(a, ast.Assign) and U(a.targets[0]) == "space"]
    ctx.check(rule, lp, len(sp) == 1 and U(sp[0].value) == "index_space(idx)", "space from the first letter", "space determination changed",
              key="space")
    g = ctx.model.fn("indices:Indices._gen_generic_idx")
    a = {U(x.targets[0]): U(x.value) for x in walk_fn(g) if isinstance(x, ast.Assign)}
    ok = a.get("new_idx") == "[idx + counter for idx in self.base[space] if idx + counter not in used_names]" \
        and a.get("used_names") == "self._symbols[space][spin]" and a.get("counter") == "str(self._counter[space][spin])"
    ctx.check(rule, g, ok, "new generic names skip names already handed out", "generation of generic names changed", key="gen filter")
    inc = [n for n in walk_fn(g) if isinstance(n, ast.AugAssign)]
    ctx.check(rule, g, len(inc) == 1 and U(inc[0]) == "self._counter[space][spin] += 1", "counter advanced once per generation",
              "counter update changed", key="gen counter")
    ext = [c for c in calls_in(g) if call_name(c) == "extend"]
    ctx.check(rule, g, len(ext) == 1 and U(ext[0]) == "self._generic_indices[space][spin].extend(new_idx)", "pool extended", "pool update changed",
              key="gen extend")
    gg = ctx.model.fn("indices:Indices.get_generic_indices")
    a = {U(x.targets[0]): U(x.value) for x in walk_fn(gg) if isinstance(x, ast.Assign)}
    ctx.check(rule, gg, a.get("idx") == "self._generic_indices[space][spin][:n]", "names drawn from the front of the pool",
              "generic names are not drawn from the pool", key="draw")
    up = [c for c in calls_in(gg) if call_name(c) == "update" and U(c.func.value) == "ret"]
    ctx.check(rule, gg, len(up) == 1 and U(up[0].args[0]) == "self.get_indices(idx, spins)", "materialised through get_indices (leaves the pool)",
              "generic indices bypass get_indices", key="materialise")
    wl = [n for n in walk_fn(gg) if isinstance(n, ast.While)]
    ctx.check(rule, gg, len(wl) == 1 and U(wl[0].test) == "n > len(self._generic_indices[space][spin])"
              and U(wl[0].body[0]) == "self._gen_generic_idx(space, spin)", "pool refilled until n names are available", "refill loop changed",
              key="refill")
    init = ctx.model.fn("indices:Indices.__init__")
    cls = ctx.model.cls("indices:Indices")
    ic = [U(n.value) for n in cls.body if isinstance(n, ast.Assign) and U(n.targets[0]) == "_initial_counter"]
    ctx.check(rule, cls, ic == ["3"], "generic names start at suffix 3 (i, i1, i2 reserved for explicit requests)",
              f"initial counter {ic}", key="initial counter")
    gs = ctx.model.fn("indices:get_symbols")
    rets = [U(r.value) for r in common.returns_of(gs)]
    ctx.check(rule, gs, rets == ["[]", "[indices]", "indices", "ret"], "Index inputs returned unchanged", f"get_symbols returns {rets}",
              key="get_symbols returns")
    a = {U(x.targets[0]): U(x.value) for x in walk_fn(gs) if isinstance(x, ast.Assign)}
    ctx.check(rule, gs, a.get("symbols") == "Indices().get_indices(indices, spins)" and
              a.get("ret") == "[symbols[index_space(idx), spin].pop() for idx, spin in zip(indices, spins)]",
              "symbols returned in input order", "order reconstruction in get_symbols changed", key="get_symbols order")
    rv = [n for n in walk_fn(gs) if isinstance(n, ast.For) and U(n.iter) == "symbols.values()"]
    ctx.check(rule, gs, len(rv) == 1 and U(rv[0].body[0]) == "val.reverse()", "lists reversed before popping", "reverse/pop pairing changed",
              key="get_symbols reverse")
    ns = ctx.model.fn("indices:Indices._new_symbol")
    tab = {}
    for x in walk_fn(ns):
        if isinstance(x, ast.Assign) and isinstance(x.targets[0], ast.Subscript) and U(x.targets[0].value) == "assumptions":
            cond = sorted(t for t, pol in conditions(x) if pol and "==" in t)
            tab[U(x.targets[0].slice)] = cond[-1] if cond else "?"
    ctx.check(rule, ns, tab == {"'below_fermi'": "space == 'occ'", "'above_fermi'": "space == 'virt'", "'alpha'": "spin == 'a'",
                                "'beta'": "spin == 'b'"}, "assumptions encode space and spin", f"assumption table {tab}", key="assumptions")
    for prop, want in (("spin", ["'a'", "'b'", "''"]), ("space", ["'occ'", "'virt'", "'general'"])):
        f = ctx.model.fn(f"indices:Index.{prop}")
        rets = [U(r.value) for r in common.returns_of(f)]
        tests = [U(n.test) for n in walk_fn(f) if isinstance(n, ast.If)]
        wt = ["self.assumptions0.get('alpha')", "self.assumptions0.get('beta')"] if prop == "spin" else \
            ["self.assumptions0.get('below_fermi')", "self.assumptions0.get('above_fermi')"]
        ctx.check(rule, f, rets == want and tests == wt, f"Index.{prop} decodes the assumptions", f"Index.{prop}: {tests} -> {rets}",
                  key=f"Index.{prop}")


def r08e(ctx):
    rule = "R08e"
    for meth, var in (("substitute_contracted", "s"), ("substitute_with_generic", "idx")):
        fn = ctx.model.fn(f"expr_container:Term.{meth}")
        lp = [n for n in walk_fn(fn) if isinstance(n, ast.For) and U(n.iter) == "self.contracted"]
        ok = len(lp) == 1 and any("contracted[key].append" in U(x) for x in lp[0].body) \
            and any(isinstance(x, ast.If) and "space_and_spin" in U(x.test) for x in lp[0].body)
        ctx.check(rule, fn, ok, f"{meth}: keys of the substitution come from self.contracted, grouped by (space, spin)",
                  f"{meth}: source of the indices to rename changed", key=f"{meth} keys")
        guard = [n for n in walk_fn(fn) if isinstance(n, ast.Raise) and
                 any("substituted is S.Zero" in t and pol for t, pol in conditions(n))]
        ok = len(guard) == 1 and any("self.sympy is S.Zero" in t and not pol for t, pol in conditions(guard[0]))
        ctx.check(rule, fn, ok, f"{meth}: substitution that annihilates the term is refused", f"{meth}: zero guard removed", key=f"{meth} zero guard")
    fn = ctx.model.fn("expr_container:Term.substitute_contracted")
    us = [n for n in walk_fn(fn) if isinstance(n, ast.For) and U(n.iter) == "set(self.target)"]
    ctx.check(rule, fn, len(us) == 1 and any("used[key].add(s.name)" in U(x) for x in us[0].body), "excluded names = names of the target indices",
              "source of the excluded names changed", key="used names")
    la = [c for c in calls_in(fn) if call_name(c) == "get_lowest_avail_indices"]
    ok = len(la) == 1 and [U(a).replace(" ", "") for a in la[0].args] == ["len(idx_list)", "used.get((space,spin),[])", "space"]
    ctx.check(rule, fn, ok, "lowest names of the same space, targets of the same (space, spin) excluded", "request for new names changed",
              key="lowest names")
    gs = {}
    for a in walk_fn(fn):
        if isinstance(a, ast.Assign) and U(a.targets[0]) == "new_idx" and call_name(a.value) == "get_symbols":
            gs["spin" if ("spin", True) in conditions(a) else "nospin"] = U(a.value)
    ctx.check(rule, fn, gs == {"spin": "get_symbols(new_idx, spin * len(idx_list))", "nospin": "get_symbols(new_idx)"},
              "new indices carry the same spin", f"{gs}", key="same spin")
    up = [c for c in calls_in(fn) if call_name(c) == "update" and U(c.func.value) == "sub"]
    ctx.check(rule, fn, len(up) == 1 and U(up[0].args[0]) == "{o: n for o, n in zip(idx_list, new_idx)}", "old -> new by position within the group",
              "pairing of old and new indices changed", key="pairing")
    fn = ctx.model.fn("expr_container:Term.substitute_with_generic")
    a = {U(x.targets[0] if isinstance(x, ast.Assign) else x.target): U(x.value) for x in walk_fn(fn)
         if isinstance(x, (ast.Assign, ast.AnnAssign)) and x.value is not None}
    ctx.check(rule, fn, a.get("kwargs") == "{f'{space}_{spin}' if spin else space: len(indices) for (space, spin), indices in contracted.items()}"
              and a.get("generic") == "Indices().get_generic_indices(**kwargs)", "as many fresh generic indices per (space, spin) as contracted ones",
              "request for generic indices changed", key="generic request")
    ctx.check(rule, fn, a.get("new_indices") == "generic[key]", "replacement indices of the same (space, spin)", "group lookup changed",
              key="generic group")
    # Term.contracted / target: complementary
    ct = ctx.model.fn("expr_container:Term.contracted")
    tg = ctx.model.fn("expr_container:Term.target")
    rc = [U(r.value) for r in common.returns_of(ct)]
    rt = [U(r.value) for r in common.returns_of(tg)]
    ctx.check(rule, ct, rc == ["tuple((s for s, _ in self._idx_counter if s not in target))", "tuple((s for s, n in self._idx_counter if n))"],
              "contracted = not target / occurs more than once", f"Term.contracted returns {rc}", key="contracted")
    ctx.check(rule, tg, rt == ["target", "tuple((s for s, n in self._idx_counter if not n))"], "target = provided / occurs once",
              f"Term.target returns {rt}", key="target")
    # Container.permute composes into one ordered map
    pm = ctx.model.fn("expr_container:Container.permute")
    r = common.returns_of(pm)
    ctx.check(rule, pm, U(r[-1].value) == "self.subs(order_substitutions(sub))", "permute applies one ordered map", "permute return changed",
              key="permute")


# ---------------------------------------------------------------------- R08f


def r08f(ctx):
    rule = "R08f"
    import itertools
    fn = ctx.model.fn("indices:order_substitutions")
    names = ["i", "j", "k", "l"]
    n_maps = 0
    for images in itertools.product(names + [None], repeat=4):
        idx = {n: Rec("Index", name=n) for n in names}
        sub = {}
        for o, n in zip(names, images):
            if n is not None:
                sub[idx[o]] = idx[n]
        # a valid renaming maps distinct indices to distinct indices or merges deliberately (many-to-one allowed)
        tmp = []

        def mk(i, node, a, kw):
            r = Rec("Index", name=f"tmp{len(tmp)}")
            tmp.append(r)
            return r
        d = dict(sub)
        kind, val = Interp({"Index": mk}, what="order_substitutions").call(fn, {"subsdict": d})
        n_maps += 1
        if kind == "raise":
            ctx.bad(rule, fn, f"order_substitutions raised {val} on {_show(sub)}", key=f"map {_show(sub)}")
            continue
        # apply sequentially to the tuple (i, j, k)
        cur = [idx[n] for n in names]
        for o, n in val:
            cur = [n if c is o else c for c in cur]
        want = [sub.get(idx[n], idx[n]) if False else _get(sub, idx[n]) for n in names]
        ok = all(c is w for c, w in zip(cur, want))
        ctx.check(rule, fn, ok, f"{_show(sub)}: sequential == simultaneous",
                  f"index map {_show(sub)}: applying the ordered list {[(o.name, n.name) for o, n in val]} one after another gives "
                  f"{[c.name for c in cur]}, the simultaneous substitution gives {[w.name for w in want]}", key=f"map {_show(sub)}")
    # get_lowest_avail_indices
    gl = ctx.model.fn("indices:get_lowest_avail_indices")
    base = {"occ": "ijklmno", "virt": "abcdefgh", "general": "pqrstuvw"}
    env = {"Indices": Rec("Indices", base=base)}
    for space, used, n in (("occ", [], 2), ("occ", ["i", "k"], 3), ("occ", list("ijklmno"), 2), ("virt", ["a", "b1"], 9),
                           ("general", ["p", "q", "p1"], 8), ("occ", ["j1", "i"], 8)):
        kind, val = Interp(env, what="get_lowest_avail_indices").call(gl, {"n": n, "used": list(used), "space": space})
        pool = list(base[space])
        k = 1
        while len(pool) < len(used) + n:
            pool += [c + str(k) for c in base[space]]
            k += 1
        want = [x for x in pool if x not in used][:n]
        ctx.check(rule, gl, kind == "return" and val == want, f"lowest {n} free {space} names given {used}: {want}",
                  f"get_lowest_avail_indices({n}, {used}, {space}) gives {val}, expected {want}", key=f"lowest {space} {used} {n}")
    sp = ctx.model.fn("indices:split_idx_string")
    for s, want in (("ij12a3b", ["i", "j12", "a3", "b"]), ("i", ["i"]), ("a10b", ["a10", "b"]), ("", [])):
        kind, val = Interp({}, what="split_idx_string").call(sp, {"str_tosplit": s})
        ctx.check(rule, sp, kind == "return" and val == want, f"split '{s}' -> {want}", f"split_idx_string('{s}') gives {val}", key=f"split {s}")
    isp = ctx.model.fn("indices:index_space")
    for s, want in (("i", "occ"), ("o3", "occ"), ("a", "virt"), ("h12", "virt"), ("p", "general"), ("w1", "general")):
        kind, val = Interp(env, what="index_space").call(isp, {"idx": s})
        ctx.check(rule, isp, kind == "return" and val == want, f"{s} -> {want}", f"index_space('{s}') gives {val}", key=f"space {s}")
    kind, val = Interp({**env, "Inputerror": Rec("class", name="Inputerror")}, what="index_space").call(isp, {"idx": "x"})
    ctx.check(rule, isp, kind == "raise", "unknown letters refused", "unknown index letters accepted", key="space x")
    # Container.permute: transpositions one after another == composed map
    pm = ctx.model.fn("expr_container:Container.permute")
    for perms in ([("i", "j")], [("i", "j"), ("j", "k")], [("i", "j"), ("i", "j")], [("i", "j"), ("k", "i")], [("i", "j"), ("j", "k"), ("k", "i")]):
        idx = {n: Rec("Index", name=n) for n in names}
        captured = {}

        def osub(i, node, a, kw):
            captured["map"] = a[0]
            return a[0]
        me = Rec("self", subs=lambda i, node, a, kw: a[0])
        kind, val = Interp({"order_substitutions": osub}, what="Container.permute").call(
            pm, {"self": me, "perms": [(idx[a], idx[b]) for a, b in perms]})
        cur = {n: idx[n] for n in names}
        # expected: apply transpositions one after another to the index names
        state = [idx[n] for n in names]
        for a, b in perms:
            state = [idx[b] if s is idx[a] else idx[a] if s is idx[b] else s for s in state]
        got = captured.get("map")
        res = None
        if isinstance(got, dict):
            res = [_get(got, idx[n]) for n in names]
        ok = kind == "return" and res is not None and all(r is s for r, s in zip(res, state))
        ctx.check(rule, pm, ok, f"P{perms}: composed map equals successive transpositions",
                  f"permute{perms}: composed map gives {[r.name for r in res] if res else None}, successive transpositions give "
                  f"{[s.name for s in state]}", key=f"permute {perms}")


def r08g(ctx):
    """minimize_tensor_indices on all index tuples of length <= 3 over {i,j,k,a,b}"""
    rule = "R08g"
    import itertools
    fn = ctx.model.fn("indices:minimize_tensor_indices")
    gl = ctx.model.fn("indices:get_lowest_avail_indices")
    base = {"occ": "ijklmno", "virt": "abcdefgh", "general": "pqrstuvw"}
    space = {c: sp for sp, letters in base.items() for c in letters}
    pool = {}

    def sym(name):
        if name not in pool:
            sp = space[name[0]]
            pool[name] = Rec("Index", name=name, space=sp, spin="", space_and_spin=(sp, ""))
        return pool[name]

    def get_symbols(i, node, a, kw):
        return [sym(n) for n in a[0]]

    def lowest(i, node, a, kw):
        k, v = Interp({"Indices": Rec("Indices", base=base)}, what="get_lowest_avail_indices").call(
            gl, {"n": a[0], "used": list(a[1]), "space": a[2]})
        return v
    env = {"get_symbols": get_symbols, "get_lowest_avail_indices": lowest,
           "Permutation": lambda i, node, a, kw: (a[0], a[1]), "PermutationProduct": lambda i, node, a, kw: list(a[0])}
    names = ["i", "j", "k", "a", "b"]
    targets_list = [{}, {("occ", ""): ["j"]}, {("occ", ""): ["i"], ("virt", ""): ["a"]}, {("occ", ""): ["k", "j"]}]
    n = 0
    for length in (1, 2, 3):
        for tpl in itertools.product(names, repeat=length):
            for tg in targets_list:
                n += 1
                inp = tuple(sym(x) for x in tpl)
                kind, val = Interp(env, what="minimize_tensor_indices").call(
                    fn, {"tensor_indices": inp, "target_idx_names": {k: list(v) for k, v in tg.items()}})
                label = f"{''.join(tpl)} targets={sorted(x for v in tg.values() for x in v)}"
                if kind != "return":
                    ctx.bad(rule, fn, f"minimize_tensor_indices raised {val} on {label}", key=f"min {label}")
                    continue
                res, perms = val
                out = [r.name for r in res]
                # (1) the permutations reproduce the result
                cur = list(tpl)
                for p, q in perms:
                    cur = [q.name if c == p.name else p.name if c == q.name else c for c in cur]
                # (2) expected: targets stay, the others get the lowest free names in order of first appearance
                tnames = {x for v in tg.values() for x in v}
                want_map = {}
                free = {sp: [c for c in base[sp] if c not in tnames] for sp in base}
                for x in tpl:
                    if x in want_map:
                        continue
                    want_map[x] = x if x in tnames else free[space[x[0]]].pop(0)
                want = [want_map[x] for x in tpl]
                ok = out == want and cur == out
                ctx.check(rule, fn, ok, f"{label} -> {''.join(want)}",
                          f"minimize_tensor_indices({label}) gives {''.join(out)} (permutations give {''.join(cur)}); the lowest "
                          f"unused non-target names in order of first appearance are {''.join(want)}", key=f"min {label}")
    ctx.floor(rule, "index tuples minimised", n, 400)


class _IdDict(dict):
    """dict keyed by abstract records (identity)"""

    def __init__(self, d=None):
        super().__init__()
        self._keys = {}
        for k, v in (d or {}).items():
            self[k] = v

    def __setitem__(self, k, v):
        self._keys[id(k)] = k
        super().__setitem__(id(k), v)

    def __getitem__(self, k):
        return super().__getitem__(id(k))

    def __contains__(self, k):
        return super().__contains__(id(k))

    def __delitem__(self, k):
        super().__delitem__(id(k))
        del self._keys[id(k)]

    def get(self, k, default=None):
        return super().get(id(k), default)

    def items(self):
        return [(self._keys[i], v) for i, v in super().items()]

    def keys(self):
        return [self._keys[i] for i in super().keys()]

    def update(self, other):
        for k, v in (other.items() if hasattr(other, "items") else other):
            self[k] = v

    def __iter__(self):
        return iter(self.keys())

    def __bool__(self):
        return len(self) > 0


def _get(d, k):
    for kk, v in d.items():
        if kk is k:
            return v
    return k


def _show(sub):
    return "{" + ", ".join(f"{k.name}->{v.name}" for k, v in sub.items()) + "}"


def run(ctx):
    if ctx.want("R08a"):
        r08a(ctx, modules=None if ctx.tier == "thorough" else {"expr_container", "indices", "simplify", "func"})
    for r, f in (("R08b", r08b), ("R08c", r08c), ("R08d", r08d), ("R08e", r08e), ("R08f", r08f), ("R08g", r08g)):
        if ctx.want(r):
            f(ctx)
