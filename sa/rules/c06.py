"""C06 tensor canonicalisation."""
from __future__ import annotations

import ast
import itertools

from ..abseval import Interp, Rec, Sym, Raised, klass
from ..model import AnalysisError, U, Defs, calls_in, call_name, walk_fn
from ..pathcond import conditions
from . import common
from .skeleton import skeleton

EXPLANATION = (
    "R06a: AntiSymmetricTensor._need_bra_ket_swap evaluated on abstract index tuples "
    "(3 spaces x 3 spins x numbered names, 1- and 2-index groups): swap(u,l) and swap(l,u) "
    "are never both true, exactly one is true when the (space,spin,name) keys differ and "
    "none when they are equal (a strict total order => unique canonical form). R06c: "
    "AntiSymmetricTensor.__new__ / SymmetricTensor.__new__ interpreted over all scenarios "
    "(sort parity upper/lower, swap needed, bra-ket symmetry 0/+1/-1, non-Index entries, "
    "Pauli violation): resulting sign, swap and zero agree with the declared symmetry. "
    "R06d: KroneckerDelta.eval table over 81 (space,spin)^2 inputs; _eval_power. R06e: "
    "homomorphism skeleton (Expr=sum over all terms, Term=product over all objects, "
    "Polynom=Pow(sum, exponent), Obj rebuilds keep the exponent) for make_real, "
    "_apply_tensor_braket_sym, rename_tensor. R06f: idempotence guards of make_real, "
    "set_(anti)sym_tensors, add_bra_ket_sym, Obj._apply_tensor_braket_sym.")
ASSUMPTIONS = [
    "sympy's _sort_anticommuting_fermions returns the sorted sequence and the number of "
    "transpositions and raises ViolationOfPauliPrinciple on repeated entries",
    "orientation (< vs >) of the bra/ket ordering is deliberately not constrained",
    "value preservation under the declared assumptions is not decided",
]

SPACES = ["occ", "virt", "general"]
SPINS = ["", "a", "b"]


def _ix(space, spin, name):
    return Rec("Index", space=space, spin=spin, name=name, _classes=("Index",))


def _key(t):
    def num(n):
        return (int(n[1:]) if n[1:] else 0, n[0])
    return ([s.space[0] for s in t], [s.spin for s in t], [num(s.name) for s in t])


def r06a(ctx):
    fn = ctx.model.fn("sympy_objects:AntiSymmetricTensor._need_bra_ket_swap")
    names = ["i", "j", "i1", "j2"]
    one = [(_ix(sp, s, n),) for sp in SPACES for s in SPINS for n in names]
    two_src = [_ix(sp, s, n) for sp in ("occ", "virt") for s in ("", "a") for n in ("i", "j1")]
    two = [(a, b) for a in two_src for b in two_src]
    interp_args = {"cls": Rec("cls")}
    n_pairs = 0
    viol = {"both": None, "none": None, "equal": None}
    for group in (one, two):
        res = {}
        for u in group:
            for l in group:
                kind, v = Interp({}, what="_need_bra_ket_swap").call(
                    fn, {**interp_args, "upper": list(u), "lower": list(l)})
                if kind == "raise":
                    raise AnalysisError(f"R06a: _need_bra_ket_swap raised {v}")
                res[(id(u), id(l))] = bool(v)
        for u in group:
            for l in group:
                n_pairs += 1
                a, b = res[(id(u), id(l))], res[(id(l), id(u))]
                same = _key(u) == _key(l)
                if a and b and viol["both"] is None:
                    viol["both"] = (u, l)
                if not same and not a and not b and viol["none"] is None:
                    viol["none"] = (u, l)
                if same and (a or b) and viol["equal"] is None:
                    viol["equal"] = (u, l)
    ctx.check("R06a", fn, viol["both"] is None, f"{n_pairs} ordered pairs: never swap in both directions",
              f"swap demanded in both directions for upper/lower = {viol['both']}: the two orderings "
              "of one tensor get different canonical forms (or oscillate)", key="asymmetric")
    ctx.check("R06a", fn, viol["none"] is None, "distinct keys: exactly one direction swaps",
              f"no direction swaps although keys differ for {viol['none']}: bra-ket partners are not "
              "identified", key="total")
    ctx.check("R06a", fn, viol["equal"] is None, "equal keys: no swap",
              f"swap demanded for equal keys {viol['equal']}", key="irreflexive")
    kind, v = Interp({}, what="_need_bra_ket_swap").call(
        fn, {**interp_args, "upper": [one[0][0]], "lower": []})
    ctx.check("R06a", fn, kind == "raise", "unequal group sizes refused",
              "unequal numbers of upper and lower indices are not refused", key="len")


# ---------------------------------------------------------------------- R06c

S_ZERO, S_ONE, S_NEG = Sym("S.Zero"), Sym("S.One"), Sym("S.NegativeOne")
S = Rec("S", Zero=S_ZERO, One=S_ONE, NegativeOne=S_NEG)


def _sympify(i, n, a, kw):
    v = a[0]
    if isinstance(v, int):
        return {0: S_ZERO, 1: S_ONE, -1: S_NEG}.get(v, Sym(f"Int({v})"))
    if isinstance(v, str):
        return Sym("Symbol", (v,))
    return v


def _new_scenarios(ctx, cls_name, antisym: bool):
    fn = ctx.model.fn(f"sympy_objects:{cls_name}.__new__")
    U0 = (_ix("occ", "", "i"), _ix("occ", "", "j"))
    L0 = (_ix("virt", "", "a"), _ix("virt", "", "b"))
    Uc, Lc = ("sortedU",), ("sortedL",)
    n = 0
    for sign_u, sign_l, need, bks, all_index in itertools.product(
            (0, 1), (0, 1), (False, True), (0, 1, -1), (True, False)):
        if not antisym and (sign_u or sign_l):
            continue
        up = tuple(U0) if all_index else (U0[0], Rec("Dummy", _classes=("Dummy",)))
        lo = tuple(L0)
        sorted_u = tuple(reversed(up)) if sign_u else up
        sorted_l = tuple(reversed(lo)) if sign_l else lo

        def sort_fermions(i, node, a, kw, up=up, lo=lo, su=sorted_u, sl=sorted_l,
                          sign_u=sign_u, sign_l=sign_l):
            if not (isinstance(kw.get("key"), Sym) and kw["key"].name == "sort_idx_canonical"):
                raise AnalysisError("R06c: index groups not sorted with sort_idx_canonical")
            if tuple(a[0]) == up:
                return (list(su), sign_u)
            if tuple(a[0]) == lo:
                return (list(sl), sign_l)
            raise AnalysisError("R06c: unexpected sequence sorted")

        def sorted_(i, node, a, kw, up=up, lo=lo, su=sorted_u, sl=sorted_l):
            if not (isinstance(kw.get("key"), Sym) and kw["key"].name == "sort_idx_canonical"):
                raise AnalysisError("R06c: index groups not sorted with sort_idx_canonical")
            if tuple(a[0]) == up:
                return list(su)
            if tuple(a[0]) == lo:
                return list(sl)
            raise AnalysisError("R06c: unexpected sequence sorted")
        swap_calls = []

        def need_swap(i, node, a, kw, need=need):
            swap_calls.append((tuple(a[0]), tuple(a[1])))
            return need
        cls = Rec("cls", _need_bra_ket_swap=need_swap, name=cls_name)

        def new(i, node, a, kw):
            return Sym("obj", a)
        sup = Rec("super", __new__=new)
        env = {"_sort_anticommuting_fermions": sort_fermions, "sorted": sorted_,
               "sort_idx_canonical": Sym("sort_idx_canonical"), "sympify": _sympify, "S": S,
               "Index": klass("Index"), "Tuple": lambda i, node, a, kw: ("Tuple",) + tuple(a),
               "super": lambda i, node, a, kw: sup, "AntiSymmetricTensor": Rec("class", name="AntiSymmetricTensor"),
               "ViolationOfPauliPrinciple": Sym("ViolationOfPauliPrinciple")}
        kind, val = Interp(env, what=f"{cls_name}.__new__").call(
            fn, {"cls": cls, "name": "T", "upper": up, "lower": lo, "bra_ket_sym": bks})
        n += 1
        label = (f"parity_u={sign_u} parity_l={sign_l} swap_needed={need} bra_ket_sym={bks} "
                 f"all_Index={all_index}")
        if kind == "raise":
            ctx.bad("R06c", fn, f"{label}: raises {val}", key=label)
            continue
        neg = False
        obj = val
        if isinstance(val, Sym) and val.name == "Mul" and val.args[0] == -1:
            neg, obj = True, val.args[1]
        if not (isinstance(obj, Sym) and obj.name == "obj" and len(obj.args) == 5):
            ctx.bad("R06c", fn, f"{label}: unexpected result {val!r}", key=label)
            continue
        _, _, r_up, r_lo, r_bks = obj.args
        do_swap = need and bks != 0 and all_index
        w_up, w_lo = (sorted_l, sorted_u) if do_swap else (sorted_u, sorted_l)
        w_neg = ((sign_u + sign_l) % 2 == 1) if antisym else False
        if do_swap and bks == -1:
            w_neg = not w_neg
        ok = (r_up == ("Tuple",) + tuple(w_up) and r_lo == ("Tuple",) + tuple(w_lo)
              and neg == w_neg and r_bks is {0: S_ZERO, 1: S_ONE, -1: S_NEG}[bks])
        why = []
        if neg != w_neg:
            why.append(f"sign is {'-' if neg else '+'}, declared symmetry prescribes {'-' if w_neg else '+'}")
        if r_up != ("Tuple",) + tuple(w_up) or r_lo != ("Tuple",) + tuple(w_lo):
            why.append("upper/lower groups are " + ("not " if do_swap else "") + "exchanged or not the sorted groups")
        if swap_calls and (do_swap or need):
            su, sl = swap_calls[0]
            if (su, sl) != (tuple(sorted_u), tuple(sorted_l)):
                ok = False
                why.append("the bra-ket comparison is not made on the sorted groups")
        ctx.check("R06c", fn, ok, f"{label}: sign/swap as prescribed", f"{label}: " + "; ".join(why or ["mismatch"]),
                  key=label)
    # invalid symmetry refused
    cls = Rec("cls", _need_bra_ket_swap=lambda i, node, a, kw: False)
    U0l, L0l = list(U0), list(L0)
    env = dict(env)
    env["_sort_anticommuting_fermions"] = lambda i, node, a, kw: (list(a[0]), 0)
    env["sorted"] = lambda i, node, a, kw: list(a[0])
    env2 = dict(env)
    kind, val = Interp(env2, what=f"{cls_name}.__new__").call(
        fn, {"cls": cls, "name": "T", "upper": tuple(U0), "lower": tuple(L0), "bra_ket_sym": 2})
    ctx.check("R06c", fn, kind == "raise", "bra_ket_sym=2 refused", "invalid bra-ket symmetry accepted",
              key="invalid bks")
    # repeated index inside a group: zero for antisymmetric groups, a regular tensor for symmetric ones
    def pauli(i, node, a, kw):
        if len({id(x) for x in a[0]}) != len(list(a[0])):
            raise Raised("ViolationOfPauliPrinciple")
        return (list(a[0]), 0)
    env3 = dict(env)
    env3["_sort_anticommuting_fermions"] = pauli
    rep = (U0[0], U0[0])
    kind, val = Interp(env3, what=f"{cls_name}.__new__").call(
        fn, {"cls": cls, "name": "T", "upper": rep, "lower": tuple(L0), "bra_ket_sym": 0})
    if antisym:
        ctx.check("R06c", fn, kind == "return" and val is S_ZERO, "repeated index in an antisymmetric group gives zero",
                  f"Pauli violation gives {kind} {val!r} instead of zero", key="pauli")
    else:
        ok = kind == "return" and isinstance(val, Sym) and val.name == "obj"
        ctx.check("R06c", fn, ok, "repeated index in a symmetric group does not vanish",
                  f"a symmetric tensor with a repeated index inside a group evaluates to {val!r}; the declared "
                  "symmetry does not force it to zero", key="symmetric repeated")
    return n


def r06c(ctx):
    _new_scenarios(ctx, "AntiSymmetricTensor", True)
    _new_scenarios(ctx, "SymmetricTensor", False)
    # Amplitude / SymmetricTensor inherit the comparison
    for c in ("Amplitude", "SymmetricTensor"):
        cls = ctx.model.cls(f"sympy_objects:{c}")
        own = [n.name for n in cls.body if isinstance(n, ast.FunctionDef)]
        ctx.check("R06c", cls, "_need_bra_ket_swap" not in own and U(cls.bases[0]) == "AntiSymmetricTensor",
                  f"{c} shares the bra-ket ordering", f"{c} overrides the bra-ket ordering or changed base",
                  key=f"inherit {c}")
    amp = ctx.model.cls("sympy_objects:Amplitude")
    ctx.check("R06c", amp, "__new__" not in [n.name for n in amp.body if isinstance(n, ast.FunctionDef)],
              "Amplitude uses the antisymmetric constructor", "Amplitude has its own constructor", key="amp new")


# ---------------------------------------------------------------------- R06d


def r06d(ctx):
    fn = ctx.model.fn("sympy_objects:KroneckerDelta.eval")

    def sub(interp, op, a, b, node):
        if op is ast.Sub:
            return Rec("diff", is_zero=(True if a is b else None))
        raise AnalysisError("R06d: unexpected arithmetic on indices")

    def key(x):
        n = x.name
        return (x.space[0], x.spin, int(n[1:]) if n[1:] else 0, n[0])

    def mk(space, spin, name):
        r = _ix(space, spin, name)
        r.attrs["_binop"] = sub
        return r

    def min_(i, node, a, kw):
        if not (isinstance(kw.get("key"), Sym) and kw["key"].name == "sort_idx_canonical"):
            raise AnalysisError("R06d: min without the canonical key")
        return min(a, key=key)
    cls = lambda i, node, a, kw: Sym("delta", a)  # noqa: E731
    env = {"fuzzy_not": lambda i, node, a, kw: (None if a[0] is None else not a[0]),
           "S": S, "min": min_, "sort_idx_canonical": Sym("sort_idx_canonical")}
    for (s1, p1), (s2, p2) in itertools.product(itertools.product(SPACES, SPINS), repeat=2):
        i, j = mk(s1, p1, "p"), mk(s2, p2, "q")
        label = f"({s1[0]}{p1 or 'n'},{s2[0]}{p2 or 'n'})"
        kind, val = Interp(env, what="KroneckerDelta.eval").call(fn, {"cls": cls, "i": i, "j": j})
        zero = (s1 != "general" and s2 != "general" and s1 != s2) or bool(p1 and p2 and p1 != p2)
        if zero:
            got_ok = kind == "return" and val is S_ZERO
            want = "zero"
        else:
            first = min([i, j], key=key)
            if first is i:
                got_ok = kind == "return" and val is None
                want = "kept as given (already canonical)"
            else:
                got_ok = kind == "return" and isinstance(val, Sym) and val.name == "delta" \
                    and val.args[0] is j and val.args[1] is i
                want = "arguments exchanged into canonical order"
        ctx.check("R06d", fn, got_ok, f"{label}: {want}", f"{label}: eval gives {kind} {val!r}, expected {want}",
                  key=f"eval {label}")
    i = mk("occ", "", "i")
    kind, val = Interp(env, what="KroneckerDelta.eval").call(fn, {"cls": cls, "i": i, "j": i})
    ctx.check("R06d", fn, kind == "return" and val is S_ONE, "same index gives one", f"delta(i,i) gives {val!r}",
              key="same index")
    pw = ctx.model.fn("sympy_objects:KroneckerDelta._eval_power")
    me = Rec("delta")
    kind, val = Interp({"S": S}, what="_eval_power").call(
        pw, {"self": me, "exp": Rec("exp", is_positive=True, is_negative=False)})
    ctx.check("R06d", pw, kind == "return" and val is me, "positive power collapses to the delta",
              f"delta**n (n>0) gives {val!r}", key="power")


# ---------------------------------------------------------------------- R06f


def enclosing_if(node):
    p = getattr(node, "_parent", None)
    child = node
    while p is not None and not isinstance(p, (ast.FunctionDef,)):
        if isinstance(p, ast.If) and any(child is s for s in p.body):
            return p
        child, p = p, getattr(p, "_parent", None)
    return None


def init_symmetry(ctx, rule):
    """Expr.__init__ applies the declared bra-ket (anti)symmetry whenever any name is declared"""
    fn = ctx.model.fn("expr_container:Expr.__init__")
    app = [c for c in calls_in(fn) if call_name(c) == "_apply_tensor_braket_sym"]
    ctx.floor(rule, "symmetry application in Expr.__init__", len(app), 1)
    for c in app:
        iff = enclosing_if(c)
        ok = iff is None
        if iff is not None:
            t = iff.test
            parts = sorted(U(v) for v in t.values) if isinstance(t, ast.BoolOp) and isinstance(t.op, ast.Or) else [U(t)]
            ok = parts == ["self._antisym_tensors", "self._sym_tensors"]
        ctx.check(rule, c, ok, "declared symmetry applied if symmetric OR antisymmetric names are given",
                  f"Expr.__init__ applies the declared tensor symmetry only under `{U(iff.test) if iff is not None else ''}`: "
                  "assumptions that consist only of antisym_tensors (or only of sym_tensors) are stored but never applied",
                  key="init apply")
    st = {U(a.targets[0] if isinstance(a, ast.Assign) else a.target): U(a.value) for a in walk_fn(fn)
          if isinstance(a, (ast.Assign, ast.AnnAssign)) and a.value is not None}
    ctx.check(rule, fn, st.get("self._sym_tensors") == "set() if sym_tensors is None else set(sym_tensors)" and
              st.get("self._antisym_tensors") == "set() if antisym_tensors is None else set(antisym_tensors)",
              "declared names stored", "storage of the declared names changed", key="init store")
    mr = [c for c in calls_in(fn) if call_name(c) == "make_real"]
    ctx.check(rule, fn, len(mr) == 1 and ("real", True) in conditions(mr[0]), "real=True applies make_real", "make_real call changed",
              key="init real")
    tg = [c for c in calls_in(fn) if call_name(c) == "set_target_idx"]
    ctx.check(rule, fn, len(tg) == 1 and U(tg[0].args[0]) == "target_idx", "targets stored", "target storage changed", key="init target")


def r06f(ctx):
    init_symmetry(ctx, "R06f")
    mr = ctx.model.fn("expr_container:Expr.make_real")
    first = common.strip_docstring(mr.body)[0]
    ctx.check("R06f", first, isinstance(first, ast.If) and U(first.test) in ("self._real", "self.real")
              and isinstance(first.body[-1], ast.Return), "make_real returns early when already real",
              "make_real no longer returns early when the expression is already real", key="make_real early")
    sets = [a for a in common.assigns_to(mr, "self._real")]
    ctx.check("R06f", mr, any(U(a.value) == "True" for a in sets), "real flag set", "real flag not set",
              key="make_real flag")
    upd = [c for c in calls_in(mr) if call_name(c) == "update" and "_sym_tensors" in U(c.func.value)]
    for c in upd:
        iff = enclosing_if(c)
        ok = iff is None
        if iff is not None:
            t = iff.test
            if isinstance(t, ast.BoolOp) and isinstance(t.op, ast.Or):
                parts = sorted(U(v) for v in t.values)
                ok = len(parts) == 2 and parts[0].startswith("tensor_names.eri not in ") and parts[1].startswith("tensor_names.fock not in ")
        ctx.check("R06f", c, ok, "symmetry added whenever fock or eri is not yet declared symmetric",
                  f"fock/eri symmetry is only added under `{U(iff.test) if iff is not None else ''}`; if just one of the two is "
                  "already declared, the other is never made bra-ket symmetric", key="make_real guard")
    ok = any({U(e) for e in c.args[0].elts} == {"tensor_names.fock", "tensor_names.eri"}
             for c in upd if c.args and isinstance(c.args[0], (ast.List, ast.Tuple, ast.Set)))
    ctx.check("R06f", mr, ok, "real basis adds bra-ket symmetry to fock and eri only",
              "make_real does not add exactly fock and eri to the symmetric tensors", key="make_real names")
    for c in upd:
        nxt = [x for x in calls_in(mr) if call_name(x) == "_apply_tensor_braket_sym"]
        ctx.check("R06f", c, bool(nxt), "symmetry re-applied after adding names",
                  "names added without re-applying the symmetry", key="make_real apply")
    for meth, attr in (("set_sym_tensors", "_sym_tensors"), ("set_antisym_tensors", "_antisym_tensors")):
        fn = ctx.model.fn(f"expr_container:Expr.{meth}")
        app = [c for c in calls_in(fn) if call_name(c) == "_apply_tensor_braket_sym"]
        ctx.floor("R06f", f"re-application in {meth}", len(app), 1)
        for c in app:
            conds = conditions(c)
            ok = any(not pol and f"self.{attr}" in t and "==" in t for t, pol in conds)
            ctx.check("R06f", c, ok, f"{meth} re-applies only when the set changed",
                      f"{meth} re-applies the symmetry unconditionally or under a different test", key=f"{meth} guard")
        st = [a for a in common.assigns_to(fn, f"self.{attr}")]
        ctx.check("R06f", fn, len(st) == 1, f"{meth} stores the new set", f"{meth} does not store the set",
                  key=f"{meth} store")
    s = ctx.model.fn("expr_container:Expr.set_sym_tensors")
    upd = [c for c in calls_in(s) if call_name(c) == "update"]
    ok = any(("self.real", True) in conditions(c) or ("self._real", True) in conditions(c) for c in upd)
    ctx.check("R06f", s, ok, "real expressions keep fock/eri symmetric", "set_sym_tensors drops fock/eri for real expressions",
              key="set_sym real")
    # add_bra_ket_sym
    ab = ctx.model.fn("sympy_objects:AntiSymmetricTensor.add_bra_ket_sym")
    rets = common.returns_of(ab)
    same = [r for r in rets if U(r.value) == "self"]
    ok = any(any(pol and "==" in t and "bra_ket_sym" in t for t, pol in conditions(r)) for r in same)
    ctx.check("R06f", ab, ok, "same symmetry returns self", "add_bra_ket_sym(same) does not return self", key="abks same")
    rebuild = [r for r in rets if isinstance(r.value, ast.Call) and "__class__" in U(r.value.func)]
    ok = bool(rebuild) and all(("self.bra_ket_sym is S.Zero", True) in conditions(r) for r in rebuild)
    ctx.check("R06f", ab, ok, "rebuild only from symmetry 0", "tensor rebuilt with a new bra-ket symmetry although one is set "
              "(original index order is lost)", key="abks rebuild")
    for r in rebuild:
        a = [U(x) for x in r.value.args]
        ctx.check("R06f", r, a == ["self.symbol", "self.upper", "self.lower", "bra_ket_sym"],
                  "rebuild keeps name and index groups", f"rebuild arguments {a}", key="abks args")
    ctx.check("R06f", ab, any(isinstance(n, ast.Raise) for n in walk_fn(ab)), "conflicting symmetry refused",
              "conflicting symmetry no longer refused", key="abks raise")
    # Obj._apply_tensor_braket_sym decision
    ob = ctx.model.fn("expr_container:Obj._apply_tensor_braket_sym")
    asg = [a for a in common.assigns_to(ob, "bra_ket_sym") if not (isinstance(a.value, ast.Constant) and a.value.value is None)]
    ctx.floor("R06f", "symmetry decisions in Obj._apply_tensor_braket_sym", len(asg), 2)
    res = Defs(ob).resolve
    for a in asg:
        conds = conditions(a, resolve=res)
        v = U(a.value)
        if v == "1":
            need_in, need_not = "self.sym_tensors", "S.One"
        elif v == "-1":
            need_in, need_not = "self.antisym_tensors", "S.NegativeOne"
        else:
            ctx.bad("R06f", a, f"unexpected symmetry value {v}", key="obj sym value")
            continue
        ok_in = any(pol and t.endswith(f" in {need_in}") and ".name" in t for t, pol in conds)
        ok_not = any((not pol) and t.endswith(f".bra_ket_sym is {need_not}") for t, pol in conds)
        ok_cls = any(pol and t.startswith("isinstance(") and "AntiSymmetricTensor" in t for t, pol in conds)
        ctx.check("R06f", a, ok_in and ok_not and ok_cls,
                  f"symmetry {v} only for declared names, antisymmetric-tensor instances, not yet set",
                  f"symmetry {v} assigned without (name declared in {need_in}) / (not already {need_not}) / "
                  "(AntiSymmetricTensor instance)", key=f"obj sym {v}")


def run(ctx):
    if ctx.want("R06a"):
        r06a(ctx)
    if ctx.want("R06c"):
        r06c(ctx)
    if ctx.want("R06d"):
        r06d(ctx)
    if ctx.want("R06e"):
        for m in ("make_real", "_apply_tensor_braket_sym", "rename_tensor"):
            skeleton(ctx, "R06e", m)
    if ctx.want("R06f"):
        r06f(ctx)
