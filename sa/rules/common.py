"""Shared analyses: path enumeration (A7), skeleton rules, small matchers."""
from __future__ import annotations

import ast

from ..model import (AnalysisError, U, FuncNode, walk_fn, calls_in, call_name,
                     names_in, short)

MAX_PATHS = 20000


class Path:
    __slots__ = ("events", "exit", "decisions", "exit_node")

    def __init__(self, events=(), exit="fall", decisions=(), exit_node=None):
        self.events, self.exit = tuple(events), exit
        self.decisions, self.exit_node = tuple(decisions), exit_node

    def extend(self, other: "Path") -> "Path":
        return Path(self.events + other.events, other.exit,
                    self.decisions + other.decisions, other.exit_node)


def enum_paths(stmts, is_event, in_loop=False) -> list[Path]:
    """All paths through a statement list. ``is_event(node)`` selects the
    nodes recorded on a path (searched inside simple statements and inside
    the tests). Nested loops are collapsed: their events are recorded once,
    wrapped as ('loop', node); ``break``/``continue`` inside stay inside."""
    paths = [Path()]
    for s in stmts:
        nxt: list[Path] = []
        live = [p for p in paths if p.exit == "fall"]
        done = [p for p in paths if p.exit != "fall"]
        if not live:
            break
        sp = _stmt_paths(s, is_event)
        for p in live:
            for q in sp:
                nxt.append(p.extend(q))
        paths = done + nxt
        if len(paths) > MAX_PATHS:
            raise AnalysisError("A7: path bound exceeded")
    return paths


def _events_in(node, is_event):
    out = []
    for n in ast.walk(node):
        if isinstance(n, FuncNode + (ast.Lambda,)) and n is not node:
            continue
        if is_event(n):
            out.append(n)
    return out


def _stmt_paths(s, is_event) -> list[Path]:
    if isinstance(s, ast.If):
        ev = _events_in(s.test, is_event)
        out = []
        for p in enum_paths(s.body, is_event):
            out.append(Path(ev, "fall", ((s.test, True),)).extend(p))
        for p in (enum_paths(s.orelse, is_event) if s.orelse else [Path()]):
            out.append(Path(ev, "fall", ((s.test, False),)).extend(p))
        return out
    if isinstance(s, (ast.For, ast.While, ast.AsyncFor)):
        inner = enum_paths(s.body, is_event)
        evs = []
        for p in inner:
            evs.extend(p.events)
        head = _events_in(s.iter, is_event) if hasattr(s, "iter") else _events_in(s.test, is_event)
        out = [Path(head + [("loop", e) for e in dict.fromkeys(evs)], "fall")]
        for p in inner:
            if p.exit in ("return", "raise"):
                out.append(Path(p.events, p.exit, p.decisions, p.exit_node))
        if s.orelse:
            out2 = []
            for p in out:
                if p.exit == "fall":
                    for q in enum_paths(s.orelse, is_event):
                        out2.append(p.extend(q))
                else:
                    out2.append(p)
            out = out2
        return out
    if isinstance(s, (ast.With, ast.AsyncWith)):
        return enum_paths(s.body, is_event)
    if isinstance(s, ast.Try):
        out = []
        body = enum_paths(s.body, is_event)
        for p in body:
            if p.exit == "fall" and s.orelse:
                for q in enum_paths(s.orelse, is_event):
                    out.append(p.extend(q))
            else:
                out.append(p)
        for h in s.handlers:
            out.extend(enum_paths(h.body, is_event))
        if s.finalbody:
            out2 = []
            for p in out:
                if p.exit == "fall":
                    for q in enum_paths(s.finalbody, is_event):
                        out2.append(p.extend(q))
                else:
                    out2.append(p)
            out = out2
        return out
    if isinstance(s, ast.Continue):
        return [Path((), "continue", (), s)]
    if isinstance(s, ast.Break):
        return [Path((), "break", (), s)]
    if isinstance(s, ast.Return):
        return [Path(_events_in(s, is_event), "return", (), s)]
    if isinstance(s, ast.Raise):
        return [Path((), "raise", (), s)]
    if isinstance(s, FuncNode + (ast.ClassDef,)):
        return [Path()]
    return [Path(_events_in(s, is_event), "fall")]


def acc_event(term: str, acc: str | None = None):
    """``X += <expr mentioning term>`` / ``X.append(<...term...>)`` /
    ``X[key] = <...term...>``."""
    def is_event(n):
        if isinstance(n, ast.AugAssign) and isinstance(n.op, (ast.Add, ast.Sub)):
            if term in names_in(n.value) and (acc is None or U(n.target).split("[")[0] == acc):
                return True
        if isinstance(n, ast.Call) and call_name(n) in ("append", "add") and n.args \
                and term in names_in(n.args[0]) and isinstance(n.func, ast.Attribute):
            if acc is None or U(n.func.value).split("[")[0] == acc:
                return True
        return False
    return is_event


def loop_conservation(ctx, rule, fn, loop, term, acc=None, is_event=None):
    """Every path through the loop body adds the term at most once.  Returns
    ``(accumulator text | None, drops)`` where ``drops`` are the paths that
    leave the body without adding the term; the caller must validate the
    decisions of each drop (or report it as a lost term with ``lost``)."""
    ev = is_event or acc_event(term, acc)
    paths = enum_paths(loop.body, ev)
    accs = set()
    drops = []
    for p in paths:
        n = len(p.events)
        for e in p.events:
            e0 = e[1] if isinstance(e, tuple) else e
            if isinstance(e0, ast.AugAssign):
                accs.add(U(e0.target).split("[")[0])
            elif isinstance(e0, ast.Call):
                accs.add(U(e0.func.value).split("[")[0])
        desc = path_desc(p)
        if p.exit in ("raise",):
            continue
        if n == 1 and not isinstance(p.events[0], tuple):
            ctx.ok(rule, p.events[0], f"path [{desc}] adds `{term}` once")
        elif n == 0:
            drops.append(p)
        else:
            ctx.bad(rule, loop, f"path [{desc}] adds `{term}` {n} times or inside a nested loop",
                    key=f"multi on {desc}")
    return (accs.pop() if len(accs) == 1 else None), drops


def path_desc(p) -> str:
    return " & ".join(("" if pol else "not ") + short(t, 50) for t, pol in p.decisions) or "always"


def lost(ctx, rule, loop, term, drops):
    for p in drops:
        ctx.bad(rule, loop, f"path [{path_desc(p)}] leaves the loop body without adding "
                f"`{term}` (term lost)", key=f"lost on {path_desc(p)}")


# ---------------------------------------------------------------------------
# small matchers


def returns_of(fn, nested=False):
    return [n for n in walk_fn(fn, nested=nested) if isinstance(n, ast.Return)]


def find_calls(fn, name, nested=True):
    return [c for c in calls_in(fn, nested) if call_name(c) == name]


def assigns_to(fn, name, nested=False):
    out = []
    for n in walk_fn(fn, nested=nested):
        if isinstance(n, ast.Assign) and any(U(t) == name for t in n.targets):
            out.append(n)
        elif isinstance(n, ast.AugAssign) and U(n.target) == name:
            out.append(n)
        elif isinstance(n, ast.AnnAssign) and U(n.target) == name and n.value is not None:
            out.append(n)
    return out


def decorators(fn) -> list[str]:
    return [U(d).split("(")[0].split(".")[-1] for d in fn.decorator_list]


def strip_docstring(body):
    if body and isinstance(body[0], ast.Expr) and isinstance(body[0].value, ast.Constant) \
            and isinstance(body[0].value.value, str):
        return body[1:]
    return body


def call_is(node, func_text, params, **want):
    """``node`` is a call of ``func_text`` whose arguments (keyword or
    positional, ``params`` = parameter names in order without self) have
    exactly the texts in ``want``."""
    if not (isinstance(node, ast.Call) and U(node.func) == func_text):
        return False
    got = {}
    for i, a in enumerate(node.args):
        if isinstance(a, ast.Starred) or i >= len(params):
            return False
        got[params[i]] = U(a)
    for k in node.keywords:
        if k.arg is None or k.arg in got:
            return False
        got[k.arg] = U(k.value)
    return got == want
