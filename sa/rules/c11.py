"""C11 expanding / factoring / reducing intermediates (structural clauses)."""
from __future__ import annotations

import ast
import re
from fractions import Fraction

from ..symex import Symex, Obj, Func
from ..terms import (T, sym, show, subterms, args_of, strip, expand_products, canon, is_num, t_mul, t_add, t_pow, calls)
from ..model import AnalysisError, U, Defs, calls_in, call_name, walk_fn, kwarg, enclosing, enclosing_stmt, short
from ..pathcond import conditions
from . import common
from . import c08, c13
from .itmd_ir import registry, CANON_KEY, need_bra_ket_swap

EXPLANATION = (
    "R11a: expand_itmd substitution (targets zip(base_target, indices); every base contracted index "
    "gets a fresh generic index of the same (space, spin), surplus raises; ordered; zero-guarded; "
    "validate_indices demands equal length and position-wise equal space). R11b: term conservation "
    "in t2_1.factor_itmd, _factor_short_intermediate (every path adds the possibly factored term "
    "once), _factor_long_intermediate (unfactored terms added at the end; factored_terms.update "
    "paired with adding the factored term; mixed-prefactor completion adds (pref - desired) * term), "
    "factor_itmd's relevant/irrelevant split, prefactor formulas. R11c: the Zero placeholder is "
    "resolved to 0 only for the tensor named 'Zero', which only re_residual classes build. R11d: all "
    "definitions bind every referenced intermediate as X.expand_itmd if fully_expand else X.tensor "
    "(residuals always .tensor). R11e: for every registered class the reader's name "
    "(Obj.longname with default names, computed from the tensor _build_tensor constructs) equals the "
    "class name. R11f: the index order read back from that tensor (lower+upper for amplitudes, "
    "upper+lower otherwise) reproduces _default_idx and construction does not permute the defaults. "
    "R11g: reduce_expr bookkeeping (R13g) and ordered substitutions at its sites. R11h: pool clean-up "
    "of LongItmdVariants visits every entry. R11i: the sign that maps a match's remainder onto the stored remainder is applied to both "
    "stored prefactors (prefactor and unit factorisation prefactor). R13d/R13h: expansion skeleton incl. fresh contracted indices per factor of a "
    "power; fraction cancellation bookkeeping.")
ASSUMPTIONS = [
    "the matching logic (_compare_terms, LongItmdVariants, factor_denom, cancel_orb_energy_frac) is a runtime "
    "statement and not decided",
]

IT = "intermediates:RegisteredIntermediate."
FI = "factor_intermediates:"


# ---------------------------------------------------------------------------
# abstract values shared by the scenarios


def mk_index(name, space=None, spin=""):
    """Abstract ``Index``: a record with the attributes the library reads."""
    space = space or space_name(name)
    o = Obj(None, name)
    o.attrs.update(name=name, space=space, spin=spin, space_and_spin=(space, spin))
    return o


def space_name(n):
    return "occ" if n[0] in "ijklmno" else "virt" if n[0] in "abcdefgh" else "general"


def split_names(x):
    return re.findall(r"[a-z]\d*", x)


def get_symbols_model(sx, a, kw):
    """get_symbols: names -> Index records (records pass through)."""
    x = a[0] if a else kw.get("indices")
    if isinstance(x, T):
        return NotImplemented
    if isinstance(x, Obj):
        return [x]
    if isinstance(x, str):
        x = split_names(x)
    return tuple(mk_index(n) if isinstance(n, str) else n for n in x)


class IndexSource:
    """Model of ``Indices().get_generic_indices``: every call hands out names never handed out before (per path);
    ``surplus`` > 0 models a generator that returns more than requested."""

    def __init__(self, surplus=0):
        self.surplus = surplus
        self.reset()

    def reset(self, sx=None):
        self.calls = []          # one dict name -> (space, spin) per call
        self.requests = []

    def __call__(self, sx, a, kw):
        if any(isinstance(v, T) for v in kw.values()) or "**" in kw:
            return NotImplemented
        n_call = len(self.calls)
        made, out = {}, {}
        self.requests.append(dict(kw))
        for k, n in kw.items():
            parts = k.split("_")
            sp, spin = (parts[0], parts[1]) if len(parts) == 2 else (parts[0], "")
            if n == 0:
                continue
            lst = []
            for i in range(n + self.surplus):
                nm = f"<gen{n_call}.{sp}{'_' + spin if spin else ''}.{i}>"
                lst.append(mk_index(nm, sp, spin))
                made[nm] = (sp, spin)
            out[(sp, spin)] = lst
        self.calls.append(made)
        return out


CACHE_DECORATORS = ("cached_member", "cached_property", "cache", "lru_cache")


def memo_hooks(model, modules, vocabulary=()):
    """Functions behind a caching decorator evaluate once per argument tuple: the second call returns the first result
    without re-running the body (so effects such as index generation inside them happen once)."""
    hooks, memo = {}, {}
    for mod in modules:
        m = model.module(mod)
        for q, fn in m.functions.items():
            decos = [U(d).split("(")[0].split(".")[-1] for d in fn.decorator_list]
            if not any(d in CACHE_DECORATORS for d in decos) or q.split(".")[-1] in vocabulary:
                continue

            def hook(sx, a, kw, fn=fn, q=f"{mod}:{q}"):
                from ..symex import _freeze
                key = (q, repr(_freeze(list(a))), repr(sorted((k, repr(_freeze(v))) for k, v in kw.items())))
                if key not in memo:
                    bound = a[0] if a and fn.args.args and fn.args.args[0].arg in ("self", "cls") else None
                    f = Func(fn, [], fn._module, fn._qual, bound=bound)
                    memo[key] = sx._invoke(f, list(a[1:]) if bound is not None else list(a), kw, fn)
                return memo[key]
            hooks[f"{mod}:{q}"] = hook
            if "." in q:
                hooks[".".join(q.split(".")[-2:])] = hook
    return hooks, memo


def dict_of(t):
    """python dict of a frozen ``dict`` term."""
    if isinstance(t, T) and t.op == "dict":
        return dict(t.args)
    return None


def nm(x):
    return x.args[0] if isinstance(x, T) and x.op == "sym" else x.name if isinstance(x, Obj) else x


# ---------------------------------------------------------------------------
# R11a expansion of a definition on requested indices

EXPAND_VOCAB = {"get_symbols", "order_substitutions", "_build_expanded_itmd", "get_generic_indices"}


def _expand_sx(ctx, src, build, what):
    hooks, memo = memo_hooks(ctx.model, ["intermediates"], EXPAND_VOCAB)
    hooks.update({"get_symbols": get_symbols_model, "get_generic_indices": src, "_build_expanded_itmd": build})
    sx = Symex(ctx.model, inline=lambda q: q.split(":")[-1].split(".")[-1] not in EXPAND_VOCAB, hooks=hooks, what=what,
               max_paths=4096)

    def start(sx_):
        src.reset()
        memo.clear()
    sx.on_start = start
    return sx


def _subs_of(value):
    """(base, substitution dict, simultaneous/ordered) of ``base.subs(order_substitutions(D))`` | ``base.subs(D, simultaneous=True)``."""
    if not (isinstance(value, T) and value.op == "mcall" and value.args[1] == "subs"):
        return None
    a = args_of(value)
    arg = a.get(0)
    if isinstance(arg, T) and arg.op == "call" and arg.args[0] == "order_substitutions":
        d = dict_of(args_of(arg).get("subsdict", args_of(arg).get(0)))
        return (value.args[0], d, True) if d is not None else None
    d = dict_of(arg)
    if d is not None:
        return value.args[0], d, a.get("simultaneous") is True
    return None


def _check_expansion(ctx, rule, fn, what, sub, src_call, targets, requested, contracted, key):
    """the substitution of one expansion: targets by position, every contracted index onto its own fresh index."""
    base, d, ordered = sub
    d = {nm(k): nm(v) for k, v in d.items()}
    want_t = {t: r for t, r in zip(targets or (), requested)}
    got_t = {k: v for k, v in d.items() if k in (targets or ())}
    ctx.check(rule, fn, got_t == want_t and (targets is None or len(targets) == len(requested)),
              f"{what}: base targets -> requested indices by position",
              f"{what}: the target indices of the definition are mapped {got_t}, expected {want_t}", key=f"target map {key}")
    got_c = {k: v for k, v in d.items() if k not in (targets or ())}
    cnames = [c for c, _ in contracted or ()]
    ok = sorted(got_c) == sorted(cnames)
    why = f"{what}: substituted contracted indices {sorted(got_c)}, the definition contracts {sorted(cnames)}"
    if ok:
        imgs = list(got_c.values())
        if len(set(imgs)) != len(imgs):
            ok, why = False, f"{what}: two contracted indices share one replacement: {got_c}"
        for c, ss in contracted or ():
            g = src_call.get(got_c[c])
            if g is None:
                ok, why = False, (f"{what}: contracted index {c} is replaced by `{got_c[c]}`, which was not generated for this "
                                  "expansion (indices of two expansions coincide: an index then occurs four times in a product)")
                break
            if g != ss:
                ok, why = False, f"{what}: contracted index {c} {ss} is replaced by an index of {g}"
                break
    ctx.check(rule, fn, ok, f"{what}: one fresh generic index per contracted index, same (space, spin), all different", why,
              key=f"contracted map {key}")
    ctx.check(rule, fn, ordered, f"{what}: substitution executed as a simultaneous one (ordered)",
              f"{what}: the substitution dict is applied sequentially without ordering", key=f"ordered {key}")
    return base


def r11a(ctx):
    rule = "R11a"
    fn = ctx.model.fn(IT + "expand_itmd")
    tnames, cn = ("i", "j", "a", "b"), (("k", ("occ", "")), ("c", ("virt", "")), ("l", ("occ", "")))
    req = ("m", "n", "e", "f")
    state = {}

    def scenario(targets, contracted, requested, return_sympy, spin_at=None):
        def build(sx, a, kw):
            state["level"] = (a[1:], dict(kw))
            return Obj(None, "base", expr=sym("BASE"), target=None if targets is None else tuple(mk_index(t) for t in targets),
                       contracted=None if contracted is None else tuple(mk_index(c, s[0], s[1]) for c, s in contracted))

        def args():
            ind = tuple(mk_index(r, spin="a" if spin_at == k else "") for k, r in enumerate(requested))
            return dict(self=Obj("intermediates:t2_2", "self", _default_idx=tnames), indices=ind, return_sympy=return_sympy,
                        fully_expand=sym("LEVEL"))
        return build, args

    def run(src, build, args, what):
        sx = _expand_sx(ctx, src, build, what)
        return sx.run(fn, args)

    for targets, contracted, rs, tag in ((tnames, cn, False, "full"), (tnames, cn, True, "sympy"), (tnames, None, True, "no contraction"),
                                         (tnames, (("k", ("occ", "")), ("c", ("virt", "b")), ("d", ("virt", ""))), True, "spin")):
        src = IndexSource()
        build, args = scenario(targets, contracted, req, rs)
        outs = run(src, build, args, f"expand_itmd[{tag}]")
        rets = [o for o in outs if o.kind == "return"]
        ctx.check(rule, fn, len(rets) >= 1, f"[{tag}] a valid request is expanded",
                  f"expand_itmd[{tag}] refuses a valid request on every path: {outs[:3]}", key=f"returns {tag}")
        for n_o, o in enumerate(outs):
            # src state belongs to the last path only -> recompute from the names (self-describing)
            gen = {}
            for t in subterms(o.value) if o.kind == "return" else ():
                if t.op == "sym" and str(t.args[0]).startswith("<gen"):
                    _, sp, _ = str(t.args[0])[1:-1].split(".")
                    gen[t.args[0]] = tuple(sp.split("_")) if "_" in sp else (sp, "")
            zero = [a for a, pol in o.path if pol and a.op == "cmp" and a.args[0] == "is" and any(
                isinstance(x, T) and show(x).endswith("S.Zero") for x in a.args[1:])]
            if o.kind == "raise":
                # refused exactly when the substituted definition vanishes although the definition does not
                vanished = [a for a in zero if any(isinstance(x, T) and x.op == "mcall" and x.args[1] == "subs" for x in a.args[1:])]
                base_nz = any(not pol and a.op == "cmp" and a.args[0] == "is" and sym("BASE") in a.args[1:] for a, pol in o.path)
                ctx.check(rule, fn, o.exc == "ValueError" and vanished and base_nz, f"[{tag}] annihilating substitution refused",
                          f"expand_itmd[{tag}] raises {o.exc} on the path {o.path!r}", key=f"zero guard {tag} {n_o}")
                continue
            v = o.value
            if not rs:
                okw = isinstance(v, T) and v.op == "call" and v.args[0] == "Expr"
                tgt = args_of(v).get("target_idx") if okw else None
                ctx.check(rule, fn, okw and tuple(nm(x) for x in (tgt or ())) == req, f"[{tag}] result carries the requested indices as targets",
                          f"expand_itmd[{tag}]: wrapped result has target indices {show(tgt)}, expected {req}", key=f"targets {tag} {n_o}")
                v = args_of(v).get("e", args_of(v).get(0)) if okw else v
            sub = _subs_of(v)
            if sub is None:
                ctx.bad(rule, fn, f"expand_itmd[{tag}] does not return the substituted definition: {show(v)[:200]}", key=f"apply {tag} {n_o}")
                continue
            base = _check_expansion(ctx, rule, fn, f"expand_itmd[{tag}]", sub, gen, targets, req, contracted, key=f"{tag} {n_o}")
            ctx.check(rule, fn, base == sym("BASE"), f"[{tag}] applied to the cached base expression",
                      f"expand_itmd[{tag}] substitutes in {show(base)[:120]}", key=f"apply {tag} {n_o}")
            # vanishing result without a vanishing definition must not be returned
            bad = [a for a in zero if any(isinstance(x, T) and x.op == "mcall" and x.args[1] == "subs" for x in a.args[1:])] and \
                any(not pol and a.op == "cmp" and a.args[0] == "is" and sym("BASE") in a.args[1:] for a, pol in o.path)
            ctx.check(rule, fn, not bad, f"[{tag}] no vanishing expansion of a non-vanishing definition returned",
                      f"expand_itmd[{tag}] returns although the substitution annihilated the definition", key=f"zero guard ret {tag} {n_o}")
        raised = [o for o in outs if o.kind == "raise"]
        ctx.check(rule, fn, len(raised) >= 1, f"[{tag}] substitution that annihilates the definition is refused",
                  f"expand_itmd[{tag}]: no path refuses a substitution that turns a non-zero definition into zero", key=f"zero guard {tag}")
        lv = state.get("level")
        ctx.check(rule, fn, lv is not None and (list(lv[0]) == [sym("LEVEL")] or lv[1].get("fully_expand") == sym("LEVEL")),
                  f"[{tag}] base expression of the requested expansion level",
                  f"expand_itmd[{tag}]: _build_expanded_itmd is called with {lv}; fully_expand is not forwarded to the definition",
                  key=f"level {tag}")
    # refusals
    src = IndexSource()
    build, args = scenario(tnames, cn, req, True, spin_at=2)
    outs = run(src, build, args, "expand_itmd[spin index]")
    ctx.check(rule, fn, outs and all(o.kind == "raise" and o.exc == "NotImplementedError" for o in outs), "indices with spin refused",
              f"expand_itmd accepts a requested index with spin: {outs}", key="spin")
    src = IndexSource(surplus=1)
    build, args = scenario(tnames, cn, req, True)
    outs = run(src, build, args, "expand_itmd[surplus]")
    ctx.check(rule, fn, outs and all(o.kind == "raise" and o.exc == "RuntimeError" for o in outs), "surplus fresh indices are an error",
              f"expand_itmd does not refuse left-over generated indices: {outs}", key="surplus")
    _r11a_twice(ctx)
    _r11a_validate(ctx)


def _r11a_twice(ctx):
    """two expansions in one run: the contracted indices of the second are generated anew (nothing between the request and the
    generator may be cached)"""
    rule = "R11a"
    fn = ctx.model.fn(IT + "expand_itmd")
    cn = (("k", ("occ", "")), ("c", ("virt", "")))
    src = IndexSource()

    def build(sx, a, kw):
        return Obj(None, "base", expr=sym("BASE"), target=tuple(mk_index(t) for t in "ijab"),
                   contracted=tuple(mk_index(c, s[0], s[1]) for c, s in cn))
    sx = _expand_sx(ctx, src, build, "expand_itmd twice")
    drv = ast.parse("r1 = self.expand_itmd(indices=I1, return_sympy=True, fully_expand=LEVEL)\n"
                    "r2 = self.expand_itmd(indices=I2, return_sympy=True, fully_expand=LEVEL)\n").body
    outs = sx.run_block(fn, drv, lambda: dict(self=Obj("intermediates:t2_2", "self", _default_idx=tuple("ijab")), LEVEL=sym("LEVEL"),
                                              I1=tuple(mk_index(x) for x in "mnef"), I2=tuple(mk_index(x) for x in "mnef")))
    done = [o for o in outs if o.kind == "fall"]
    ctx.check(rule, fn, len(done) >= 1, "two consecutive expansions complete", f"two consecutive expansions: {outs[:3]}", key="twice returns")
    for n_o, o in enumerate(done):
        s1, s2 = _subs_of(o.env["r1"]), _subs_of(o.env["r2"])
        if s1 is None or s2 is None:
            ctx.bad(rule, fn, "two expansions: result is not the substituted definition", key=f"twice shape {n_o}")
            continue
        i1 = {nm(v) for k, v in s1[1].items() if nm(k) in ("k", "c")}
        i2 = {nm(v) for k, v in s2[1].items() if nm(k) in ("k", "c")}
        ctx.check(rule, fn, not (i1 & i2) and len(i1) == 2 and len(i2) == 2,
                  "two expansions of one intermediate use disjoint contracted indices",
                  f"two expansions of the same intermediate share the contracted indices {sorted(i1 & i2)} (generated once and "
                  "re-used): in a product of two such factors an index occurs four times", key=f"twice {n_o}")


def _r11a_validate(ctx):
    rule = "R11a"
    vi = ctx.model.fn(IT + "validate_indices")
    default = ("i", "j", "a", "b")
    hooks = {"get_symbols": get_symbols_model}
    sx = Symex(ctx.model, inline=lambda q: q.split(".")[-1] not in ("get_symbols",), hooks=hooks, what="validate_indices")
    table = [(None, True), ("klcd", True), ("ijab", True), ("kl", False), ("klcde", False), ("", False)]
    for pos in range(4):
        bad = list("klcd")
        bad[pos] = "c" if pos < 2 else "k"
        table.append(("".join(bad), False))
    table += [("cdkl", False), ("kcld", False)]
    for given, valid in table:
        outs = sx.run(vi, lambda: dict(self=Obj("intermediates:t2_2", "self", _default_idx=default),
                                       indices=None if given is None else tuple(mk_index(x) for x in split_names(given))))
        if valid:
            want = list(default if given is None else split_names(given))
            ok = len(outs) == 1 and outs[0].kind == "return" and not isinstance(outs[0].value, T) and \
                [nm(x) for x in outs[0].value] == want
            ctx.check(rule, vi, ok, f"indices {given!r} accepted and returned in the given order",
                      f"validate_indices({given!r}) for defaults {default}: {outs}", key=f"validate {given}")
        else:
            ctx.check(rule, vi, outs and all(o.kind == "raise" for o in outs),
                      f"indices {given!r} refused (number / position-wise space differ from {''.join(default)})",
                      f"validate_indices accepts {given!r} for the default indices {''.join(default)}: the definition would be "
                      "expanded on indices of the wrong space", key=f"validate {given}")


def r11b(ctx):
    rule = "R11b"
    # t2_1.factor_itmd
    fn = ctx.model.fn("intermediates:t2_1.factor_itmd")
    lp = [n for n in walk_fn(fn) if isinstance(n, ast.For) and U(n.iter) == "expr.terms"]
    ctx.floor(rule, "term loop in t2_1.factor_itmd", len(lp), 1)

    def ev(acc):
        def is_event(n):
            return isinstance(n, ast.AugAssign) and isinstance(n.op, ast.Add) and U(n.target) == acc
        return is_event
    acc, drops = common.loop_conservation(ctx, rule, fn, lp[0], U(lp[0].target), is_event=ev("factored"))
    common.lost(ctx, rule, lp[0], U(lp[0].target), drops)
    ft = [n for n in walk_fn(fn) if isinstance(n, ast.AugAssign) and U(n.target) == "factored_term"]
    vals = sorted(U(n.value).replace(" ", "").replace("\n", "") for n in ft)
    ctx.check(rule, fn, vals == ["Pow(self.tensor(indices=eri.idx,return_sympy=True)/t2.pref,min_exp)", "term.pref*eri*term.num/denom"],
              "factored term = (t2/pref)^n * pref * remaining eri * num / remaining denom", f"factored term assembled from {vals}", key="t2_1 assembly")
    a = {U(x.targets[0]): U(x.value) for x in walk_fn(fn) if isinstance(x, ast.Assign)}
    ctx.check(rule, fn, a.get("min_exp") == "min(eri_exp, bk_exponent)" and a.get("denom") == "term.cancel_denom_brackets(denom_brackets_to_remove)"
              and a.get("eri") == "term.cancel_eri_objects(eri_obj_to_remove)", "integral and bracket removed equally often",
              "removal bookkeeping of t2_1 changed", key="t2_1 removal")
    ex = sorted(U(c.args[0]) for c in calls_in(fn) if call_name(c) == "extend")
    ctx.check(rule, fn, ex == ["(bk_idx for _ in range(min_exp))", "(eri_idx for _ in range(min_exp))"], "both removed min_exp times",
              f"{ex}", key="t2_1 multiplicity")
    mt = [n for n in walk_fn(fn) if isinstance(n, ast.If) and U(n.test) == "bk == sub_t2_denom"]
    ctx.check(rule, fn, len(mt) == 1, "bracket must equal the substituted t2 denominator", "denominator comparison changed", key="t2_1 denom match")
    # _factor_short_intermediate
    fs = ctx.model.fn(FI + "_factor_short_intermediate")
    lp = [n for n in walk_fn(fs) if isinstance(n, ast.For) and U(n.iter) == "terms"]
    ctx.floor(rule, "term loop in _factor_short_intermediate", len(lp), 1)
    acc, drops = common.loop_conservation(ctx, rule, fs, lp[0], U(lp[0].target), is_event=ev("factored"))
    common.lost(ctx, rule, lp[0], U(lp[0].target), drops)
    adds = sorted({U(n.value) for n in walk_fn(lp[0]) if isinstance(n, ast.AugAssign) and U(n.target) == "factored"})
    ctx.check(rule, fs, adds == ["factored_term", "term.expr"], "either the unchanged term or the factored term is added", f"adds {adds}",
              key="short adds")
    a = {U(x.targets[0]): U(x.value).replace("\n", "").replace(" ", "") for x in walk_fn(fs) if isinstance(x, ast.Assign)}
    ctx.check(rule, fs, a.get("pref") == "term.pref*variant_data['factor']/itmd.pref", "prefactor = term pref * factor / itmd pref",
              f"short prefactor {a.get('pref')}", key="short pref")
    ctx.check(rule, fs, a.get("factored_term") == "_build_factored_term(remainder,pref,itmd_cls,itmd_indices)", "factored term from remainder, pref, tensor",
              "short assembly changed", key="short assembly")
    ctx.check(rule, fs, a.get("itmd_indices") == "tuple((variant_data['sub'].get(s,s)forsinget_symbols(itmd_cls.default_idx)))",
              "intermediate indices = images of the default indices", "short itmd indices changed", key="short indices")
    # _factor_long_intermediate
    fl = ctx.model.fn(FI + "_factor_long_intermediate")
    tail = [n for n in walk_fn(fl) if isinstance(n, ast.For) and U(n.iter) == "enumerate(terms)" and any(
        isinstance(s, ast.If) and U(s.test) == "term_i not in factored_terms" for s in n.body)]
    ok = len(tail) == 1 and [U(s) for s in tail[0].body[0].body] == ["factored_terms.add(term_i)", "result += term"]
    ctx.check(rule, fl, ok, "terms not involved in a factorisation are added unchanged at the end", "tail loop changed", key="long tail")
    asr = [n for n in walk_fn(fl) if isinstance(n, ast.Assert) and U(n.test) == "len(factored_terms) == len(terms)"]
    ctx.check(rule, fl, len(asr) == 1, "every term accounted for", "accounting assertion removed", key="long assert")
    a = {U(x.targets[0]): U(x.value).replace("\n", "").replace(" ", "") for x in walk_fn(fl) if isinstance(x, ast.Assign)}
    ctx.check(rule, fl, a.get("prefactor") == "term.pref*variant_data['factor']*Rational(1,len(matching_itmd_terms))/itmd[itmd_i].pref",
              "prefactor normalised over the itmd terms the match spreads to", f"long prefactor {a.get('prefactor')}", key="long pref")
    ctx.check(rule, fl, a.get("unit_factorization_pref") == "itmd[itmd_i].pref*variant_data['factor']*len(matching_itmd_terms)",
              "unit factorisation prefactor", f"{a.get('unit_factorization_pref')}", key="long unit")
    for name in ("_factor_complete", "_factor_mixed_prefactors"):
        f = ctx.model.fn(FI + name)
        up = [c for c in calls_in(f) if call_name(c) == "update" and U(c.func.value) == "factored_terms"]
        ok = len(up) == 1 and U(up[0].args[0]) == "term_list"
        blk = enclosing_stmt(up[0])._parent.body if up else []
        texts = [U(s) for s in blk]
        ok = ok and "result += new_term" in texts and "intermediate_variants.remove_used_terms(term_list)" in texts
        ctx.check(rule, f, ok, f"{name}: used terms marked exactly when the factored term is added", f"{name}: bookkeeping changed", key=f"{name} pairing")
        nt = [x for x in walk_fn(f) if isinstance(x, ast.Assign) and U(x.targets[0]) == "new_term"]
        want = "_build_factored_term(rem, pref, itmd_cls, itmd_indices)" if name == "_factor_complete" else \
            "_build_factored_term(rem, most_common_pref, itmd_cls, itmd_indices)"
        ctx.check(rule, f, len(nt) == 1 and " ".join(U(nt[0].value).split()) == want, f"{name}: factored term from remainder and prefactor",
                  f"{name}: new term `{U(nt[0].value) if nt else None}`", key=f"{name} new term")
    fm = ctx.model.fn(FI + "_factor_mixed_prefactors")
    a = {U(x.targets[0]): U(x.value).replace(" ", "") for x in walk_fn(fm) if isinstance(x, ast.Assign)}
    ctx.check(rule, fm, a.get("desired_pref") == "most_common_pref*unit_factors[term_i]" and a.get("extension_pref") == "term.pref-desired_pref"
              and a.get("term") in ("extension_pref*term.num*term.eri/term.denom",),
              "completion term = (pref - desired pref) * term", f"completion: {a.get('desired_pref')}, {a.get('extension_pref')}, {a.get('term')}",
              key="mixed completion")
    sk = [n for n in walk_fn(fm) if isinstance(n, ast.Continue)]
    ctx.check(rule, fm, len(sk) == 1 and U(sk[0]._parent.test) == "p == most_common_pref or term_i in terms_to_add",
              "only terms with a different prefactor are completed, once", "selection of terms to complete changed", key="mixed selection")
    # factor_itmd split
    fi = ctx.model.fn(IT + "factor_itmd")
    sp = [n for n in walk_fn(fi) if isinstance(n, ast.For) and U(n.iter) == "zip(terms, term_is_relevant)"]
    ok = len(sp) == 1 and U(sp[0].body[0]) == "if is_relevant:\n    to_factor += term\nelse:\n    remainder += term.sympy"
    ctx.check(rule, fi, ok, "every term goes either to the part to factor or to the remainder", "relevant/irrelevant split changed", key="split")
    fin = sorted(U(x) for x in walk_fn(fi) if isinstance(x, (ast.Assign, ast.AugAssign)) and "remainder" in U(x) and "factored" in U(x))
    ctx.check(rule, fi, fin == ["factored += remainder", "factored = to_factor + remainder"], "remainder added back in both branches",
              f"recombination {fin}", key="recombine")
    early = [U(r.value) for r in common.returns_of(fi)]
    ctx.check(rule, fi, early == ["expr", "expr", "factored"], "nothing to factor: expression unchanged", f"returns {early}", key="early")
    top = ctx.model.fn(FI + "factor_intermediates")
    lp = [n for n in walk_fn(top) if isinstance(n, ast.For) and U(n.iter) == "itmd_to_factor.items()"]
    ok = len(lp) == 1 and any(U(s) == "expr = itmd_cls.factor_itmd(expr, factored, max_order)" for s in lp[0].body) \
        and any(U(s) == "factored.append(name)" for s in lp[0].body)
    ctx.check(rule, top, ok, "intermediates factored one after another on the running expression", "driver loop changed", key="driver")
    flt = [x for x in walk_fn(top) if isinstance(x, ast.Assign) and isinstance(x.value, ast.DictComp)]
    ctx.check(rule, top, len(flt) == 1 and [U(i) for i in flt[0].value.generators[0].ifs] == ["itmd_cls.order <= max_order"],
              "max_order filter", "max_order filter changed", key="max order")


def _tensor_provider(names):
    """abstract intermediate class: ``tensor(...)`` hands out a tensor record and logs how it was requested"""
    log = []

    def tensor(sx, a, kw):
        nm_ = names[len(log) % len(names)] if isinstance(names, (list, tuple)) else names
        log.append((tuple(a), dict(kw)))
        o = Obj(None, f"TENSOR{len(log) - 1}")
        o.attrs.update(name=nm_)
        return o
    cls = Obj(None, "itmd_cls")
    cls.attrs.update(tensor=tensor, name="t9_9")
    return cls, log


def r11c(ctx):
    rule = "R11c"
    fn = ctx.model.fn(FI + "_build_factored_term")
    sx = Symex(ctx.model, inline=lambda q: True, what="_build_factored_term")
    IDX = tuple(mk_index(x) for x in "ijab")
    for name in ("Zero", "t2eri4", "t2eri_4", "Z", "Zeroo", "zero", "ZERO", "t1", "t2sq", "p2", "", sym("NAME")):
        st = {}

        def args():
            st["cls"], st["log"] = _tensor_provider(name)
            return dict(remainder=sym("REM"), pref=sym("PREF"), itmd_cls=st["cls"], itmd_indices=IDX)
        outs = sx.run(fn, args)
        for o in outs:
            tag = show(name) if isinstance(name, T) else repr(name)
            if o.kind != "return":
                ctx.bad(rule, fn, f"_build_factored_term raises {o.exc} for a tensor named {tag}", key=f"raise {tag}")
                continue
            is_zero_name = name == "Zero" or (isinstance(name, T) and any(
                pol and a == T("cmp", "==", *sorted(("Zero", name), key=repr)) for a, pol in o.path))
            v = strip(o.value, calls=("Expr",))
            if is_zero_name:
                asm = [c for c in subterms(o.value) if c.op == "call" and c.args[0] == "Expr"]
                ok = v == 0 and asm and any(x == T("attr", sym("REM"), "assumptions") for c in asm for x in subterms(c))
                ctx.check(rule, fn, bool(ok), "the placeholder tensor 'Zero' resolves to 0 with the assumptions of the remainder",
                          f"_build_factored_term for the placeholder 'Zero' returns {show(o.value)[:160]}", key=f"zero placeholder {tag}")
            else:
                tens = sym("TENSOR0")
                prods = expand_products(v)
                ok = len(prods) == 1 and prods[0][0] == 1 and sorted(map(show, prods[0][1])) == sorted(map(show, [sym("REM"), sym("PREF"), tens]))
                ctx.check(rule, fn, ok, f"tensor named {tag}: factored term = remainder * pref * tensor",
                          f"_build_factored_term for a tensor named {tag} returns {show(o.value)[:160]} on the path {o.path!r}; only the "
                          "placeholder 'Zero' of the residuals may be resolved to 0, everything else is remainder * pref * tensor",
                          key=f"assembly {tag}" if v != 0 else f"zero placeholder {tag}")
            lg = st["log"]
            okt = len(lg) >= 1 and all(tuple(k.get("indices", a[0] if a else ())) == IDX and k.get("return_sympy", a[1] if len(a) > 1 else False) is True
                                       for a, k in lg)
            ctx.check(rule, fn, okt, "tensor of the factored intermediate on the found indices",
                      f"_build_factored_term requests the tensor as {lg}", key=f"tensor {tag}")
    tab = tensor_table(ctx)
    for name, info in tab.items():
        builds_zero = info["tensor_name"] == "Zero"
        ctx.check(rule, info["cls"], builds_zero == (info["itmd_type"] == "re_residual"),
                  f"{name}: {'builds' if builds_zero else 'does not build'} the Zero placeholder",
                  f"{name} (type {info['itmd_type']}) {'builds' if builds_zero else 'does not build'} the 'Zero' placeholder; only "
                  "residuals (which vanish for converged amplitudes) may be factored to 0", key=f"zero {name}")


DEF_VOCAB = {"expand_itmd", "tensor", "get_symbols", "eri", "fock", "orb_energy", "sort_idx_canonical"}


def _abstract_registry(classes):
    r = {}
    for cname, cls in classes.items():
        at = class_attrs(cls)
        r.setdefault(at.get("_itmd_type"), {})[cname] = Obj(f"intermediates:{cname}", cname, **at)
    return r


def _references(value, names):
    """calls X.expand_itmd(...) / X.tensor(...) on registered intermediates inside an evaluated definition"""
    out = []
    for t in subterms(value):
        if t.op == "mcall" and t.args[1] in ("expand_itmd", "tensor") and nm(t.args[0]) in names:
            out.append(t)
    return out


def r11d(ctx):
    """every definition, evaluated for both expansion levels: the intermediates it is built from are expanded recursively
    (X.expand_itmd, itself fully expanding) when fully_expand is set and stay tensors (X.tensor) otherwise; both levels
    are the same formula"""
    rule = "R11d"
    classes = registered_classes(ctx)
    sx = Symex(ctx.model, inline=lambda q: q.split(":")[-1].split(".")[-1] not in DEF_VOCAB, hooks={"get_symbols": get_symbols_model},
               what="_build_expanded_itmd", max_paths=256)
    n = 0
    for cname, cls in classes.items():
        fn = ctx.model.fn(f"intermediates:{cname}._build_expanded_itmd")
        attrs = class_attrs(cls)
        residual = attrs.get("_itmd_type") == "re_residual"
        exprs = {}
        for level in (True, False):
            outs = sx.run(fn, lambda: dict(self=Obj(f"intermediates:{cname}", "self", _registry=_abstract_registry(classes), **attrs),
                                           fully_expand=level))
            rets = [o for o in outs if o.kind == "return"]
            if not rets or len(rets) != len(outs):
                ctx.bad(rule, fn, f"{cname}._build_expanded_itmd({level}) does not return on every path: {outs[:3]}",
                        fn=f"intermediates:{cname}._build_expanded_itmd", key=f"{cname} returns {level}")
                continue
            want = "tensor" if residual or not level else "expand_itmd"
            refs = {}
            for o in rets:
                for t in _references(o.value, classes):
                    refs.setdefault(nm(t.args[0]), set()).add((t.args[1], args_of(t).get("fully_expand")))
            for var, uses in sorted(refs.items()):
                n += 1
                ok = all(m == want and (m == "tensor" or fe is True) for m, fe in uses)
                how = sorted(f"{m}" + ("" if fe in (None, True) else f"(fully_expand={fe})") for m, fe in uses)
                if residual:
                    ctx.check(rule, fn, ok, f"{cname}({level}): residual uses {var}.tensor only",
                              f"{cname}: residual definitions must reference `{var}` through .tensor, found {how} for fully_expand={level}",
                              fn=f"intermediates:{cname}._build_expanded_itmd", key=f"{cname} {var} {level}")
                else:
                    ctx.check(rule, fn, ok, f"{cname}(fully_expand={level}): `{var}` enters as {var}.{want}",
                              f"{cname}: for fully_expand={level} the referenced intermediate `{var}` enters as {how}, expected "
                              f"{var}.{want}: the expansion level is ignored for it", fn=f"intermediates:{cname}._build_expanded_itmd",
                              key=f"{cname} {var} {level}")
            # the defining expression of the level (first field of base_expr), wrappers of the index minimisation removed
            vals = []
            for o in rets:
                v = o.value
                a = args_of(v) if isinstance(v, T) and v.op == "call" else {}
                vals.append(a.get("expr", a.get(0)))
            exprs[level] = vals
        if residual or True not in exprs or False not in exprs:
            continue

        def norm(v):
            def f(x):
                if x.op == "mcall" and x.args[1] in ("expand_itmd", "tensor") and nm(x.args[0]) in classes:
                    kw = tuple((k, val) for k, val in x.args[3] if k != "fully_expand")
                    return T("mcall", x.args[0], "REF", x.args[2], kw)
                return x
            from ..terms import rebuild
            v = strip(v, calls=("Expr",), mcalls=("substitute_contracted",), attrs=("sympy",))
            return repr(canon(rebuild(v, f)))
        a, b = {norm(v) for v in exprs[True]}, {norm(v) for v in exprs[False]}
        ctx.check(rule, fn, a == b and len(a) == 1, f"{cname}: both expansion levels evaluate the same formula",
                  f"{cname}: the definition for fully_expand=True is not the definition for fully_expand=False with every referenced "
                  f"intermediate expanded: {sorted(a)[0][:300]} vs {sorted(b)[0][:300]}", fn=f"intermediates:{cname}._build_expanded_itmd",
                  key=f"{cname} levels")
    ctx.floor(rule, "references to other intermediates", n, 60)


# ---------------------------------------------------------------------------
# the tensors of the registered intermediates, by evaluation of _build_tensor, of the tensor constructors, of
# <tensor>.idx and of Obj.longname (nothing is read off the source text)

_TT_CACHE = {}
SINGLETONS = ("S.Zero", "S.One", "S.NegativeOne")


def class_attrs(cls):
    """literal class attributes (the declared interface of a registered intermediate: _itmd_type, _order, _default_idx)"""
    out = {}
    for n in cls.body:
        tgt, val = (n.target, n.value) if isinstance(n, ast.AnnAssign) else (n.targets[0], n.value) if isinstance(n, ast.Assign) else (None, None)
        if isinstance(tgt, ast.Name) and val is not None:
            try:
                out[tgt.id] = ast.literal_eval(val)
            except Exception:
                pass
    return out


def registered_classes(ctx):
    m = ctx.model.module("intermediates")
    sx = Symex(ctx.model)
    out = {}
    for cname, cls in m.classes.items():
        if cname != "RegisteredIntermediate" and "RegisteredIntermediate" in sx._bases(f"intermediates:{cname}"):
            out[cname] = cls
    if len(out) < 5:
        raise AnalysisError("no registered intermediates found")
    return out


def tensor_names_model(model, renamed=None):
    """the TensorNames singleton (configured names; ``renamed`` models a tensor_names.json) and its dataclass fields"""
    fields = class_attrs(model.cls("tensor_names:TensorNames"))
    fields = {k: v for k, v in fields.items() if isinstance(v, str)}
    vals = dict(fields)
    vals.update(renamed or {})
    o = Obj("tensor_names:TensorNames", "tensor_names", **vals)
    flds = []
    for k, v in fields.items():
        f = Obj(None, f"field:{k}")
        f.attrs.update(name=k, default=v)
        flds.append(f)
    return o, flds


def tensor_index(name):
    o = mk_index(name)
    o.attrs.update(_classes=("Index",), dummy_index=0)
    return o


class TensorWorld:
    """Models of the sympy primitives the tensor constructors use: sympify (numbers -> singletons, names -> symbols),
    Tuple, the fermion sort (stable sort by the library's own key with the number of transpositions), object creation."""

    def __init__(self, model, renamed=None):
        self.model = model
        self.made = {}
        tn, flds = tensor_names_model(model, renamed)
        self.hooks = {"tensor_names": tn, "fields": lambda sx, a, kw: flds, "sympify": self.sympify, "Tuple": self.tuple_,
                      "_sort_anticommuting_fermions": self.sort_fermions, "super": self.super_, "get_symbols": get_symbols_model,
                      "len": self.len_}
        self.sx = Symex(model, inline=lambda q: True, hooks=self.hooks, what="tensor construction")
        self.sx.on_start = self.start

    def start(self, sx):
        for i, a in enumerate(SINGLETONS):
            for b in SINGLETONS[i + 1:]:
                sx.assume(T("cmp", "is", *sorted((sym(a), sym(b)), key=repr)), False)

    @staticmethod
    def sympify(sx, a, kw):
        x = a[0]
        if isinstance(x, bool):
            return x
        if isinstance(x, int):
            from ..symex import Ext
            return {0: Ext("S.Zero"), 1: Ext("S.One"), -1: Ext("S.NegativeOne")}.get(x, x)
        if isinstance(x, str):
            o = Obj(None, f"Symbol({x})")
            o.attrs.update(name=x)
            return o
        return x

    @staticmethod
    def len_(sx, a, kw):
        if len(a) == 1 and isinstance(a[0], Obj) and isinstance(a[0].attrs.get("args"), tuple):
            return len(a[0].attrs["args"])
        return NotImplemented

    @staticmethod
    def tuple_(sx, a, kw):
        o = Obj(None, "Tuple(" + ",".join(nm(x) if isinstance(x, Obj) else str(x) for x in a) + ")")
        o.attrs.update(args=tuple(a))
        return o

    @staticmethod
    def sort_fermions(sx, a, kw):
        from ..symex import Raised
        seq = list(a[0])
        key = kw.get("key")
        ks = [sx.call_value(key, [x], {}, None) if key is not None else x for x in seq]
        if any(isinstance(k, T) for k in ks):
            return NotImplemented
        if len({repr(k) for k in ks}) != len(ks):
            raise Raised("ViolationOfPauliPrinciple")
        order, swaps = list(range(len(seq))), 0
        for i in range(len(order)):
            for j in range(len(order) - 1 - i):
                if ks[order[j]] > ks[order[j + 1]]:
                    order[j], order[j + 1] = order[j + 1], order[j]
                    swaps += 1
        return [seq[i] for i in order], swaps

    def super_(self, sx, a, kw):
        def new(sx_, args, kw_):
            cls = args[0]
            kind = cls.name if isinstance(cls, Obj) else str(cls)
            o = Obj(f"sympy_objects:{kind}", f"<{kind} #{len(self.made)}>")
            o.attrs.update(args=tuple(args[1:]), is_number=False)
            self.made[o.name] = o
            return o
        o = Obj(None, "super")
        o.attrs["__new__"] = new
        return o

    def construct(self, kind, name, groups, bks):
        """-> (tensor record, sign) of ``kind(name, *groups[, bks])`` evaluated through the constructor"""
        r = self.sx.find_method(f"sympy_objects:{kind}", "__new__")
        if r is None:
            raise AnalysisError(f"constructor of {kind} not found")
        fn = r[0]
        params = [a.arg for a in fn.args.args][2:]

        def args():
            d = dict(cls=Obj(f"sympy_objects:{kind}", kind), name=name)
            for p_, g in zip(params, list(groups) + ([bks] if bks is not None else [])):
                d[p_] = g
            return d
        outs = self.sx.run(fn, args)
        if len(outs) != 1 or outs[0].kind != "return":
            raise AnalysisError(f"construction of {kind}({name}, {groups}, {bks}) is not deterministic: {outs}")
        v = outs[0].value
        if isinstance(v, Obj):
            return v, 1
        if isinstance(v, T) and v.op == "mul" and len(v.args) == 2 and v.args[0] == -1 and nm(v.args[1]) in self.made:
            return self.made[nm(v.args[1])], -1
        raise AnalysisError(f"construction of {kind}({name}, ...) returns {show(v)[:120]}")

    def read_idx(self, tensor):
        kind = tensor.cls.split(":")[1]
        r = self.sx.find_method(tensor.cls, "idx")
        if r is None:
            raise AnalysisError(f"{kind}.idx not found")
        outs = self.sx.run(r[0], lambda: dict(self=tensor))
        if len(outs) != 1 or outs[0].kind != "return" or isinstance(outs[0].value, T):
            raise AnalysisError(f"{kind}.idx is not evaluable: {outs}")
        return tuple(outs[0].value)

    def container(self, tensor):
        return Obj("expr_container:Obj", "obj", sympy=tensor)

    def longname(self, tensor, use_default_names=True):
        fn = self.model.fn("expr_container:Obj.longname")
        outs = self.sx.run(fn, lambda: dict(self=self.container(tensor), use_default_names=use_default_names))
        if len(outs) != 1:
            raise AnalysisError(f"Obj.longname is not deterministic for {tensor}: {outs}")
        return outs[0].value if outs[0].kind == "return" else f"<raises {outs[0].exc}>"


def tensor_table(ctx, renamed=None):
    key = (ctx.model.digest, repr(sorted((renamed or {}).items())))
    if key in _TT_CACHE:
        for mname in ("intermediates", "sympy_objects", "expr_container", "tensor_names"):
            ctx.model.used_modules.add(mname)
        return _TT_CACHE[key]
    w = TensorWorld(ctx.model, renamed)
    ctx.model.module("sympy_objects"), ctx.model.module("expr_container"), ctx.model.module("tensor_names")
    out = {}
    for cname, cls in registered_classes(ctx).items():
        attrs = class_attrs(cls)
        try:
            itype, order, didx = attrs["_itmd_type"], attrs["_order"], tuple(attrs["_default_idx"])
        except KeyError as e:
            raise AnalysisError(f"{cname}: class attribute {e} not literal")
        bt = ctx.model.fn(f"intermediates:{cname}._build_tensor")
        outs = w.sx.run(bt, lambda: dict(self=Obj(f"intermediates:{cname}", "self", **attrs), indices=tuple(tensor_index(x) for x in didx)))
        if len(outs) != 1 or outs[0].kind != "return" or not (isinstance(outs[0].value, T) and outs[0].value.op == "call"):
            raise AnalysisError(f"{cname}._build_tensor does not return one tensor: {outs}")
        a = args_of(outs[0].value)
        kind = outs[0].value.args[0]
        name = a.get("name")
        if not isinstance(name, str):
            raise AnalysisError(f"{cname}._build_tensor: tensor name is not determined by the configuration: {show(name)}")
        given = [tuple(nm(x) for x in a[k]) for k in ("upper", "lower", "indices") if k in a]
        if not given or any(not isinstance(x, str) for g in given for x in g):
            raise AnalysisError(f"{cname}._build_tensor: index groups not determined: {show(outs[0].value)}")
        bks = a.get("bra_ket_sym")
        tensor, sign = w.construct(kind, name, [tuple(tensor_index(x) for x in g) for g in given], bks)
        built = [tuple(nm(x) for x in g.attrs["args"]) for g in tensor.attrs["args"][1:] if isinstance(g, Obj) and "args" in g.attrs]
        idx = tuple(nm(x) for x in w.read_idx(tensor))
        out[cname] = {"cls": cls, "itmd_type": itype, "order": order, "default_idx": didx, "kind": kind, "tensor_name": name,
                      "given": given, "built": built, "sign": sign, "bra_ket_sym": bks, "idx": idx,
                      "longname": w.longname(tensor, True), "build_tensor": bt}
    _TT_CACHE[key] = out
    return out


RENAMED = {"gs_amplitude": "amp", "gs_density": "rho", "eri": "W", "fock": "F"}


def r11e(ctx):
    rule = "R11e"
    n = 0
    for tag, renamed in (("default names", None), ("renamed tensors", RENAMED)):
        tab = tensor_table(ctx, renamed)
        ctx.floor(rule, "registered intermediate classes", len(tab), 25)
        for name, info in tab.items():
            if info["tensor_name"] == "Zero":
                ctx.ok(rule, info["cls"], f"{name}: Zero placeholder (resolved by _build_factored_term)", fn=f"intermediates:{name}",
                       key=f"name {name} {tag}")
                continue
            ln = info["longname"]
            n += 1
            ctx.check(rule, info["cls"], ln == name, f"{name}: longname of its tensor `{info['tensor_name']}` is `{ln}` [{tag}]",
                      f"the tensor `{info['tensor_name']}` built by {name}._build_tensor has the default long name `{ln}` [{tag}]; "
                      f"Obj.expand_intermediates looks intermediates up by that name, so `{name}` is never found (or another definition "
                      "is used)", fn=f"intermediates:{name}", key=f"name {name} {tag}")
    # the registry: flattened by class name; classes registered under their class name
    av = ctx.model.fn("intermediates:Intermediates.__init__")
    reg = {"t_amplitude": {"t2_1": sym("T21"), "t1_2": sym("T12")}, "mp_density": {"p0_2_oo": sym("P2")}, "empty": {}}
    me = {}

    def mk_self():
        me["self"] = Obj("intermediates:Intermediates", "self")
        return dict(self=me["self"])

    def ri(sx_, a, kw):
        o = Obj("intermediates:RegisteredIntermediate", "base")
        o.attrs["_registry"] = {k: dict(v) for k, v in reg.items()}
        return o
    sx = Symex(ctx.model, inline=lambda q: True, hooks={"RegisteredIntermediate": ri}, what="Intermediates.__init__")
    outs = sx.run(av, mk_self)
    flat = {k: v for d in reg.values() for k, v in d.items()}
    got = None
    if len(outs) == 1 and outs[0].kind == "return":
        fa = Symex(ctx.model, inline=lambda q: True, what="Intermediates.available")
        o2 = fa.run("intermediates:Intermediates.available", lambda: dict(self=me["self"]))
        got = o2[0].value if len(o2) == 1 and o2[0].kind == "return" else None
    ctx.check(rule, av, got == flat, "available = all registered classes by class name",
              f"Intermediates().available for the registry {reg} is {got}, expected {flat}", key="available")
    isub = ctx.model.fn("intermediates:RegisteredIntermediate.__init_subclass__")
    sx = Symex(ctx.model, inline=lambda q: True, what="__init_subclass__")
    from ..symex import ClassRef
    outs = sx.run(isub, lambda: dict(cls=ClassRef(ctx.model.module("intermediates"), "t2_1")))
    c = sym("t2_1")
    want = T("setitem", T("item", T("attr", c, "_registry"), T("attr", c, "_itmd_type")), T("attr", c, "__name__"), T("call", "t2_1", (), ()))
    paths = [o for o in outs if o.kind == "return" and any(not pol and a.op == "cmp" and a.args[0] == "in" and
                                                          a.args[1] == T("attr", c, "__name__") for a, pol in o.path)]
    ctx.check(rule, isub, bool(paths) and all(want in o.effects for o in paths), "classes registered as an instance under their class name",
              f"__init_subclass__ of a class that is not registered yet: effects {[o.effects for o in paths]}, expected {show(want)}",
              key="register")
    from . import c19
    c19.r19h(ctx)
    _r11e_lookup(ctx)


def _r11e_lookup(ctx):
    """Obj.expand_intermediates: the definition is the registry entry under the default long name of the tensor and is
    expanded on the tensor's own indices in the order the tensor lists them"""
    rule = "R11e"
    ob = ctx.model.fn("expr_container:Obj.expand_intermediates")
    calls_seen = []

    def longname(sx_, a, kw):
        d = kw.get("use_default_names", a[1] if len(a) > 1 else False)
        return "t9_9" if d is True else "configured_name"
    itm = Obj(None, "ITMD")
    other = Obj(None, "OTHER")

    def expand(tag):
        def f(sx_, a, kw):
            calls_seen.append((tag, tuple(a), dict(kw)))
            return sym(f"{tag}.expanded")
        return f
    itm.attrs["expand_itmd"] = expand("ITMD")
    other.attrs["expand_itmd"] = expand("OTHER")

    def intermediates(sx_, a, kw):
        o = Obj(None, "Intermediates()")
        o.attrs["available"] = {"t9_9": itm, "configured_name": other}
        return o
    idx = tuple(mk_index(x) for x in "ijab")
    sx = Symex(ctx.model, inline=lambda q: q.split(".")[-1] not in ("longname",), hooks={"longname": longname, "Intermediates": intermediates},
               what="Obj.expand_intermediates")

    def args():
        del calls_seen[:]
        base = Obj("sympy_objects:Amplitude", "tensor")
        return dict(self=Obj("expr_container:Obj", "obj", base=base, sympy=base, exponent=1, idx=idx, assumptions={}), target=idx,
                    return_sympy=True, fully_expand=sym("LEVEL"))
    outs = sx.run(ob, args)
    ok = len(outs) >= 1 and all(o.kind == "return" for o in outs) and calls_seen and all(c[0] == "ITMD" for c in calls_seen)
    ctx.check(rule, ob, ok, "definition looked up in the registry under the default long name",
              f"Obj.expand_intermediates expands {[c[0] for c in calls_seen]} (outcomes {outs[:2]}): the registry is keyed by the default "
              "long name of the tensor", key="lookup")
    good = calls_seen and all(tuple(c[2].get("indices", c[1][0] if c[1] else ())) == idx and c[2].get("fully_expand", None) == sym("LEVEL")
                              for c in calls_seen)
    ctx.check(rule, ob, bool(good), "expanded on the indices of the tensor in the order it lists them, expansion level forwarded",
              f"Obj.expand_intermediates calls expand_itmd with {[(c[1], c[2]) for c in calls_seen]}", key="lookup arguments")


def r11f(ctx):
    rule = "R11f"
    tab = tensor_table(ctx)
    for name, info in tab.items():
        d = info["default_idx"]
        got = info["idx"]
        ctx.check(rule, info["cls"], list(got) == list(d), f"{name}: tensor.idx reproduces {tuple(d)}",
                  f"{name}: Obj.expand_intermediates hands the indices to expand_itmd in the order {got} (read back from the constructed "
                  f"{info['kind']}), but the definition expects _default_idx order {tuple(d)}", fn=f"intermediates:{name}", key=f"order {name}")
        ctx.check(rule, info["cls"], info["built"] == info["given"] and info["sign"] == 1,
                  f"{name}: construction keeps the default index groups {info['given']} and the sign",
                  f"{name}: the default index groups {info['given']} are stored as {info['built']} with sign {info['sign']}: construction "
                  "permutes the defaults and the read-back order / sign differs from the definition", fn=f"intermediates:{name}",
                  key=f"canonical {name}")
        flat = [x for g in info["given"] for x in g]
        ctx.check(rule, info["cls"], sorted(flat) == sorted(d) and len(set(flat)) == len(flat), f"{name}: _build_tensor distributes every index once",
                  f"{name}: _build_tensor builds the tensor on {info['given']}; the indices {tuple(d)} are not used exactly once",
                  fn=f"intermediates:{name}", key=f"partition {name}")


# ---------------------------------------------------------------------------
# R11h / R11i: the pool of matches of a long intermediate (concrete decision tables)

LV = FI + "LongItmdVariants."


def _pools():
    """Small pools {itmd_indices: {remainder: {positions: [(term_i, pref, unit pref)]}}}: hand-made corner cases and a
    deterministic enumeration (position order, empty lists, terms listed at none / some / all positions)."""
    F = Fraction
    yield {("i", "a"): {"R0": {(0,): [(0, 1, 1), (1, 2, 1)], (1,): [(2, 1, 1)], (0, 1): [(0, 1, 1), (3, 1, 2)]}, "R1": {(0,): [(5, 1, 1)]}},
           ("j", "b"): {"R2": {(1,): [(0, 1, 1)], (0,): [(4, 1, 1), (0, 3, 1)]}}}
    yield {("i", "a"): {"R0": {(0,): [(4, 1, 1)], (1,): [(0, 1, 1)], (2,): [(0, F(1, 2), 1), (0, 1, -1), (1, 1, 1)]}}}
    yield {("i", "a"): {"R0": {(0,): [(0, 1, 1)], (1,): [(1, 1, 1)]}, "R1": {(0,): [(2, 1, 1)]}}, ("j", "b"): {"R0": {(0,): [(0, 1, 1)]}}}
    yield {("i", "a"): {"R0": {}}, ("j", "b"): {}}
    yield {}
    import itertools
    import random
    rnd = random.Random(11)
    for n in range(40):
        pool = {}
        for ik in range(rnd.randint(1, 3)):
            rems = {}
            for rk in range(rnd.randint(0, 3)):
                pos = {}
                for pk in rnd.sample([(0,), (1,), (2,), (0, 1), (1, 2), (0, 1, 2)], rnd.randint(0, 4)):
                    pos[pk] = [(rnd.randint(0, 4), rnd.choice([1, -1, F(1, 2)]), rnd.choice([1, -1, 2])) for _ in range(rnd.randint(0, 3))]
                rems[f"R{rk}"] = pos
            pool[("i", "a", ik)] = rems
        yield pool


def _copy_pool(p):
    return {k: {r: {pos: list(ms) for pos, ms in d.items()} for r, d in v.items()} for k, v in p.items()}


def r11h(ctx):
    """pool clean-up of LongItmdVariants: evaluated on concrete pools against the specification"""
    rule = "R11h"
    ru = ctx.model.fn(LV + "remove_used_terms")
    ce = ctx.model.fn(LV + "clean_empty")
    sx = Symex(ctx.model, inline=lambda q: True, what="LongItmdVariants clean-up")
    n = 0
    for k, pool in enumerate(_pools()):
        for used in ([0], [0, 2], [1, 3, 4], [], [0, 1, 2, 3, 4, 5]):
            # specification: no match of a used term survives anywhere, every other match survives in order, positions
            # whose list became empty disappear (positions empty before stay as they are only if they were non-empty)
            want = {}
            for ik, rems in pool.items():
                want[ik] = {}
                for r, poss in rems.items():
                    want[ik][r] = {}
                    for pos, ms in poss.items():
                        left = [m for m in ms if m[0] not in used]
                        if left:
                            want[ik][r][pos] = left
            st = {}

            def args():
                st["p"] = _copy_pool(pool)
                return dict(self=st["p"], used_terms=list(used))
            outs = sx.run(ru, args)
            ok = len(outs) == 1 and outs[0].kind == "return" and st["p"] == want
            n += 1
            if not ok:
                left = sorted({m[0] for rems in st["p"].values() for poss in rems.values() for ms in poss.values() for m in ms} & set(used))
                ctx.bad(rule, ru, f"remove_used_terms({used}) on the pool {pool} leaves {st['p']}, expected {want}"
                        + (f": matches of the used terms {left} stay in the pool and the terms are factored a second time" if left else ""),
                        key=f"remove_used_terms pool {k} used {used}")
            else:
                ctx.ok(rule, ru, f"remove_used_terms({used}) on pool {k}: every match of a used term removed, everything else kept",
                       key=f"remove_used_terms pool {k} used {used}")
            # clean_empty afterwards: exactly the empty remainders and the indices without remainders vanish
            want2 = {ik: {r: poss for r, poss in rems.items() if poss} for ik, rems in want.items()}
            want2 = {ik: rems for ik, rems in want2.items() if rems}
            st2 = {}

            def args2():
                st2["p"] = _copy_pool(want)
                return dict(self=st2["p"])
            outs = sx.run(ce, args2)
            ok = len(outs) == 1 and outs[0].kind == "return" and st2["p"] == want2
            ctx.check(rule, ce, ok, f"clean_empty on pool {k}/{used}: empty remainders and index entries removed, nothing else",
                      f"clean_empty on {want} leaves {st2['p']}, expected {want2}", key=f"clean_empty pool {k} used {used}")
    ctx.floor(rule, "pool clean-up evaluations", n, 100)


def r11i(ctx):
    """LongItmdVariants.add: a match is filed under the first stored remainder it can be mapped onto, with BOTH stored
    prefactors multiplied by the sign of that mapping; otherwise it founds a new remainder with the prefactors as given"""
    rule = "R11i"
    fn = ctx.model.fn(LV + "add")
    F = Fraction
    IDX = ("i", "a")
    cases = []
    for pref, unit in ((F(1, 2), 3), (2, 2), (-1, F(1, 4)), (1, 1)):
        for signs in (("R0", -1), ("R0", 1), ("R1", -1), ("R1", 1), (None, None)):
            cases.append((pref, unit, signs))
    n = 0
    for pref, unit, (hit, sign) in cases:
        for existing in ("other", "same", "none", "dup", "dupsign"):
            if existing == "none":
                pool0 = {}
            else:
                pool0 = {IDX: {"R0": {(0, 1): [(7, 1, 1)]}, "R1": {(2,): [(8, 1, 1)]}}, ("j", "b"): {"R0": {(0, 1): [(9, 1, 1)]}}}
                if existing == "same":
                    pool0[IDX][hit or "R0"][(0, 1)] = [(1, 5, 5)]
                if existing in ("dup", "dupsign") and hit is not None:
                    pool0[IDX][hit][(0, 1)] = [(1, pref * sign, unit * sign * (-1 if existing == "dupsign" else 1))]
            st = {}
            seen = []

            def cmp_model(sx_, a, kw):
                ref = kw.get("ref_remainder", a[1] if len(a) > 1 else None)
                seen.append((kw.get("remainder", a[0] if a else None), ref, kw.get("itmd_indices", a[2] if len(a) > 2 else None)))
                return sign if ref == hit else None
            sx = Symex(ctx.model, inline=lambda q: not q.endswith("_compare_remainder"), hooks={"_compare_remainder": cmp_model},
                       what="LongItmdVariants.add")

            def args():
                st["p"] = _copy_pool(pool0)
                del seen[:]
                return dict(self=st["p"], term_i=1, itmd_indices=IDX, remainder="NEW", matching_itmd_terms=(1, 0), prefactor=pref,
                            unit_factorization_pref=unit)
            outs = sx.run(fn, args)
            want = _copy_pool(pool0)
            want.setdefault(IDX, {})
            if hit is not None and hit in want[IDX]:
                rec = (1, pref * sign, unit * sign)
                lst = want[IDX][hit].setdefault((0, 1), [])
                if not any(m[0] == 1 and m[1] == rec[1] and abs(m[2]) == abs(rec[2]) for m in lst):
                    lst.append(rec)
            else:
                want[IDX]["NEW"] = {(0, 1): [(1, pref, unit)]}
            got = st.get("p")
            ok = len(outs) == 1 and outs[0].kind == "return" and got == want
            n += 1
            what = f"add(pref={pref}, unit={unit}) with stored remainders matching {hit} by {sign} [{existing}]"
            why = f"{what}: pool becomes {got}, expected {want}"
            if not ok and got is not None and hit is not None:
                recs = [m for m in got.get(IDX, {}).get(hit, {}).get((0, 1), []) if m[0] == 1]
                if recs and recs[-1][1] == pref * sign and recs[-1][2] != unit * sign:
                    why += (": the stored prefactor refers to the stored remainder, the unit factorisation prefactor to the unmapped one; "
                            "_factor_mixed_prefactors then completes the term with the wrong sign")
            ctx.check(rule, fn, ok, f"{what}: record filed with both prefactors referring to the stored remainder", why,
                      key=f"add {pref} {unit} {hit} {sign} {existing}")
            # the comparison is made against the stored remainders of the same itmd indices, with those indices fixed
            okc = all(r == "NEW" and i == IDX for r, ref, i in seen) and (existing == "none" or [ref for _, ref, _ in seen] ==
                                                                          (["R0", "R1"][:(["R0", "R1"].index(hit) + 1) if hit else 2]))
            ctx.check(rule, fn, okc, f"{what}: compared with the stored remainders of these itmd indices in order",
                      f"{what}: _compare_remainder called with {seen}", key=f"add compare {pref} {unit} {hit} {sign} {existing}")
    ctx.floor(rule, "evaluations of LongItmdVariants.add", n, 60)


def run(ctx):
    if ctx.want("R11h"):
        r11h(ctx)
    if ctx.want("R11i"):
        r11i(ctx)
    if ctx.want("R13h"):
        c13.r13h(ctx)
    if ctx.want("R13d"):
        c13.r13d(ctx)
    for r, f in (("R11a", r11a), ("R11b", r11b), ("R11c", r11c), ("R11d", r11d), ("R11e", r11e), ("R11f", r11f)):
        if ctx.want(r):
            f(ctx)
    if ctx.want("R13g"):
        c13.r13g(ctx)
    if ctx.want("R08a"):
        c08.r08a(ctx, modules={"reduce_expr", "intermediates", "factor_intermediates"})
