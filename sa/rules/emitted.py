"""Independent interpreter for the programs adcgen.generate_code emits (C17).

The emitted text (einsum / libtensor syntax) is parsed and *evaluated on tensor
values* here, by code that shares nothing with the library: tensors are dense
tables over small index ranges filled with deterministic pseudo-random
integers, ``einsum`` is a brute-force sum over all letter assignments,
``contract`` / ``dot_product`` sum products of labelled tensors over the listed
labels, permutation operators permute the arguments of the value table.  The
rules compare the value of the emitted program with the value of the
expression it was generated from (computed from the term structure, not from
the contraction scheme) for every assignment of the target indices.

Anything outside the emitted language (unknown operand token, wrong rank,
repeated output letter, elementwise product of two arrays, ...) is an
``EvalError``: the program is not executable, which a rule reports as a
violation, never as agreement.
"""
from __future__ import annotations

import itertools
import math
import re
import zlib

DIM = {"o": 2, "v": 3, "g": 2}          # extent of an axis by the first letter of the index space


class EvalError(Exception):
    pass


def value_of(key, idx):
    """Deterministic 'arbitrary' value of the tensor ``key`` at the position ``idx`` (nonzero integer)."""
    h = zlib.crc32(repr((key, tuple(idx))).encode())
    v = h % 13 - 6
    return float(v if v else 7)


class Arr:
    """Dense table. ``labels`` None: positional array (einsum); tuple of names: labelled tensor (libtensor)."""

    def __init__(self, shape, data, labels=None):
        self.shape, self.data, self.labels = tuple(shape), data, labels

    @property
    def rank(self):
        return len(self.shape)

    def __repr__(self):
        return f"Arr(shape={self.shape}, labels={self.labels})"


def positions(shape):
    return itertools.product(*[range(n) for n in shape])


def base_array(key, spaces, labels=None):
    """The tensor ``key`` with one axis per letter of ``spaces``."""
    shape = tuple(DIM[s] for s in spaces)
    if isinstance(key, tuple) and key[0] == "delta":
        data = {p: (1.0 if len(set(p)) == 1 else 0.0) for p in positions(shape)}
    else:
        data = {p: value_of(key, p) for p in positions(shape)}
    return Arr(shape, data, labels)


# ----------------------------------------------------------------------------- parsing

_TOKEN = re.compile(r'\s*(?:(?P<str>"[^"]*")|(?P<num>\d+(?:\.\d*)?(?:[eE][+-]?\d+)?)'
                    r'|(?P<name>[A-Za-z_][A-Za-z_0-9]*(?:(?:\.|::)[A-Za-z_0-9]+)*)|(?P<op>[()*,/|+\-]))')

FUNCS = ("einsum", "sqrt", "contract", "dot_product")


def tokenize(text):
    out, pos = [], 0
    text = text.rstrip()
    while pos < len(text):
        m = _TOKEN.match(text, pos)
        if not m:
            raise EvalError(f"unexpected character at {text[pos:pos + 20]!r}")
        pos = m.end()
        for kind in ("str", "num", "name", "op"):
            if m.group(kind) is not None:
                out.append((kind, m.group(kind)))
                break
    return out


class Parser:
    def __init__(self, text):
        self.toks = tokenize(text)
        self.i = 0

    def peek(self):
        return self.toks[self.i] if self.i < len(self.toks) else (None, None)

    def take(self, val=None):
        k, v = self.peek()
        if k is None or (val is not None and v != val):
            raise EvalError(f"expected {val or 'a token'}, found {v!r}")
        self.i += 1
        return k, v

    def parse(self):
        e = self.expr()
        if self.peek()[0] is not None:
            raise EvalError(f"trailing text {self.peek()[1]!r}")
        return e

    def expr(self):
        e = self.term()
        while self.peek()[1] in ("+", "-"):
            op = self.take()[1]
            e = ("bin", op, e, self.term())
        return e

    def term(self):
        e = self.unary()
        while self.peek()[1] in ("*", "/"):
            op = self.take()[1]
            e = ("bin", op, e, self.unary())
        return e

    def unary(self):
        if self.peek()[1] in ("+", "-"):
            op = self.take()[1]
            x = self.unary()
            return ("neg", x) if op == "-" else x
        return self.atom()

    def labels(self):
        """``i|j|a`` (possibly empty, terminated by ',' or ')')."""
        out = []
        while self.peek()[0] == "name":
            out.append(self.take()[1])
            if self.peek()[1] == "|":
                self.take()
            else:
                break
        return out

    def atom(self):
        k, v = self.peek()
        if k == "num":
            self.take()
            return ("num", int(v) if v.isdigit() else float(v))
        if k == "str":
            self.take()
            return ("str", v[1:-1])
        if v == "(":
            self.take()
            e = self.expr()
            self.take(")")
            return e
        if k == "name":
            self.take()
            if self.peek()[1] != "(":
                return ("name", v)
            self.take("(")
            if v not in FUNCS:
                lab = self.labels()
                self.take(")")
                return ("labelled", v, lab)
            args = []
            if v == "contract":
                args.append(("labels", self.labels()))
                if self.peek()[1] == ",":
                    self.take()
            while self.peek()[1] != ")":
                args.append(self.expr())
                if self.peek()[1] == ",":
                    self.take()
                elif self.peek()[1] != ")":
                    raise EvalError(f"expected , or ) in the arguments of {v}")
            self.take(")")
            return ("call", v, args)
        raise EvalError(f"unexpected token {v!r}")


# --------------------------------------------------------------------------- evaluation

class Env:
    """What the tokens of a program denote: ``tensors`` token -> (key, spaces) (a stored tensor with one axis per
    space letter), ``symbols`` name -> number, ``scalars`` token -> number (tensors without indices)."""

    def __init__(self, tensors=None, symbols=None, scalars=None):
        self.tensors = dict(tensors or {})
        self.symbols = dict(symbols or {})
        self.scalars = dict(scalars or {})
        self.spaces = {}         # label -> space letter (libtensor: extent of a label)


def _is_scalar(x):
    return isinstance(x, (int, float))


def _sum_product(ops, subs, out):
    """sum over every letter not in ``out`` of the product of ops[k][subs[k]]; ops are dicts position -> value."""
    extent = {}
    for (shape, _), sub in zip(ops, subs):
        if len(shape) != len(sub):
            raise EvalError(f"operand of rank {len(shape)} addressed with {len(sub)} indices `{''.join(sub)}`")
        for n, s in zip(shape, sub):
            if extent.setdefault(s, n) != n:
                raise EvalError(f"index {s} runs over axes of different extent")
    for s in out:
        if s not in extent:
            raise EvalError(f"result index {s} does not occur on any operand")
    if len(set(out)) != len(out):
        raise EvalError(f"result index repeated in `{''.join(out)}`")
    summed = [s for s in extent if s not in out]
    res = {}
    for po in positions([extent[s] for s in out]):
        asg = dict(zip(out, po))
        tot = 0.0
        for ps in positions([extent[s] for s in summed]):
            asg.update(zip(summed, ps))
            v = 1.0
            for (shape, data), sub in zip(ops, subs):
                v *= data[tuple(asg[s] for s in sub)]
                if v == 0.0:
                    break
            tot += v
        res[po] = tot
    return tuple(extent[s] for s in out), res


def evaluate(node, env, backend):
    k = node[0]
    if k == "num":
        return node[1]
    if k == "neg":
        return _mul(-1, evaluate(node[1], env, backend))
    if k == "bin":
        a, b = evaluate(node[2], env, backend), evaluate(node[3], env, backend)
        if node[1] == "*":
            return _mul(a, b)
        if node[1] == "/":
            if not (_is_scalar(a) and _is_scalar(b)):
                raise EvalError("division of tensors")
            if b == 0:
                raise EvalError("division by zero")
            if backend == "libtensor" and isinstance(a, int) and isinstance(b, int):
                return int(a / b)           # C++: integer division truncates
            return a / b
        return _add(a, b, 1.0 if node[1] == "+" else -1.0)
    if k == "name":
        name = node[1]
        if name in env.symbols:
            return env.symbols[name]
        if name in env.scalars:
            return env.scalars[name]
        m = re.fullmatch(r"constants::sq(\d+)", name)
        if m and backend == "libtensor":
            return math.sqrt(int(m.group(1)))
        if name in env.tensors:
            if backend != "einsum":
                raise EvalError(f"tensor {name} without index labels in a libtensor expression")
            key, spaces = env.tensors[name]
            return base_array(key, spaces)
        raise EvalError(f"unknown operand `{name}`")
    if k == "labelled":
        name, lab = node[1], node[2]
        if backend != "libtensor":
            raise EvalError(f"labelled tensor {name}(...) in an einsum expression")
        if name not in env.tensors:
            if name in env.scalars and not lab:
                return env.scalars[name]
            raise EvalError(f"unknown operand `{name}`")
        key, spaces = env.tensors[name]
        if len(spaces) != len(lab):
            raise EvalError(f"tensor {name} of rank {len(spaces)} labelled with {len(lab)} indices")
        for lb, s in zip(lab, spaces):
            if env.spaces.setdefault(lb, s) != s:
                raise EvalError(f"label {lb} on axes of different spaces")
        arr = base_array(key, spaces, tuple(lab))
        if len(set(lab)) != len(lab):
            # by-label semantics: a label on two axes of one tensor addresses its diagonal
            uniq = tuple(dict.fromkeys(lab))
            shape, data = _sum_product([(arr.shape, arr.data)], [tuple(lab)], uniq)
            arr = Arr(shape, data, uniq)
        return arr
    if k == "call":
        name, args = node[1], node[2]
        if name == "sqrt":
            if backend != "einsum" or len(args) != 1:
                raise EvalError("sqrt(...)")
            x = evaluate(args[0], env, backend)
            if not _is_scalar(x) or x < 0:
                raise EvalError("sqrt of a tensor or a negative number")
            return math.sqrt(x)
        if name == "einsum":
            if backend != "einsum" or not args or args[0][0] != "str":
                raise EvalError("einsum without a subscript string")
            spec = args[0][1]
            if spec.count("->") != 1:
                raise EvalError(f"einsum subscripts `{spec}`")
            ins, out = spec.split("->")
            subs = ins.split(",")
            ops = [evaluate(a, env, backend) for a in args[1:]]
            if len(subs) != len(ops):
                raise EvalError(f"einsum `{spec}` with {len(ops)} operands")
            tabs = []
            for o in ops:
                if _is_scalar(o):
                    tabs.append(((), {(): o}))
                elif isinstance(o, Arr) and o.labels is None:
                    tabs.append((o.shape, o.data))
                else:
                    raise EvalError("einsum operand is not an array")
            if not re.fullmatch(r"[A-Za-z,]*", ins) or not re.fullmatch(r"[A-Za-z]*", out):
                raise EvalError(f"einsum subscripts `{spec}`")
            shape, data = _sum_product(tabs, [tuple(s) for s in subs], tuple(out))
            return data[()] if not shape else Arr(shape, data)
        if name in ("contract", "dot_product"):
            if backend != "libtensor":
                raise EvalError(f"{name} in an einsum expression")
            if name == "contract":
                if not args or args[0][0] != "labels":
                    raise EvalError("contract without summed labels")
                summed, rest = list(args[0][1]), args[1:]
                if not summed:
                    raise EvalError("contract without summed labels")
            else:
                summed, rest = None, args
            ops = [evaluate(a, env, backend) for a in rest]
            if len(ops) < 2 or any(not (isinstance(o, Arr) and o.labels is not None) for o in ops):
                raise EvalError(f"{name} needs at least two labelled tensors")
            every = []
            for o in ops:
                for lb in o.labels:
                    if lb not in every:
                        every.append(lb)
            if summed is None:
                summed = every
            for lb in summed:
                if not any(lb in o.labels for o in ops):
                    raise EvalError(f"contracted label {lb} does not occur on any operand")
            out = tuple(lb for lb in every if lb not in summed)
            shape, data = _sum_product([(o.shape, o.data) for o in ops], [o.labels for o in ops], out)
            return data[()] if not out else Arr(shape, data, out)
    raise EvalError(f"construct {k}")


def _mul(a, b):
    if _is_scalar(a) and _is_scalar(b):
        return a * b
    if _is_scalar(b):
        a, b = b, a
    if _is_scalar(a):
        return Arr(b.shape, {p: a * v for p, v in b.data.items()}, b.labels)
    if a.labels is None or b.labels is None:
        raise EvalError("product of two arrays outside einsum")
    # product by labels; a label on both factors (a target index on two operands) is an elementwise product there
    out = a.labels + tuple(lb for lb in b.labels if lb not in a.labels)
    shape, data = _sum_product([(a.shape, a.data), (b.shape, b.data)], [a.labels, b.labels], out)
    return Arr(shape, data, out)


def _add(a, b, sign):
    if _is_scalar(a) and _is_scalar(b):
        return a + sign * b
    if _is_scalar(a) or _is_scalar(b):
        raise EvalError("sum of a number and a tensor")
    if a.labels is None and b.labels is None:
        if a.shape != b.shape:
            raise EvalError("sum of arrays of different shape")
        return Arr(a.shape, {p: v + sign * b.data[p] for p, v in a.data.items()})
    if a.labels is None or b.labels is None or set(a.labels) != set(b.labels):
        raise EvalError("sum of tensors with different labels")
    perm = [b.labels.index(lb) for lb in a.labels]
    return Arr(a.shape, {p: v + sign * b.data[tuple(p[perm.index(i)] for i in range(len(p)))]
                         for p, v in a.data.items()}, a.labels)


def run_expression(text, env, backend):
    return evaluate(Parser(text).parse(), env, backend)


# ---------------------------------------------------------------------------- the program

COMMENT = {"einsum": "#", "libtensor": "//"}


def as_table(val, target, backend):
    """Value table over the assignments of the target indices (in the requested order) of a result."""
    names = [t for t, _ in target]
    shape = tuple(DIM[s] for _, s in target)
    if _is_scalar(val):
        if names:
            raise EvalError(f"a number is emitted for a result with the indices {names}")
        return {(): val}
    if val.labels is None:
        if val.shape != shape:
            raise EvalError(f"result of shape {val.shape} for the target indices {names} of shape {shape}")
        return dict(val.data)
    if set(val.labels) != set(names) or len(val.labels) != len(names):
        raise EvalError(f"result with the labels {list(val.labels)} for the target indices {names}")
    pos = [val.labels.index(n) for n in names]
    if tuple(val.shape[at] for at in pos) != shape:
        raise EvalError("extent of a label does not match the space of the target index")
    out = {}
    for p in positions(shape):
        q = [None] * len(p)
        for k, at in enumerate(pos):
            q[at] = p[k]
        out[p] = val.data[tuple(q)]
    return out


def parse_operator(text, perm_tokens):
    """``1`` or ``(1 + P_ij - P_ijP_ab ...)`` -> list of (factor, [permutations applied right to left]).
    ``perm_tokens``: text of one permutation operator -> the pair of index names it swaps."""
    t = text.strip()
    if t.startswith("(") and t.endswith(")"):
        t = t[1:-1]
    parts = t.split()
    if not parts or parts[0] != "1":
        raise EvalError(f"symmetry operator `{text}` does not start with the identity")
    ops = [(1.0, [])]
    i = 1
    while i < len(parts):
        if parts[i] not in ("+", "-"):
            raise EvalError(f"symmetry operator `{text}`: sign expected at `{parts[i]}`")
        f = 1.0 if parts[i] == "+" else -1.0
        i += 1
        perms = []
        if i < len(parts) and parts[i] not in ("+", "-"):
            s = parts[i]
            i += 1
            while s:
                for tok in sorted(perm_tokens, key=len, reverse=True):
                    if s.startswith(tok):
                        perms.append(perm_tokens[tok])
                        s = s[len(tok):]
                        break
                else:
                    raise EvalError(f"symmetry operator `{text}`: unknown permutation at `{s}`")
        ops.append((f, perms))
    return ops


def apply_operator(ops, table, target):
    names = [t for t, _ in target]
    out = {p: 0.0 for p in table}
    for f, perms in ops:
        src = list(range(len(names)))          # (P f)(x) = f(x with the two arguments swapped)
        for p, q in perms:
            if p not in names or q not in names:
                raise EvalError(f"permutation of {p},{q}, which are not both target indices")
            a, b = names.index(p), names.index(q)
            src = [b if s == a else a if s == b else s for s in src]
        for pos in table:
            out[pos] += f * table[tuple(pos[s] for s in src)]
    return out


def run_program(text, env, backend, target, perm_tokens):
    """Value table of a whole generate_code output: sum over blocks of operator(sum of the lines)."""
    tok = COMMENT[backend]
    total = None
    blocks = [b for b in text.split("\n\n")]
    if not text.strip():
        raise EvalError("empty program")
    for b in blocks:
        lines = b.split("\n")
        heads = [k for k, ln in enumerate(lines) if ln.startswith("Apply ") and ln.rstrip().endswith(" to:")]
        if len(heads) != 1:
            raise EvalError(f"block without exactly one `Apply ... to:` line: {b[:80]!r}")
        h = heads[0]
        ops = parse_operator(lines[h][len("Apply "):lines[h].rstrip().rindex(" to:")], perm_tokens)
        acc = None
        for ln in lines[h + 1:]:
            code = ln.split(tok, 1)[0]
            if not code.strip():
                raise EvalError(f"line without code: {ln!r}")
            t = as_table(run_expression(code, env, backend), target, backend)
            acc = t if acc is None else {p: acc[p] + t[p] for p in acc}
        if acc is None:
            raise EvalError("block without terms")
        acc = apply_operator(ops, acc, target)
        total = acc if total is None else {p: total[p] + acc[p] for p in total}
    return total


# ------------------------------------------------------------------ the expression side

def product_value(operands, target, pref=1.0):
    """sum over every index that is not a target index of the product of the operands.
    operands: list of (key, [(index name, space letter), ...]); target: [(name, space)]."""
    tnames = [t for t, _ in target]
    space = dict(target)
    for _, idx in operands:
        for n, s in idx:
            if space.setdefault(n, s) != s:
                raise EvalError(f"index {n} with two spaces")
    tabs = [(tuple(DIM[s] for _, s in idx), base_array(key, [s for _, s in idx]).data) for key, idx in operands]
    subs = [tuple(n for n, _ in idx) for _, idx in operands]
    extent = {n: DIM[s] for n, s in space.items()}
    summed = [n for n in extent if n not in tnames]
    res = {}
    for po in positions([extent[n] for n in tnames]):
        asg = dict(zip(tnames, po))
        tot = 0.0
        for ps in positions([extent[n] for n in summed]):
            asg.update(zip(summed, ps))
            v = 1.0
            for (shape, data), sub in zip(tabs, subs):
                v *= data[tuple(asg[n] for n in sub)]
            tot += v
        res[po] = pref * tot
    return res


def tables_equal(a, b, tol=1e-9):
    if set(a) != set(b):
        return False
    return all(abs(a[p] - b[p]) <= tol * (1.0 + abs(a[p]) + abs(b[p])) for p in a)


def first_difference(a, b):
    for p in sorted(set(a) | set(b)):
        if p not in a or p not in b or abs(a[p] - b[p]) > 1e-9 * (1.0 + abs(a[p]) + abs(b[p])):
            return p, a.get(p), b.get(p)
    return None
