S = "simplify.py"
D = "derivative.py"
I = "indices.py"
WITNESSES = [
    dict(id="c14-f12-revert", prop="C14", file=S, expect="R14d",
         old="        if len(tensors) == 1 and exponent == 1:", new="        if len(tensors) == 1:"),
    dict(id="c14-f6-revert", prop="C14", file=D, expect="R14d",
         old="                symmetrized_deriv_contrib.subs(x, obj.base)", new="                symmetrized_deriv_contrib.subs(x, obj)"),
    dict(id="c14-half-always", prop="C14", file=S, expect="R14a",
         old="        if bra_ket_sym is not None and bra_ket_sym is not S.Zero:\n            term *= Rational(1, 2)", new="        if bra_ket_sym is not None:\n            term *= Rational(1, 2)"),
    dict(id="c14-sqrt-missing-one", prop="C14", file=S, expect="R14a",
         old="            term *= 1 / sqrt(len(tensor_sym) + 1)", new="            term *= 1 / sqrt(len(tensor_sym))"),
    dict(id="c14-amp-slices", prop="C14", file=S, expect="R14a",
         old="                upper, lower = indices[n_l:], indices[:n_l]", new="                upper, lower = indices[:n_l], indices[n_l:]"),
    dict(id="c14-sign-lost", prop="C14", file=S, expect="R14a",
         old="        term *= tensor.prefactor\n", new=""),
    dict(id="c14-sym-factor", prop="C14", file=S, expect="R14b",
         old="            symmetrized_term += term.copy().permute(*perms) * sym_factor", new="            symmetrized_term += term.copy().permute(*perms)"),
    dict(id="c14-deriv-norm", prop="C14", file=D, expect="R14b",
         old="            deriv_contrib *= Rational(1, len(tensor_sym) + 1)", new="            deriv_contrib *= Rational(1, len(tensor_sym))"),
    dict(id="c14-delta-missing", prop="C14", file=S, expect="R14c",
         old="                for s, new_s in zip(idx_list, additional_indices):\n                    term *= KroneckerDelta(s, new_s)\n", new="                for s, new_s in zip(idx_list, additional_indices):\n"),
    dict(id="c14-fresh-spin", prop="C14", file=S, expect="R14c",
         old="                additional_indices = get_symbols(additional_indices, spins)\n\n                sub = {", new="                additional_indices = get_symbols(additional_indices)\n\n                sub = {"),
    dict(id="c14-repeat-count", prop="C14", file=S, expect="R14c",
         old="                repeating_indices[idx_key].extend(s for _ in range(n-1))", new="                repeating_indices[idx_key].extend(s for _ in range(n))"),
    dict(id="c14-exponent", prop="C14", file=S, expect="R14d",
         old="            remaining_term *= Pow(base, exponent - 1)", new="            remaining_term *= Pow(base, exponent)"),
    dict(id="c14-product-rule", prop="C14", file=D, expect="R14e",
         old="                if i != other_i:\n                    deriv_contrib *= other_obj", new="                if i < other_i:\n                    deriv_contrib *= other_obj"),
    dict(id="c14-none-lost", prop="C14", file=S, expect="R14e",
         old='            return {("none",): term}', new='            return {}'),
    dict(id="c14-ok-base-alias", prop="C14", file=D, expect=None,
         old="                symmetrized_deriv_contrib.subs(x, obj.base)", new="                symmetrized_deriv_contrib.subs(x, obj.base_and_exponent[0])"),

    # ---- breaking edits for the checks introduced with the evaluation on the tensor-algebra model
    dict(id="c14-name-guard-removed", prop="C14", file=S, expect="R14e",
         old='    if not isinstance(t_name, str):\n        raise Inputerror("Tensor name needs to be provided as string.")\n',
         new=''),
    dict(id="c14-copy-dropped", prop="C14", file=S, expect="R14b",
         old="            symmetrized_term += term.copy().permute(*perms) * sym_factor", new="            symmetrized_term += term.permute(*perms) * sym_factor"),
    dict(id="c14-sym-start-alias", prop="C14", file=S, expect=["R14b", "R14a"],
         old="        symmetrized_term = term.copy()\n", new="        symmetrized_term = term\n"),
    dict(id="c14-assumptions-dropped", prop="C14", file=S, expect=["R14e", "R14a"],
         old="        remaining_term = e.Expr(1, **term.assumptions)\n        for obj in term.objects:\n            if obj.name == t_name:\n                tensors.append(obj)  # we",
         new="        remaining_term = e.Expr(1)\n        for obj in term.objects:\n            if obj.name == t_name:\n                tensors.append(obj)  # we"),
    dict(id="c14-target-idx-not-extended", prop="C14", file=S, expect="R14c",
         old="            term.set_target_idx(term.provided_target_idx + indices)", new="            term.set_target_idx(term.provided_target_idx)"),
    dict(id="c14-deriv-assumptions-dropped", prop="C14", file=D, expect="R14e",
         old="                derivative[key] = e.Expr(0, **assumptions)", new="                derivative[key] = e.Expr(0)"),
    dict(id="c14-sym-contracted-only", prop="C14", file=S, expect="R14b",
         old="        tensor_sym = tensor.symmetry()\n        if is_adc_amplitude", new="        tensor_sym = tensor.symmetry(only_contracted=True)\n        if is_adc_amplitude"),
    dict(id="c14-used-names-tensor", prop="C14", file=S, expect="R14c",
         old="        for s in indices:\n            if (idx_key := s.space_and_spin) not in used_indices:\n                used_indices[idx_key] = set()\n            used_indices[idx_key].add(s.name)\n\n        if tensor_target_indices:",
         new="        if tensor_target_indices:"),
    dict(id="c14-deriv-sign-lost", prop="C14", file=D, expect=["R14e", "R14b", "R14c"],
         old="            if (factor := obj.prefactor) < 0:\n                deriv_contrib *= factor\n", new=""),
    dict(id="c14-deriv-targets-ignored", prop="C14", file=D, expect="R14e",
         old="                obj.terms[0].tensors[0].idx, target_names_by_space\n", new="                obj.terms[0].tensors[0].idx, {}\n"),
    dict(id="c14-perms-not-applied", prop="C14", file=S, expect=["R14a", "R14b", "R14c"],
         old="        term: e.Expr = term.permute(*perms)\n", new="        term: e.Expr = term * 1\n"),
    dict(id="c14-adc-bks-accepted", prop="C14", file=S, expect="R14a",
         old='                raise ValueError("ADC amplitude vectors should have "\n                                 "no bra ket symmetry.")', new="                pass"),
    dict(id="c14-others-not-multiplied-back", prop="C14", file=S, expect="R14e",
         old="        for remaining_t in tensors[1:]:\n            remaining_term *= remaining_t\n", new=""),
    dict(id="c14-name-prefix-match", prop="C14", file=S, expect="R14e",
         old="            if obj.name == t_name:\n                tensors.append(obj)  # we", new="            if str(obj.name).startswith(t_name):\n                tensors.append(obj)  # we"),
    dict(id="c14-min-reverse-lost", prop="C14", file=I, expect="R08g",
         old="            min_symbols.reverse()\n            minimal_indices[idx_key] = min_symbols", new="            minimal_indices[idx_key] = min_symbols"),
    dict(id="c14-lowest-off-by-one", prop="C14", file=I, expect="R08g",
         old="    return [s for s in idx if s not in used][:n]", new="    return [s for s in idx if s not in used][1:n + 1]"),
    dict(id="c14-permute-composition", prop="C14", file="expr_container.py", expect="R08g",
         old="        sub = {}\n        for p, q in perms:\n            addition = {p: q, q: p}",
         new="        sub = {}\n        for p, q in reversed(perms):\n            addition = {p: q, q: p}"),
    dict(id="c14-deriv-wrong-symmetry-source", prop="C14", file=D, expect="R14b",
         old="            tensor_sym = obj.symmetry()\n            deriv_contrib *=", new="            tensor_sym = deriv_contrib.terms[0].symmetry()\n            deriv_contrib *="),

    # ---- behaviour-preserving refactorings of kinds that are not in refactors/
    # scalar factors collected first and applied once (reassociation of a product)
    dict(id="c14-ok-prefactor-collected", prop="C14", file=S, expect=None, edits=[
        ("        term *= tensor.prefactor\n", "        scale = tensor.prefactor\n"),
        ("        if bra_ket_sym is not None and bra_ket_sym is not S.Zero:\n            term *= Rational(1, 2)",
         "        if bra_ket_sym is not None and bra_ket_sym is not S.Zero:\n            scale *= Rational(1, 2)"),
        ("            term *= 1 / sqrt(len(tensor_sym) + 1)\n", "            scale *= 1 / sqrt(len(tensor_sym) + 1)\n        term *= scale\n"),
    ]),
    # algebraic identity 1/sqrt(n) = sqrt(1/n), division instead of multiplication by the inverse
    dict(id="c14-ok-sqrt-of-inverse", prop="C14", file=S, expect=None,
         old="            term *= 1 / sqrt(len(tensor_sym) + 1)", new="            term *= sqrt(Rational(1, len(tensor_sym) + 1))"),
    dict(id="c14-ok-divide-by-sqrt", prop="C14", file=S, expect=None,
         old="            term *= 1 / sqrt(len(tensor_sym) + 1)", new="            term /= sqrt(1 + len(tensor_sym))"),
    # iteration over the keys of the symmetry dict with a lookup instead of .items()
    dict(id="c14-ok-dict-key-iteration", prop="C14", file=S, expect=None,
         old="        for perms, sym_factor in tensor_sym.items():\n            symmetrized_term += term.copy().permute(*perms) * sym_factor",
         new="        for operation in tensor_sym:\n            character = tensor_sym[operation]\n            permuted = term.copy()\n            permuted.permute(*operation)\n            symmetrized_term += character * permuted"),
    # Counter replaced by explicit counting on the list
    dict(id="c14-ok-count-without-counter", prop="C14", file=S, expect=None,
         old="        for s, n in Counter(indices).items():\n            if n > 1:",
         new="        counted = []\n        for s in indices:\n            if s in counted:\n                continue\n            counted.append(s)\n            n = indices.count(s)\n            if n > 1:"),
    # augmented assignment replaced by a binary operator and rebinding
    dict(id="c14-ok-rebinding-product", prop="C14", file=S, expect=None, edits=[
        ("                for s, new_s in sub.items():\n                    term *= KroneckerDelta(s, new_s)",
         "                for s, new_s in sub.items():\n                    term = term * KroneckerDelta(s, new_s)"),
        ("                for s, new_s in zip(idx_list, additional_indices):\n                    term *= KroneckerDelta(s, new_s)",
         "                for s, new_s in zip(idx_list, additional_indices):\n                    term = KroneckerDelta(s, new_s) * term"),
    ]),
    # in-place update of the index list instead of rebuilding it
    dict(id="c14-ok-inplace-index-replacement", prop="C14", file=S, expect=None,
         old="                indices = [sub.get(s, s) for s in indices]",
         new="                for position, old_s in enumerate(indices):\n                    if old_s in sub:\n                        indices[position] = sub[old_s]"),
    # loop fusion: target detection and collection of used names in one pass over the tensor indices
    dict(id="c14-ok-loop-fusion", prop="C14", file=S, expect=None, edits=[
        ("        for s in indices:\n            idx_key = s.space_and_spin\n            if s.name in target_indices.get(idx_key, []):",
         "        for s in indices:\n            idx_key = s.space_and_spin\n            used_indices.setdefault(idx_key, set()).add(s.name)\n            if s.name in target_indices.get(idx_key, []):"),
        ("        for s in indices:\n            if (idx_key := s.space_and_spin) not in used_indices:\n                used_indices[idx_key] = set()\n            used_indices[idx_key].add(s.name)\n\n        if tensor_target_indices:",
         "        if tensor_target_indices:"),
    ]),
    # both branches of the rebuild merged: one split point, groups swapped for amplitudes
    dict(id="c14-ok-merged-rebuild-branches", prop="C14", file=S, expect=None,
         old="            if isinstance(raw_tensor, Amplitude):  # indices = lower, upper\n                n_l = len(raw_tensor.lower)\n                upper, lower = indices[n_l:], indices[:n_l]\n            else:  # symtensor / antisymtensor, indices = upper, lower\n                n_u = len(raw_tensor.upper)\n                upper, lower = indices[:n_u], indices[n_u:]",
         new="            lower_first = isinstance(raw_tensor, Amplitude)\n            split = len(raw_tensor.lower if lower_first else raw_tensor.upper)\n            groups = (indices[:split], indices[split:])\n            upper, lower = groups[::-1] if lower_first else groups"),
    # negative slice bounds: wrong for an amplitude without upper indices (IP-ADC 1h vector): indices[-0:] is everything
    dict(id="c14-negative-slices-1h", prop="C14", file=S, expect="R14a",
         old="                n_l = len(raw_tensor.lower)\n                upper, lower = indices[n_l:], indices[:n_l]",
         new="                n_up = len(raw_tensor.upper)\n                upper, lower = indices[-n_up:], indices[:-n_up]"),
    # for loop over enumerate turned into a while loop with an explicit counter
    dict(id="c14-ok-while-loop", prop="C14", file=D, expect=None, edits=[
        ("        for i, obj in enumerate(tensor_obj):\n            # - extract the exponent of the tensor\n            exponent = obj.exponent",
         "        i = -1\n        while i + 1 < len(tensor_obj):\n            i += 1\n            obj = tensor_obj[i]\n            # - extract the exponent of the tensor\n            exponent = obj.exponent"),
    ]),
    # product rule by slicing the occurrence list instead of comparing positions
    dict(id="c14-ok-product-rule-slices", prop="C14", file=D, expect=None,
         old="            for other_i, other_obj in enumerate(tensor_obj):\n                if i != other_i:\n                    deriv_contrib *= other_obj",
         new="            for other_obj in tensor_obj[:i] + tensor_obj[i + 1:]:\n                deriv_contrib *= other_obj"),
    # normalisation applied to the symmetrised sum instead of the contribution (distributivity), as a division
    dict(id="c14-ok-normalise-after-sum", prop="C14", file=D, expect=None, edits=[
        ("            deriv_contrib *= Rational(1, len(tensor_sym) + 1)\n", ""),
        ("            symmetrized_deriv_contrib = diff(symmetrized_deriv_contrib, x)",
         "            symmetrized_deriv_contrib = diff(symmetrized_deriv_contrib, x) / (len(tensor_sym) + 1)"),
    ]),
    # differentiation before the symmetrisation (linearity of diff)
    dict(id="c14-ok-diff-termwise", prop="C14", file=D, expect=None, edits=[
        ("            symmetrized_deriv_contrib = deriv_contrib.sympy * x**exponent\n",
         "            symmetrized_deriv_contrib = diff(deriv_contrib.sympy * x**exponent, x)\n"),
        ("                    deriv_contrib.copy().permute(*perms).sympy *\n                    factor * x**exponent\n                )",
         "                    deriv_contrib.copy().permute(*perms).sympy *\n                    factor * diff(x**exponent, x)\n                )"),
        ("            symmetrized_deriv_contrib = diff(symmetrized_deriv_contrib, x)\n", ""),
    ]),
    # ---- call history (R14f): a module-level cache of the tensor symmetry
    # mirrors seeded/C14-5: the key forgets that the minimal indices depend on the target names of the term
    dict(id="c14-stale-symmetry-cache", prop="C14", file=D, expect="R14f", edits=[
        ("from sympy import Rational, diff, S, Pow\n",
         "from sympy import Rational, diff, S, Pow\n\n_block_symmetry_cache: dict[tuple, dict] = {}\n\n\n"
         "def _block_symmetry(obj: e.Term) -> dict:\n    tensor = obj.tensors[0]\n"
         "    key = (tensor.name, tensor.space, tensor.spin, tensor.exponent,\n           tensor.bra_ket_sym, tensor.type_as_str)\n"
         "    if key not in _block_symmetry_cache:\n        _block_symmetry_cache[key] = obj.symmetry()\n"
         "    return _block_symmetry_cache[key]\n"),
        ("            tensor_sym = obj.symmetry()\n", "            tensor_sym = _block_symmetry(obj)\n"),
    ]),
    # a remembered block key -> Expr across calls: the second call adds into the first call's result
    dict(id="c14-stale-result-cache", prop="C14", file=D, expect="R14f", edits=[
        ("from sympy import Rational, diff, S, Pow\n", "from sympy import Rational, diff, S, Pow\n\n_blocks: dict = {}\n"),
        ("    derivative = {}\n    for term in expr.terms:", "    derivative = _blocks\n    for term in expr.terms:"),
    ]),
    # correct cache: the key is the minimised tensor itself (with its indices) and the assumptions
    dict(id="c14-ok-symmetry-cache-full-key", prop="C14", file=D, expect=None, edits=[
        ("from sympy import Rational, diff, S, Pow\n",
         "from sympy import Rational, diff, S, Pow\n\n_symmetry_cache: dict[tuple, dict] = {}\n\n\n"
         "def _cached_symmetry(obj: e.Term) -> dict:\n"
         "    key = (obj.sympy, obj.real, obj.sym_tensors, obj.antisym_tensors)\n"
         "    if key not in _symmetry_cache:\n        _symmetry_cache[key] = obj.symmetry()\n"
         "    return _symmetry_cache[key]\n"),
        ("            tensor_sym = obj.symmetry()\n", "            tensor_sym = _cached_symmetry(obj)\n"),
    ]),
    # correct cache: block key extended by the reserved target names the minimal indices depend on
    dict(id="c14-ok-symmetry-cache-target-names", prop="C14", file=D, expect=None, edits=[
        ("from sympy import Rational, diff, S, Pow\n",
         "from sympy import Rational, diff, S, Pow\n\n_symmetry_cache: dict[tuple, dict] = {}\n\n\n"
         "def _cached_symmetry(obj: e.Term, reserved: dict) -> dict:\n    tensor = obj.tensors[0]\n"
         "    names = tuple(sorted((k, tuple(sorted(v))) for k, v in reserved.items()))\n"
         "    key = (tensor.name, tensor.space, tensor.spin, tensor.exponent, tensor.bra_ket_sym,\n"
         "           tensor.type_as_str, names, obj.real, obj.sym_tensors, obj.antisym_tensors)\n"
         "    if key not in _symmetry_cache:\n        _symmetry_cache[key] = obj.symmetry()\n"
         "    return _symmetry_cache[key]\n"),
        ("            tensor_sym = obj.symmetry()\n", "            tensor_sym = _cached_symmetry(obj, target_names_by_space)\n"),
    ]),
    # the short key of the seed is fine when the cache lives for one term only (emptied whenever the target names are rebuilt)
    dict(id="c14-ok-symmetry-cache-cleared", prop="C14", file=D, expect=None, edits=[
        ("from sympy import Rational, diff, S, Pow\n",
         "from sympy import Rational, diff, S, Pow\n\n_block_symmetry_cache: dict[tuple, dict] = {}\n\n\n"
         "def _block_symmetry(obj: e.Term) -> dict:\n    tensor = obj.tensors[0]\n"
         "    key = (tensor.name, tensor.space, tensor.spin, tensor.exponent,\n           tensor.bra_ket_sym, tensor.type_as_str)\n"
         "    if key not in _block_symmetry_cache:\n        _block_symmetry_cache[key] = obj.symmetry()\n"
         "    return _block_symmetry_cache[key]\n"),
        ("        target_names_by_space = {}\n", "        target_names_by_space = {}\n        _block_symmetry_cache.clear()\n"),
        ("            tensor_sym = obj.symmetry()\n", "            tensor_sym = _block_symmetry(obj)\n"),
    ]),
    # ---- power rule instead of the placeholder symbol (mirrors seeded/C14-7)
    # n T^(n-1) multiplied into the contribution BEFORE the symmetrisation: the re-inserted power is permuted on its own
    dict(id="c14-power-rule-before-symmetrisation", prop="C14", file=D, expect="R14d", edits=[
        ("from sympy import Rational, diff, S, Pow\n", "from sympy import Rational, diff, S, Pow\n"),
        ("            symmetrized_deriv_contrib = deriv_contrib.sympy * x**exponent\n            for perms, factor in tensor_sym.items():\n                symmetrized_deriv_contrib += (\n                    deriv_contrib.copy().permute(*perms).sympy *\n                    factor * x**exponent\n                )\n            # - compute the derivative with respect to x\n            symmetrized_deriv_contrib = diff(symmetrized_deriv_contrib, x)\n", ""),
        ("            symmetrized_deriv_contrib = (\n                symmetrized_deriv_contrib.subs(x, obj.base)\n            )\n",
         "            if exponent != 1:\n                deriv_contrib *= exponent * Pow(obj.base, exponent - 1)\n"
         "            symmetrized_deriv_contrib = deriv_contrib.sympy\n"
         "            for perms, factor in tensor_sym.items():\n"
         "                symmetrized_deriv_contrib += (\n"
         "                    deriv_contrib.copy().permute(*perms).sympy * factor\n                )\n"),
    ]),
    # the same power rule applied AFTER the symmetrisation of the remainder is the derivative
    dict(id="c14-ok-power-rule-after-symmetrisation", prop="C14", file=D, expect=None, edits=[
        ("from sympy import Rational, diff, S, Pow\n", "from sympy import Rational, diff, S, Pow\n"),
        ("            symmetrized_deriv_contrib = deriv_contrib.sympy * x**exponent\n            for perms, factor in tensor_sym.items():\n                symmetrized_deriv_contrib += (\n                    deriv_contrib.copy().permute(*perms).sympy *\n                    factor * x**exponent\n                )\n            # - compute the derivative with respect to x\n            symmetrized_deriv_contrib = diff(symmetrized_deriv_contrib, x)\n",
         "            symmetrized_deriv_contrib = deriv_contrib.sympy\n"
         "            for perms, factor in tensor_sym.items():\n"
         "                symmetrized_deriv_contrib += (\n"
         "                    deriv_contrib.copy().permute(*perms).sympy * factor\n                )\n"),
        ("            symmetrized_deriv_contrib = (\n                symmetrized_deriv_contrib.subs(x, obj.base)\n            )\n",
         "            symmetrized_deriv_contrib = (\n"
         "                symmetrized_deriv_contrib * exponent * Pow(obj.base, exponent - 1)\n            )\n"),
    ]),
    # the placeholder gets another name (variable and symbol)
    dict(id="c14-ok-placeholder-renamed", prop="C14", file=D, expect=None, edits=[
        ("    x = Index('x')\n", "    placeholder = Index('tensor_placeholder')\n"),
        ("            symmetrized_deriv_contrib = deriv_contrib.sympy * x**exponent\n",
         "            symmetrized_deriv_contrib = deriv_contrib.sympy * placeholder**exponent\n"),
        ("                    factor * x**exponent\n", "                    factor * placeholder**exponent\n"),
        ("            symmetrized_deriv_contrib = diff(symmetrized_deriv_contrib, x)\n",
         "            symmetrized_deriv_contrib = diff(symmetrized_deriv_contrib, placeholder)\n"),
        ("                symmetrized_deriv_contrib.subs(x, obj.base)\n", "                symmetrized_deriv_contrib.subs(placeholder, obj.base)\n"),
    ]),
    # a fresh placeholder for every occurrence
    dict(id="c14-ok-placeholder-per-occurrence", prop="C14", file=D, expect=None, edits=[
        ("            exponent = obj.exponent\n", "            exponent = obj.exponent\n            x = Index('y')\n"),
    ]),
    # ---- F28: target indices of the block expression when a tensor index occurs more than once in the remainder
    # (the anchors exist once the fix is in the tree; before that the witnesses are skipped)
    dict(id="c14-f28-revert", prop="C14", file=S, expect="R14c",
         old="        elif any(n for s, n in term.terms[0]._idx_counter\n                 if s in indices):\n", new="        elif False:\n"),
    dict(id="c14-f28-targets-without-tensor-indices", prop="C14", file=S, expect="R14c",
         old="            term.set_target_idx(term.terms[0].target + tuple(indices))", new="            term.set_target_idx(term.terms[0].target)"),
    dict(id="c14-f28-unify-revert", prop="C14", file=S, expect="R14c",
         old="            elif (ret[key].provided_target_idx !=\n                    contrib.provided_target_idx):\n                unify_target_idx(ret[key], contrib)\n", new=""),
    # the same condition spelled through the index list of the remaining term
    dict(id="c14-ok-f28-condition-by-counting", prop="C14", file=S, expect=None,
         old="        elif any(n for s, n in term.terms[0]._idx_counter\n                 if s in indices):\n",
         new="        elif [s for s in indices if term.terms[0].idx.count(s) > 1]:\n"),
    # explicit target indices built from the counter instead of Term.target
    dict(id="c14-ok-f28-targets-from-counter", prop="C14", file=S, expect=None,
         old="            term.set_target_idx(term.terms[0].target + tuple(indices))",
         new="            once = [s for s, n in term.terms[0]._idx_counter if not n]\n            term.set_target_idx(list(indices) + once)"),
    # ---- accumulation of the contributions (text of the tree with the F28 fix: unify_target_idx in the accumulation)
    dict(id="c14-accumulate-overwrite", prop="C14", file=S, expect="R14e",
         old="            if key not in ret:\n                ret[key] = 0\n            elif (ret[key].provided_target_idx !=\n                    contrib.provided_target_idx):\n                unify_target_idx(ret[key], contrib)\n            ret[key] += contrib\n    return ret",
         new="            ret[key] = contrib\n    return ret"),
    dict(id="c14-ok-accumulate-alias-temporary", prop="C14", file=S, expect=None,
         old="                    if key not in ret:\n                        ret[key] = 0\n                    elif (ret[key].provided_target_idx !=\n                            contrib.provided_target_idx):\n                        unify_target_idx(ret[key], contrib)\n                    ret[key] += contrib",
         new="                    if key not in ret:\n                        ret[key] = contrib\n                        continue\n                    if (ret[key].provided_target_idx !=\n                            contrib.provided_target_idx):\n                        unify_target_idx(ret[key], contrib)\n                    ret[key] += contrib"),
    dict(id="c14-ok-try-except-accumulate", prop="C14", file=S, expect=None,
         old="            if key not in ret:\n                ret[key] = 0\n            elif (ret[key].provided_target_idx !=\n                    contrib.provided_target_idx):\n                unify_target_idx(ret[key], contrib)\n            ret[key] += contrib\n    return ret",
         new="            try:\n                collected = ret[key]\n            except KeyError:\n                ret[key] = 0 + contrib\n                continue\n"
             "            if collected.provided_target_idx != contrib.provided_target_idx:\n                unify_target_idx(collected, contrib)\n"
             "            collected += contrib\n    return ret"),
    # membership test replaced by try/except KeyError: see c14-ok-try-except-accumulate; the recursion merges through a helper
    dict(id="c14-ok-merge-helper", prop="C14", file=S, expect=None, edits=[
        ("    def process_term(term: e.Term, t_name):",
         "    def merge_into(collected: dict, key, contrib):\n        if key not in collected:\n            collected[key] = 0 + contrib\n            return\n"
         "        if collected[key].provided_target_idx != contrib.provided_target_idx:\n            unify_target_idx(collected[key], contrib)\n"
         "        collected[key] += contrib\n\n    def process_term(term: e.Term, t_name):"),
        ("                    key = tuple(sorted(t_block + list(blocks)))\n                    if key not in ret:\n                        ret[key] = 0\n                    elif (ret[key].provided_target_idx !=\n                            contrib.provided_target_idx):\n                        unify_target_idx(ret[key], contrib)\n                    ret[key] += contrib",
         "                    merge_into(ret, tuple(sorted(t_block + list(blocks))), contrib)"),
    ]),
    # unify_target_idx fills the missing side only: written as one conditional expression per side
    dict(id="c14-ok-f28-unify-rewritten", prop="C14", file=S, expect=None,
         old="        if collected.provided_target_idx is None:\n            collected.set_target_idx(contrib.provided_target_idx)\n"
             "        elif contrib.provided_target_idx is None:\n            contrib.set_target_idx(collected.provided_target_idx)\n",
         new="        have, new = collected.provided_target_idx, contrib.provided_target_idx\n"
             "        if have is None and new is not None:\n            collected.set_target_idx(new)\n"
             "        if new is None and have is not None:\n            contrib.set_target_idx(have)\n"),
    # explicit targets always win: overwriting a different explicit set hides the clash that += has to report
    dict(id="c14-f28-unify-overwrites", prop="C14", file=S, expect="R14c",
         old="        elif contrib.provided_target_idx is None:\n            contrib.set_target_idx(collected.provided_target_idx)\n",
         new="        else:\n            contrib.set_target_idx(collected.provided_target_idx)\n"),
    # ---- F43: several occurrences are removed in the order of their blocks
    dict(id="c14-f43-revert", prop="C14", file=S, expect="R14e",
         old="        tensors.sort(key=block_name)\n", new=""),
    dict(id="c14-f43-sort-descending", prop="C14", file=S, expect="R14e",
         old="        tensors.sort(key=block_name)\n", new="        tensors.sort(key=block_name, reverse=True)\n"),
    dict(id="c14-ok-f43-sorted-rebinding", prop="C14", file=S, expect=None,
         old="        tensors.sort(key=block_name)\n", new="        tensors = sorted(tensors, key=lambda occurrence: block_name(occurrence))\n"),
    dict(id="c14-ok-f43-decorate-sort", prop="C14", file=S, expect=None,
         old="        tensors.sort(key=block_name)\n",
         new="        decorated = [(block_name(t), n, t) for n, t in enumerate(tensors)]\n        decorated.sort(key=lambda entry: entry[:2])\n"
             "        tensors = [entry[2] for entry in decorated]\n"),
    # ---- F44: derivative lifts repeated and target indices on the tensor
    dict(id="c14-f44-revert", prop="C14", file=D, expect="R14c", edits=[
        ("            obj, deltas = _lift_target_and_repeated_idx(\n                obj, term, target_names_by_space\n            )\n            deriv_contrib *= deltas\n",
         "            obj = e.Expr(obj.sympy, **obj.assumptions)\n"),
    ]),
    dict(id="c14-f44-deltas-dropped", prop="C14", file=D, expect="R14c",
         old="            deriv_contrib *= deltas\n", new=""),
    dict(id="c14-f44-targets-not-lifted", prop="C14", file=D, expect="R14c",
         old="        if s.name not in target_names.get(idx_key, []) and s not in seen:", new="        if s not in seen:"),
    dict(id="c14-f44-repeated-not-lifted", prop="C14", file=D, expect="R14c",
         old="        if s.name not in target_names.get(idx_key, []) and s not in seen:", new="        if s.name not in target_names.get(idx_key, []):"),
    dict(id="c14-f44-amplitude-groups", prop="C14", file=D, expect=["R14c", "R14e"],
         old="            n_l = len(base.lower)\n            upper, lower = indices[n_l:], indices[:n_l]\n        else:  # symtensor / antisymtensor, indices = upper, lower\n            n_u = len(base.upper)",
         new="            n_l = len(base.lower)\n            upper, lower = indices[:n_l], indices[n_l:]\n        else:  # symtensor / antisymtensor, indices = upper, lower\n            n_u = len(base.upper)"),
    dict(id="c14-ok-f44-positions-first", prop="C14", file=D, expect=None, edits=[
        ("    deltas = S.One\n    seen = set()\n    for pos, s in enumerate(indices):\n        idx_key = s.space_and_spin\n"
         "        if s.name not in target_names.get(idx_key, []) and s not in seen:\n            seen.add(s)\n            continue\n",
         "    deltas = S.One\n    first = {}\n    for pos, s in enumerate(indices):\n        first.setdefault(s, pos)\n"
         "    for pos, s in enumerate(list(indices)):\n        idx_key = s.space_and_spin\n"
         "        is_target = s.name in target_names.get(idx_key, [])\n        if not is_target and first[s] == pos:\n            continue\n"),
    ]),
    dict(id="c14-ok-f44-delta-list", prop="C14", file=D, expect=None, edits=[
        ("    deltas = S.One\n    seen = set()\n", "    deltas = S.One\n    replaced = []\n    seen = set()\n"),
        ("        deltas *= KroneckerDelta(s, new_s)\n        indices[pos] = new_s\n", "        replaced.append((s, new_s))\n        indices[pos] = new_s\n"),
        ("    if deltas is S.One:  # nothing to do\n", "    for old_s, new_s in replaced:\n        deltas = KroneckerDelta(old_s, new_s) * deltas\n    if not replaced:  # nothing to do\n"),
    ]),
    # ---- F45: remove_tensor works on an expanded copy
    dict(id="c14-f45-revert", prop="C14", file=S, expect="R14e",
         old="    expr = e.Expr(expr.sympy.expand(), **expr.assumptions)\n", new=""),
    dict(id="c14-f45-expands-the-input", prop="C14", file=S, expect="R14e",
         old="    expr = e.Expr(expr.sympy.expand(), **expr.assumptions)\n", new="    expr = expr.expand()\n"),
    dict(id="c14-f45-assumptions-lost", prop="C14", file=S, expect=["R14e", "R14c"],
         old="    expr = e.Expr(expr.sympy.expand(), **expr.assumptions)\n", new="    expr = e.Expr(expr.sympy.expand())\n"),
    dict(id="c14-f45-denominator-guard-removed", prop="C14", file=S, expect="R14e",
         old="                if isinstance(obj, e.Polynom) and any(\n                        t.name == t_name\n                        for t in obj.sympy.atoms(SymbolicTensor)):",
         new="                if False:"),
    dict(id="c14-ok-f45-copy-then-expand", prop="C14", file=S, expect=None,
         old="    expr = e.Expr(expr.sympy.expand(), **expr.assumptions)\n", new="    expr = expr.copy().expand()\n"),
    dict(id="c14-ok-f45-guard-as-loop", prop="C14", file=S, expect=None,
         old="                if isinstance(obj, e.Polynom) and any(\n                        t.name == t_name\n                        for t in obj.sympy.atoms(SymbolicTensor)):\n"
             "                    raise NotImplementedError(",
         new="                hidden = []\n                if isinstance(obj, e.Polynom):\n                    for t in obj.sympy.atoms(SymbolicTensor):\n"
             "                        if t.name == t_name:\n                            hidden.append(t)\n                if hidden:\n"
             "                    raise NotImplementedError("),

    # ---- F57: the names of the target indices (incl. the indices of occurrences removed before) are not available for the
    # new indices of target / repeated indices
    dict(id="c14-f57-revert", prop="C14", file=S, expect="R14c",
         old="        for idx_key, names in target_indices.items():\n            if idx_key not in used_indices:\n                used_indices[idx_key] = set()\n            used_indices[idx_key].update(names)\n", new=""),
    dict(id="c14-f57-only-known-classes", prop="C14", file=S, expect="R14c",
         old="        for idx_key, names in target_indices.items():\n            if idx_key not in used_indices:\n                used_indices[idx_key] = set()\n            used_indices[idx_key].update(names)\n",
         new="        for idx_key, names in target_indices.items():\n            if idx_key in used_indices:\n"
             "                used_indices[idx_key].update(names)\n"),
    dict(id="c14-f57-after-the-target-indices", prop="C14", file=S, expect="R14c", edits=[
        ("        for idx_key, names in target_indices.items():\n            if idx_key not in used_indices:\n                used_indices[idx_key] = set()\n            used_indices[idx_key].update(names)\n", ""),
        ("        # - check for repeating indices:\n", "        for idx_key, names in target_indices.items():\n            if idx_key not in used_indices:\n                used_indices[idx_key] = set()\n            used_indices[idx_key].update(names)\n        # - check for repeating indices:\n")]),
    dict(id="c14-ok-f57-setdefault", prop="C14", file=S, expect=None,
         old="        for idx_key, names in target_indices.items():\n            if idx_key not in used_indices:\n                used_indices[idx_key] = set()\n            used_indices[idx_key].update(names)\n",
         new="        for idx_key in target_indices:\n            used_indices.setdefault(idx_key, set()).update(target_indices[idx_key])\n"),
    dict(id="c14-ok-f57-pool-starts-from-targets", prop="C14", file=S, expect=None, edits=[
        ("        used_indices = {}\n        for s in set(s for s, _ in term._idx_counter):",
         "        used_indices = {key: set(val) for key, val in target_indices.items()}\n        for s in set(s for s, _ in term._idx_counter):"),
        ("        for idx_key, names in target_indices.items():\n            if idx_key not in used_indices:\n                used_indices[idx_key] = set()\n            used_indices[idx_key].update(names)\n", "")]),
    dict(id="c14-ok-f57-after-the-tensor-indices", prop="C14", file=S, expect=None, edits=[
        ("        for idx_key, names in target_indices.items():\n            if idx_key not in used_indices:\n                used_indices[idx_key] = set()\n            used_indices[idx_key].update(names)\n", ""),
        ("            used_indices[idx_key].add(s.name)\n\n        if tensor_target_indices:",
         "            used_indices[idx_key].add(s.name)\n        for idx_key, names in target_indices.items():\n            if idx_key not in used_indices:\n                used_indices[idx_key] = set()\n            used_indices[idx_key].update(names)\n\n        if tensor_target_indices:")]),
]
