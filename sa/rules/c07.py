"""C07 simplify (structural clauses)."""
from __future__ import annotations

import ast

from ..model import AnalysisError, U, Defs, calls_in, call_name, walk_fn, kwarg, enclosing, enclosing_stmt
from ..pathcond import conditions
from . import common
from . import c08

EXPLANATION = (
    "R07a: every accepted substitution returned by find_compatible_terms.compare_terms is dominated "
    "by (i) the substituted other term not being a spurious zero and (ii) the difference term - "
    "substituted_other not being a sum (it collapses to one term), where substituted_other is "
    "other_term.sympy.subs(<that same substitution>). R07b: a candidate index pair is discarded when "
    "exactly one of the indices is a target or both are different targets, and accepted only for "
    "identical patterns. R07c: partition bookkeeping: every term becomes a key unless matched; each "
    "stored match is paired with matched.add; simplify adds every key term once and every matched "
    "term once, substituted; prefilter key contains the target indices. R07d: the substitution sites "
    "of simplify.py obey the ordered-substitution discipline (R08a). R07e: the index fingerprints "
    "(Term.pattern / coupling / Obj.crude_pos / description) distinguish upper/lower positions iff "
    "the tensor has no bra-ket symmetry, include the exponent and the target names.")
ASSUMPTIONS = [
    "completeness of the pattern fingerprints (that alpha-equivalent terms are always found) is not decided",
]

CT = "simplify:find_compatible_terms.compare_terms"


def r07a(ctx):
    rule = "R07a"
    fn = ctx.model.fn(CT)
    defs = Defs(fn)
    rets = [r for r in common.returns_of(fn) if U(r.value) != "None"]
    ctx.floor(rule, "accepting returns in compare_terms", len(rets), 1)
    for r in rets:
        name = U(r.value)
        conds = conditions(r)
        # the substituted other term
        lp = enclosing(r, ast.For)
        subs = [a for a in walk_fn(fn) if isinstance(a, ast.Assign) and isinstance(a.value, ast.Call) and call_name(a.value) == "subs"
                and lp is not None and any(a is x for x in ast.walk(lp))]
        ok_sub = len(subs) == 1 and U(subs[0].value.func.value) == "other_term.sympy" and U(subs[0].value.args[0]) == name
        so = U(subs[0].targets[0]) if subs else "?"
        ctx.check(rule, r, ok_sub, f"`{so}` = other term with the returned substitution applied",
                  "the term that is tested is not other_term.sympy.subs(<returned substitution>)", key="tested term")
        single = (f"isinstance(term.sympy - {so}, Add)", False) in conds
        ctx.check(rule, r, single, "accepted only if term - substituted other collapses to a single term",
                  "a substitution is accepted without checking that term - substituted_other is a single term (not an Add)",
                  key="single term")
        zero = [n for n in walk_fn(lp) if isinstance(n, ast.Continue)] if lp is not None else []
        okz = any(U(z._parent.test) == f"{so} is S.Zero and other_term.sympy is not S.Zero" and z.lineno < r.lineno for z in zero)
        ctx.check(rule, r, okz, "spurious zeros (substitution annihilates the other term) are skipped before the test",
                  "a substitution that turns the other term into 0 is not excluded before acceptance", key="spurious zero")
        od = [a for a in walk_fn(lp) if isinstance(a, ast.Assign) and U(a.targets[0]) == name] if lp is not None else []
        ctx.check(rule, r, len(od) == 1 and U(od[0].value) == f"order_substitutions({name})", "candidate ordered before use",
                  "candidate substitution is not ordered", key="ordered")


def r07b(ctx):
    rule = "R07b"
    fn = ctx.model.fn(CT)
    app = [c for c in calls_in(fn) if call_name(c) == "append" and U(c.func.value) == "matching_idx"]
    ctx.floor(rule, "candidate acceptance sites", len(app), 1)
    for c in app:
        conds = conditions(c)
        ok_pat = ("pat == other_pat", True) in conds
        tg = {("is_target == other_is_target", True)} <= {(t, p) for t, p in conds} or ("is_target != other_is_target", False) in conds
        # raw test: is_target != other_is_target or (is_target and other_is_target and idx is not other_idx)  -> False
        atoms_ = {(t, p) for t, p in conds}
        both = ("is_target and other_is_target and (idx is not other_idx)", False) in atoms_ or \
            ("is_target and other_is_target and idx is not other_idx", False) in atoms_
        ctx.check(rule, c, ok_pat, "candidate only for identical index patterns", "candidate accepted without equal patterns", key="pattern eq")
        ctx.check(rule, c, tg, "never a target paired with a contracted index", "target/contracted pairing not excluded", key="mixed target")
        ctx.check(rule, c, both, "two target indices only if they are the same index", "different target indices may be mapped onto each other",
                  key="different targets")
        ctx.check(rule, c, U(c.args[0]) == "other_idx", "candidate is the other term's index", "wrong candidate appended", key="candidate")
    a = {U(x.targets[0]): U(x.value) for x in walk_fn(fn) if isinstance(x, ast.Assign)}
    ctx.check(rule, fn, a.get("is_target") == "idx in target" and a.get("other_is_target") == "other_idx in target",
              "target test against the term's target indices", f"target tests: {a.get('is_target')}, {a.get('other_is_target')}", key="is_target")
    ctx.check(rule, fn, a.get("other_idx_pattern") == "other_pattern[ov]", "indices compared within one (space, spin) only",
              "space restriction changed", key="same space")
    ext = [x for x in walk_fn(fn) if isinstance(x, ast.Assign) and U(x.targets[0]) == "extended_sub[other_idx]"]
    ctx.check(rule, fn, len(ext) == 1 and U(ext[0].value) == "idx", "map other_idx -> idx", "direction of the substitution changed", key="direction")
    sk = [n for n in walk_fn(fn) if isinstance(n, ast.Continue) and U(n._parent.test) == "other_idx in sub"]
    ctx.check(rule, fn, len(sk) == 1, "an index of the other term is mapped at most once (injective)", "injectivity check removed", key="injective")
    flt = [x for x in walk_fn(fn) if isinstance(x, ast.Assign) and U(x.targets[0]) == "ov_sub_list" and isinstance(x.value, ast.ListComp)]
    ok = any(U(x.value) == "[sub for sub in ov_sub_list if sub.keys() == other_idx_pattern.keys()]" for x in flt)
    ctx.check(rule, fn, ok, "only complete maps (all indices of the space) survive", "completeness filter changed", key="complete")
    cp = [x for x in walk_fn(fn) if isinstance(x, ast.Assign) and U(x.targets[0]) == "extended_sub"]
    ctx.check(rule, fn, len(cp) == 1 and U(cp[0].value) == "sub.copy()", "candidate maps extended on a copy", "in-place extension of shared maps",
              key="copy")


def r07c(ctx):
    rule = "R07c"
    fn = ctx.model.fn("simplify:find_compatible_terms")
    st = [a for a in walk_fn(fn, nested=False) if isinstance(a, ast.Assign) and U(a.targets[0]) == "compatible_terms[term_i][other_term_i]"]
    ok = len(st) == 1 and ("sub is None", False) in conditions(st[0])
    ctx.check(rule, fn, ok, "a match is stored only for a found substitution", "match stored without a substitution", key="store guard")
    if st:
        blk = st[0]._parent.body
        ctx.check(rule, st[0], any(U(s) == "matched.add(other_term_i)" for s in blk), "stored match is marked as matched",
                  "a stored match is not added to `matched` (the term would be added twice)", key="matched pairing")
    key = [a for a in walk_fn(fn, nested=False) if isinstance(a, ast.Assign) and U(a.targets[0]) == "compatible_terms[term_i]"]
    ok = len(key) == 1 and U(key[0].value) == "{}" and ("term_i in matched", False) in conditions(key[0])
    ctx.check(rule, fn, ok, "every unmatched term becomes a key", "key creation changed", key="key")
    sk = [n for n in walk_fn(fn, nested=False) if isinstance(n, ast.Continue)]
    tests = sorted(U(n._parent.test) for n in sk)
    ctx.check(rule, fn, tests == ["(descr := o.description()) == 'prefactor'", "other_term_i in matched", "term_i in matched"],
              "terms are skipped only when already matched", f"skip conditions {tests}", key="skips")
    k = [a for a in walk_fn(fn, nested=False) if isinstance(a, ast.Assign) and U(a.targets[0]) == "key"]
    ok = len(k) == 1 and isinstance(k[0].value, ast.Tuple) and U(k[0].value.elts[-1]) == "target" and len(k[0].value.elts) == 5
    ctx.check(rule, fn, ok, "prefilter key: length, descriptions, repeated index spaces, pattern sizes, targets", "prefilter key changed",
              key="prefilter")
    ap = [c for c in calls_in(fn, nested=False) if call_name(c) == "append" and U(c.func.value) == "filtered_terms[key]"]
    ctx.check(rule, fn, len(ap) == 1 and U(ap[0].args[0]) == "term_i" and ap[0]._parent._parent is enclosing(ap[0], ast.For),
              "every term enters exactly one prefilter class", "prefilter classification changed", key="classes")
    cmpc = [c for c in calls_in(fn, nested=False) if call_name(c) == "compare_terms"]
    ok = len(cmpc) == 1 and [U(a) for a in cmpc[0].args] == ["pattern", "term_pattern[other_term_i]", "target", "term", "terms[other_term_i]"]
    ctx.check(rule, fn, ok, "key term compared with the candidate term", "compare_terms arguments changed", key="compare args")
    s = ctx.model.fn("simplify:simplify")
    lp = [n for n in walk_fn(s) if isinstance(n, ast.For) and U(n.iter) == "equal_terms.items()"]
    ok = len(lp) == 1
    if ok:
        body = [U(x) for x in lp[0].body]
        ok = body[0] == "res += terms[n]" and len(body) == 2 and "for other_n, sub in matches.items():" in body[1] \
            and "res += terms[other_n].subs(sub)" in body[1]
    ctx.check(rule, s, ok, "key term added once, matched terms added once with their substitution", "simplify accumulation changed",
              key="simplify add")
    r1 = [r for r in common.returns_of(s) if ("len(expr) == 1", True) in conditions(r)]
    ctx.check(rule, s, len(r1) == 1 and U(r1[0].value) == "expr", "single term returned unchanged", "trivial case changed", key="trivial")
    exp = [x for x in walk_fn(s) if isinstance(x, ast.Assign) and U(x.targets[0]) == "expr" and U(x.value) == "expr.expand()"]
    ctx.check(rule, s, len(exp) == 1 and bool(r1) and exp[0].lineno < r1[0].lineno, "term count taken from the expanded expression",
              "the single-term shortcut is taken before the expression is expanded: a product containing a sum is returned "
              "untouched", key="expand first")
    a = {U(x.targets[0]): U(x.value) for x in walk_fn(s) if isinstance(x, ast.Assign)}
    ctx.check(rule, s, a.get("terms") == "expr.terms" and a.get("equal_terms") == "find_compatible_terms(terms)" and a.get("expr") == "expr.expand()",
              "all terms of the expanded expression are compared", "term source changed", key="terms")


def r07e(ctx):
    rule = "R07e"
    cp = ctx.model.fn("expr_container:Obj.crude_pos")
    pos = {}
    for a in walk_fn(cp):
        if isinstance(a, ast.Assign) and U(a.targets[0]) == "pos":
            cs = conditions(a)
            pos["nosym" if ("tensor.bra_ket_sym is S.Zero", True) in cs else "sym" if ("tensor.bra_ket_sym is S.Zero", False) in cs else "?"] = U(a.value)
    ctx.check(rule, cp, pos == {"nosym": "f'{description}-{uplo}'", "sym": "description"},
              "upper/lower position distinguished iff the tensor has no bra-ket symmetry", f"position labels {pos}", key="uplo")
    d = ctx.model.fn("expr_container:Obj.description")
    ex = [n for n in walk_fn(d) if isinstance(n, ast.AugAssign) and "exponent" in U(n.value)]
    ok = len(ex) == 3 and all(("include_exponent", True) in conditions(n) for n in ex)
    ctx.check(rule, d, ok, "exponent part of the description on request", "exponent handling in description changed", key="exponent")
    tg2 = {}
    for n in walk_fn(d):
        if isinstance(n, ast.AugAssign) and "target_u" in U(n.value) and "target_l" in U(n.value):
            cs = conditions(n)
            k = "nosym" if ("base.bra_ket_sym is S.Zero", True) in cs else "sym" if ("base.bra_ket_sym is S.Zero", False) in cs else "?"
            tg2.setdefault(k, []).append(U(n.value))
    symv = tg2.get("sym", [])
    ok = tg2.get("nosym") == ["f'-{target_u}-{target_l}'"] and len(symv) == 2 and set(tg2) == {"nosym", "sym"} \
        and any("sorted([target_u, target_l])" in v for v in symv) and any(v == "f'-{target_u + target_l}'" for v in symv)
    ctx.check(rule, d, ok, "target names ordered upper/lower iff the tensor has no bra-ket symmetry (sorted otherwise)",
              f"target part of the description: {tg2}; for tensors with bra-ket symmetry +-1 the upper/lower orientation depends on "
              "the index names, so an ordered description is not invariant under renaming", key="target orientation")
    nm = [n for n in walk_fn(d) if isinstance(n, ast.AugAssign) and "name" in U(n.value) and "data" in U(n.value)]
    ctx.check(rule, d, len(nm) == 2, "tensor name and index spaces part of the description", "name/space part changed", key="name space")
    tg = [n for n in walk_fn(d) if isinstance(n, ast.AugAssign) and "target_u" in U(n.value)]
    srt = [U(n.value) for n in tg]
    ctx.check(rule, d, "f\"-{'-'.join(sorted([target_u, target_l]))}\"" in srt or any("sorted([target_u, target_l])" in x for x in srt),
              "bra-ket symmetric tensors: target names order-independent", "target part of the description changed", key="target names")
    pt = ctx.model.fn("expr_container:Term.pattern")
    so = [n for n in walk_fn(pt) if isinstance(n, ast.Assign) and U(n.targets[0]) == "pattern[ov][s]"]
    ctx.check(rule, pt, len(so) == 1 and U(so[0].value) == "sorted(pat)", "patterns sorted for comparison", "pattern sorting changed", key="sorted")
    kk = [n for n in walk_fn(pt) if isinstance(n, ast.Assign) and U(n.targets[0]) == "key"]
    ctx.check(rule, pt, len(kk) == 1 and U(kk[0].value) == "s.space_and_spin", "pattern grouped by (space, spin)", "pattern grouping changed",
              key="grouping")
    co = ctx.model.fn("expr_container:Term.coupling")
    sk = [n for n in walk_fn(co) if isinstance(n, ast.Continue)]
    tests = sorted(U(n._parent.test) for n in sk)
    ctx.check(rule, co, tests == ["descr_counter[descr] < 2", "i == other_i", "not matches"], "coupling only for repeated objects",
              f"coupling skips {tests}", key="coupling")


def run(ctx):
    for r, f in (("R07a", r07a), ("R07b", r07b), ("R07c", r07c), ("R07e", r07e)):
        if ctx.want(r):
            f(ctx)
    if ctx.want("R07d") or ctx.want("R08a"):
        c08.r08a(ctx, modules={"simplify"} if ctx.tier == "quick" else {"simplify", "expr_container", "reduce_expr"})
