"""C05 ISR properties and transition moments: derivation skeleton by abstract evaluation."""
from __future__ import annotations

from fractions import Fraction

from ..model import AnalysisError
from ..symex import Obj
from ..terms import T, sym, kwcall, mcall, t_mul, t_add, t_neg, t_pow, expand_products, args_of, show
from . import dx
from .c03 import _table

EXPLANATION = (
    "Every method of properties.py is evaluated abstractly (sa.symex) for concrete orders, blocks and spaces with wicks, "
    "intermediate states, wavefunctions, norm factors, amplitude vectors and the operator left uninterpreted, and the "
    "evaluated sum of products is compared on every path with the ISR formulas. D5: Properties.operator(n) = (d, rules) "
    "of Operators.operator only at order 0 and (0, empty rules) beyond, shifted by the ground-state expectation value of "
    "the same order only for n_create == n_annihilate and subtract_gs. R05a: expec_block_contribution = sum N^(a) "
    "sum_{i+j+k=m} wicks(p_L p_R X^L_I <I^(i)| d^(j) |J^(k)> Y^R_J, rules of d^(j)) with the left vector/state from "
    "l_isr on indices generated for block[0], the right ones from r_isr on indices generated for block[1]; "
    "trans_moment_space = sum N^(a) sum wicks(p X_I <I^(i)| d^(j) |Psi^(k)>) with the default operator string "
    "count('p') creators / count('h') annihilators of the minimal space; expectation_value / trans_moment sum exactly "
    "the blocks / classes and orders of the ADC(n) truncation table (mixed block (l_block[0], r_block[1])). D3: the "
    "1/sqrt(n_o! n_v!) factors belong to the spaces whose indices are summed. D1/D2/D4 are read off the same comparisons. "
    "The intermediate-state, secular-matrix-table and ground-state layers are checked by the C04/C03/C02 rules, run here too.")
ASSUMPTIONS = [
    "equality with explicit matrix elements is not decided",
    "skeletons are evaluated for orders 0..3 (thorough tier: 0..4) and the listed blocks/spaces only (bounded)",
]

PR = dx.PR


def _objs(scen, variant_r=None):
    h, gs, isr = scen.objects()
    mins = {"pp": ["ph", "hp"], "ea": ["p"], "ip": ["h"], "dip": ["hh"], "dea": ["pp"]}
    l_isr = Obj(dx.IS, "l_isr", gs=gs, variant=scen.variant, min_space=list(mins[scen.variant]), indices=Obj("indices:Indices", "l.indices"))
    rv = variant_r or scen.variant
    r_isr = Obj(dx.IS, "r_isr", gs=gs, variant=rv, min_space=list(mins[rv]), indices=Obj("indices:Indices", "r.indices"))
    l_m = Obj(dx.SM, "l_m", isr=l_isr, gs=gs, h=h)
    r_m = Obj(dx.SM, "r_m", isr=r_isr, gs=gs, h=h)
    return Obj(PR, "self", l_isr=l_isr, r_isr=r_isr, l_m=l_m, r_m=r_m, gs=gs, h=h)


def _OP(j, nc, na, sg):
    return mcall(sym("self"), "operator", order=j, n_create=nc, n_annihilate=na, subtract_gs=sg)


def _rootlift(space):
    return t_pow(1 / dx.lift(space), Fraction(-1, 2))


def d5(ctx):
    rule = "D5"
    fn = ctx.model.fn(PR + ".operator")
    for order in (0, 1, 2):
        for nc, na in ((1, 1), (2, 2), (1, 0), (0, 1), (2, 1)):
            for sg in (True, False):
                scen = dx.Scenario()
                sx = dx.make_sx(ctx, "operator", scen)
                outs = sx.run(fn, lambda: dict(self=_objs(scen), order=order, n_create=nc, n_annihilate=na, subtract_gs=sg))
                what = f"operator({order}, {nc}, {na}, subtract_gs={sg})"
                if len(outs) != 1 or outs[0].kind != "return" or not isinstance(dx.val(outs[0]), tuple) or len(dx.val(outs[0])) != 2:
                    ctx.bad(rule, fn, f"{what}: {outs}", key=f"operator shape {order} {nc} {na} {sg}")
                    continue
                op, rules = dx.val(outs[0])
                src = mcall(sym("h"), "operator", n_create=nc, n_annihilate=na)
                want = T("item", src, 0) if order == 0 else 0
                if sg and nc == na:
                    want = t_add(want, t_neg(mcall(sym("gs"), "expectation_value", order=order, n_particles=nc)))
                ok = dx.keys(dx.skeleton(op)) == dx.keys(expand_products(want))
                ctx.check(rule, fn, ok, f"{what}: operator {show(want)[:80]}",
                          f"{what} returns the operator {show(op)[:200]}, expected {show(want)[:200]}", key=f"operator {order} {nc} {na} {sg}")
                if order == 0:
                    okr = rules == T("item", src, 1)
                else:
                    okr = isinstance(rules, T) and rules.op == "call" and rules.args[0] == "Rules" and all(v is None for v in args_of(rules).values())
                ctx.check(rule, fn, okr, f"{what}: rules of the operator", f"{what} returns the rules {show(rules)[:120]}",
                          key=f"operator rules {order} {nc} {na} {sg}")


def r05a_block(ctx):
    rule = "R05a"
    fn = ctx.model.fn(PR + ".expec_block_contribution")
    n = 0
    for order in dx.orders(ctx, (0, 1, 2, 3), (4,)):
        for block in (("ph", "ph"), ("ph", "pphh"), ("pphh", "ph"), ("pphh", "pphh"), ("h", "phh"), ("phh", "h"), ("phh", "phh"),
                      ("p", "pph"), ("pph", "pph"), ("hh", "phhh")):
            if order >= 3 and block != ("ph", "ph"):
                continue
            if order == 2 and block[0] not in ("ph", "h"):
                continue
            for npart in (1, 2):
                if npart == 2 and (order > 1 or block != ("ph", "pphh")):
                    continue
                scen = dx.Scenario(variant={"ph": "pp", "pphh": "pp", "h": "ip", "phh": "ip", "p": "ea", "pph": "ea", "hh": "dip"}[block[0]])
                sx = dx.make_sx(ctx, "expec_block_contribution", scen, max_paths=8192)
                outs = sx.run(fn, lambda: dict(self=_objs(scen), order=order, block=",".join(block), n_particles=npart, subtract_gs=sym("SG")))
                what = f"expec_block_contribution({order}, {block}, {npart})"
                gens = list(scen.generated.items())
                ok = sorted(sp for _, sp in gens) == sorted(block)
                ctx.check("D3", fn, ok, f"{what}: summed indices generated for the bra space {block[0]} and the ket space {block[1]}",
                          f"{what}: indices generated for {[sp for _, sp in gens]}, expected {list(block)}", key=f"expec generated {order} {block} {npart}")
                if not ok:
                    continue
                # the first generated string belongs to block[0], the second to block[1] when both spaces are equal
                if block[0] == block[1]:
                    gL, gR = gens[0][0], gens[1][0]
                else:
                    gL = [g for g, sp in gens if sp == block[0]][0]
                    gR = [g for g, sp in gens if sp == block[1]][0]
                XL = mcall(sym("l_isr"), "amplitude_vector", indices=gL, lr="left")
                YR = mcall(sym("r_isr"), "amplitude_vector", indices=gR, lr="right")
                pref = t_mul(_rootlift(block[0]), _rootlift(block[1]))

                def formula_for(gl, gr):
                    XL_ = mcall(sym("l_isr"), "amplitude_vector", indices=gl, lr="left")
                    YR_ = mcall(sym("r_isr"), "amplitude_vector", indices=gr, lr="right")
                    out = []
                    for a, m in dx.compositions(order, 2):
                        for i, j, k in dx.compositions(m, 3):
                            O = _OP(j, npart, npart, sym("SG"))
                            out.append(t_mul(mcall(sym("gs"), "norm_factor", order=a), kwcall(
                                "wicks", expr=t_mul(pref, XL_, mcall(sym("l_isr"), "intermediate_state", order=i, space=block[0], braket="bra", indices=gl),
                                                    T("item", O, 0),
                                                    mcall(sym("r_isr"), "intermediate_state", order=k, space=block[1], braket="ket", indices=gr), YR_),
                                rules=T("item", O, 1), simplify_kronecker_deltas=True)))
                    return out
                formula = formula_for(gL, gR)
                if block[0] == block[1]:
                    # which of the two strings is generated first is not behaviour
                    probe = [o for o in outs if o.kind == "return" and not dx.zero_tests(o)]
                    if probe and dx.keys(dx.skeleton(probe[0].value)) != dx.keys(sum((expand_products(p) for p in formula), [])):
                        formula = formula_for(gR, gL)
                n += dx.check_formula(ctx, rule, fn, what, outs, formula, key=f"expec {order} {block[0]},{block[1]} {npart}")
    ctx.floor(rule, "expec_block_contribution paths equal to the formula", n, 20)


def r05a_tm(ctx):
    rule = "R05a"
    fn = ctx.model.fn(PR + ".trans_moment_space")
    cases = (("pp", "ph", None, None, 1, 1), ("pp", "pphh", None, None, 1, 1), ("ip", "h", None, None, 0, 1), ("ea", "pph", None, None, 1, 0),
             ("dip", "hh", None, None, 0, 2), ("pp", "ph", 2, 2, 2, 2), ("ip", "phh", None, 1, 0, 1), ("ea", "p", 1, None, 1, 0))
    n = 0
    mixed = (("pp", "ip", "h", None, None, 0, 1), ("pp", "ea", "p", None, None, 1, 0), ("ip", "pp", "ph", None, None, 1, 1),
             ("dip", "ea", "pph", None, None, 1, 0))
    for case in [(v, None) + tuple(rest) for v, *rest in cases] + [(vl, vr) + tuple(rest) for vl, vr, *rest in mixed]:
        variant, variant_r, space, nc, na, wnc, wna = case
        for lr in ("left", "right"):
            if variant_r is not None and lr == "left":
                continue
            for order in dx.orders(ctx, (0, 1, 2), (3,)):
                if lr == "right" and order != 1:
                    continue
                scen = dx.Scenario(variant=variant)
                sx = dx.make_sx(ctx, "trans_moment_space", scen, max_paths=8192)
                outs = sx.run(fn, lambda: dict(self=_objs(scen, variant_r=variant_r), order=order, space=space, n_create=nc, n_annihilate=na,
                                               lr_isr=lr, subtract_gs=sym("SG")))
                what = f"{variant}{'/' + variant_r if variant_r else ''}: trans_moment_space({order}, {space}, n_create={nc}, n_annihilate={na}, {lr})"
                gens = [g for g, sp in scen.generated.items() if sp == space]
                ctx.check("D3", fn, len(gens) == 1 and len(scen.generated) == 1, f"{what}: summed indices generated for the space {space}",
                          f"{what}: indices generated for {sorted(scen.generated.values())}", key=f"tm generated {variant} {variant_r} {space} {lr} {order} {nc} {na}")
                if len(gens) != 1:
                    continue
                g = gens[0]
                isr = sym("l_isr" if lr == "left" else "r_isr")
                X = mcall(isr, "amplitude_vector", indices=g, lr="left")
                formula = []
                for a, m in dx.compositions(order, 2):
                    for i, j, k in dx.compositions(m, 3):
                        O = _OP(j, wnc, wna, sym("SG"))
                        formula.append(t_mul(mcall(sym("gs"), "norm_factor", order=a), kwcall(
                            "wicks", expr=t_mul(_rootlift(space), X, mcall(isr, "intermediate_state", order=i, space=space, braket="bra", indices=g),
                                                T("item", O, 0), mcall(sym("gs"), "psi", order=k, braket="ket")),
                            rules=T("item", O, 1), simplify_kronecker_deltas=True)))
                n += dx.check_formula(ctx, rule, fn, what, outs, formula, key=f"tm {variant} {variant_r} {space} {lr} {order} {nc} {na}")
    ctx.floor(rule, "trans_moment_space paths equal to the formula", n, 20)


def r05a_sums(ctx):
    rule = "R05a"
    extra = {f"{dx.SM}.block_order", f"{dx.SM}.max_ptorder_spaces"}
    fn = ctx.model.fn(PR + ".expectation_value")
    for variant in ("pp", "ip"):
        for n in (0, 1, 2, 3):
            for order in (None, 0, 1, n):
                for npart in (1, 2):
                    if npart == 2 and n != 2:
                        continue
                    scen = dx.Scenario(variant=variant)
                    sx = dx.make_sx(ctx, "expectation_value", scen, extra_inline=extra)
                    outs = sx.run(fn, lambda: dict(self=_objs(scen), adc_order=n, n_particles=npart, order=order, subtract_gs=sym("SG")))
                    what = f"{variant}-ADC({n}) expectation_value(order={order}, n_particles={npart})"
                    if len(outs) != 1 or outs[0].kind != "return":
                        ctx.bad(rule, fn, f"{what}: {outs}", key=f"expectation shape {variant} {n} {order} {npart}")
                        continue
                    want = [mcall(sym("self"), "expec_block_contribution", order=o, block=blk, n_particles=npart, subtract_gs=sym("SG"))
                            for blk, mo in _table(scen, n).items() for o in (range(mo + 1) if order is None else [order] if order <= mo else [])]
                    dx.compare(ctx, rule, fn, what, dx.keys(dx.skeleton(outs[0].value)), dx.keys(expand_products(t_add(*want)) if want else []),
                               key=f"expectation {variant} {n} {order} {npart}")
    fn = ctx.model.fn(PR + ".trans_moment")
    for variant in ("pp", "ip", "dea"):
        for n in (0, 1, 2, 3):
            for order in (None, 0, 1, n):
                for lr in ("left", "right"):
                    if lr == "right" and n != 2:
                        continue
                    scen = dx.Scenario(variant=variant)
                    sx = dx.make_sx(ctx, "trans_moment", scen, extra_inline=extra)
                    outs = sx.run(fn, lambda: dict(self=_objs(scen), adc_order=n, n_create=sym("NC"), n_annihilate=sym("NA"), order=order, lr_isr=lr,
                                                   subtract_gs=sym("SG")))
                    what = f"{variant}-ADC({n}) trans_moment(order={order}, {lr})"
                    if len(outs) != 1 or outs[0].kind != "return":
                        ctx.bad(rule, fn, f"{what}: {outs}", key=f"trans_moment shape {variant} {n} {order} {lr}")
                        continue
                    table = _table(scen, n)
                    classes = {a: table[(a, a)] for a in {x for x, _ in table}}
                    ms = min(classes, key=len)
                    classes = {a: n - (len(a) - len(ms)) // 2 for a in classes}
                    want = [mcall(sym("self"), "trans_moment_space", order=o, space=sp, n_create=sym("NC"), n_annihilate=sym("NA"), lr_isr=lr,
                                  subtract_gs=sym("SG"))
                            for sp, mo in classes.items() for o in (range(mo + 1) if order is None else [order] if order <= mo else [])]
                    dx.compare(ctx, rule, fn, what, dx.keys(dx.skeleton(outs[0].value)), dx.keys(expand_products(t_add(*want)) if want else []),
                               key=f"trans_moment {variant} {n} {order} {lr}")
    # mixed left/right variants: block (l_block[0], r_block[1]) pairs the i-th blocks of both tables
    fn = ctx.model.fn(PR + ".expectation_value")
    scen = dx.Scenario(variant="pp")
    sx = dx.make_sx(ctx, "expectation_value", scen, extra_inline=extra)
    outs = sx.run(fn, lambda: dict(self=_objs(scen, variant_r="ip"), adc_order=2, n_particles=1, order=None, subtract_gs=sym("SG")))
    if len(outs) == 1 and outs[0].kind == "return":
        tl = _table(dx.Scenario(variant="pp"), 2)
        tr = _table(dx.Scenario(variant="ip"), 2)
        srt = lambda t: sorted(t.items(), key=lambda kv: (len(kv[0][0]), len(kv[0][1])))
        want = [mcall(sym("self"), "expec_block_contribution", order=o, block=(lb[0], rb[1]), n_particles=1, subtract_gs=sym("SG"))
                for (lb, mo), (rb, _) in zip(srt(tl), srt(tr)) for o in range(mo + 1)]
        dx.compare(ctx, rule, fn, "expectation_value with a pp left and an ip right ISR", dx.keys(dx.skeleton(outs[0].value)),
                   dx.keys(expand_products(t_add(*want))), key="expectation mixed variants")
    else:
        ctx.bad(rule, fn, f"expectation_value with mixed variants: {outs}", key="expectation mixed variants")


def run(ctx):
    from . import c04, c03
    if ctx.want("D5"):
        d5(ctx)
    if ctx.want("R05a") or ctx.want("D3"):
        r05a_block(ctx)
        r05a_tm(ctx)
    if ctx.want("R05a"):
        r05a_sums(ctx)
    if ctx.want("R03b"):
        c03.r03b(ctx)
    c04.lower_layers(ctx)
