"""A1/A2/A4: source model of /repo/adcgen built from ``ast`` only.

Nothing from the repository is imported or executed.
"""
from __future__ import annotations

import ast
import hashlib
import os
from typing import Iterator


class AnalysisError(Exception):
    """An anchor vanished or a shape is not recognised (exit 2)."""


def U(node) -> str:
    """Normalised source text of a node (``ast.unparse``)."""
    if node is None:
        return "None"
    if isinstance(node, str):
        return node
    try:
        return ast.unparse(node)
    except Exception:  # pragma: no cover
        return repr(node)


def short(node, n: int = 160) -> str:
    s = " ".join(U(node).split())
    return s if len(s) <= n else s[: n - 3] + "..."


FuncNode = (ast.FunctionDef, ast.AsyncFunctionDef)


class ModuleInfo:
    def __init__(self, name: str, path: str, source: str, index: bool = True):
        self.name = name
        self.path = path
        self.source = source
        self.tree = ast.parse(source, filename=path)
        self.functions: dict[str, ast.FunctionDef] = {}
        self.classes: dict[str, ast.ClassDef] = {}
        self.imports: dict[str, str] = {}  # local name -> dotted origin
        if index:
            self._index()

    def _index(self) -> None:
        def visit(node, prefix, fn_qual, cls):
            for child in ast.iter_child_nodes(node):
                child._parent = node
                child._module = self
                child._fn = fn_qual
                child._cls = cls
                if isinstance(child, FuncNode):
                    q = f"{prefix}{child.name}"
                    # the first definition wins for overloaded names
                    self.functions.setdefault(q, child)
                    child._qual = q
                    visit(child, q + ".", q, cls)
                elif isinstance(child, ast.ClassDef):
                    q = f"{prefix}{child.name}"
                    self.classes[q] = child
                    child._qual = q
                    visit(child, q + ".", fn_qual, q)
                else:
                    visit(child, prefix, fn_qual, cls)
        self.tree._parent = None
        self.tree._module = self
        self.tree._fn = None
        self.tree._cls = None
        visit(self.tree, "", None, None)
        for node in ast.walk(self.tree):
            if isinstance(node, ast.ImportFrom):
                mod = "." * node.level + (node.module or "")
                for a in node.names:
                    self.imports[a.asname or a.name] = f"{mod}:{a.name}"
            elif isinstance(node, ast.Import):
                for a in node.names:
                    self.imports[a.asname or a.name] = a.name


PRIVATE_BASELINE = os.path.join(os.path.dirname(os.path.abspath(__file__)), "private_baseline.json")
_PROTOCOL = ("_latex", "_sympystr", "_eval_", "_print", "_pretty", "_repr")


def private_table(tree) -> dict:
    """{qualified name: [parameter names]} of the private functions of a module: leading underscore (no dunder, no
    sympy protocol hooks) or nested in another function; plus {"Class.@attr": []} for private instance attributes
    assigned through ``self._x = ...``."""
    out = {}

    def visit(node, prefix, in_fn, cls):
        for child in ast.iter_child_nodes(node):
            if isinstance(child, FuncNode):
                q = f"{prefix}{child.name}"
                priv = (child.name.startswith("_") and not child.name.startswith("__")
                        and not child.name.startswith(_PROTOCOL)) or in_fn
                if priv and q not in out:
                    a = child.args
                    out[q] = [x.arg for x in a.posonlyargs + a.args + a.kwonlyargs]
                visit(child, q + ".", True, cls)
            elif isinstance(child, ast.ClassDef):
                visit(child, f"{prefix}{child.name}.", in_fn, f"{prefix}{child.name}")
            else:
                if cls and isinstance(child, ast.Attribute) and isinstance(child.ctx, ast.Store) \
                        and isinstance(child.value, ast.Name) and child.value.id == "self" \
                        and child.attr.startswith("_") and not child.attr.startswith("__"):
                    out.setdefault(f"{cls}.@{child.attr}", [])
                visit(child, prefix, in_fn, cls)
    visit(tree, "", False, None)
    return out


def _strip_self(params):
    return params[1:] if params and params[0] in ("self", "cls") else params


def canonicalise_private_names(modules: dict) -> dict:
    """Undo consistent renamings of private names relative to the recorded baseline (sa/private_baseline.json, the
    private names of the tree the rules were confirmed on).  A private name of the baseline that is missing from a
    module is paired with a private name of the same module that the baseline does not know when the pairing is
    unambiguous: same owner and identical parameter list (functions), or exactly one missing and one new private
    attribute in the class.  The new spelling is then replaced by the recorded one in every syntax tree (definitions,
    calls, attribute accesses, imports), which is behaviour preserving because the renaming is consistent.  Anything
    ambiguous is left alone; a rule that needs the vanished name then fails as analysis error, as before.
    Returns {new spelling: recorded spelling}."""
    import json
    if not os.path.exists(PRIVATE_BASELINE):
        return {}
    with open(PRIVATE_BASELINE) as f:
        base = json.load(f)
    mapping: dict[str, str] = {}
    for name, m in modules.items():
        b = base.get(name)
        if not b:
            continue
        cur = private_table(m.tree)
        missing = [q for q in b if q not in cur]
        new = [q for q in cur if q not in b]
        if not missing or not new:
            continue
        used = set()
        for q in missing:
            owner, _, last = q.rpartition(".")
            if last.startswith("@"):
                cands = [n for n in new if n.rpartition(".")[0] == owner and n.rpartition(".")[2].startswith("@")]
                others = [x for x in missing if x.rpartition(".")[0] == owner and x.rpartition(".")[2].startswith("@")]
                if len(cands) == 1 and len(others) == 1 and cands[0] not in used:
                    used.add(cands[0])
                    mapping[cands[0].rpartition(".")[2][1:]] = last[1:]
                continue
            if any(k.rpartition(".")[2] == last for k in cur):
                continue            # same name somewhere else in the module: moved, resolved by Model.fn
            cands = [n for n in new if not n.rpartition(".")[2].startswith("@") and n not in used
                     and _strip_self(cur[n]) == _strip_self(b[q])]
            same_owner = [n for n in cands if n.rpartition(".")[0] == owner]
            pick = same_owner if len(same_owner) == 1 else cands if len(cands) == 1 and not same_owner else []
            if len(pick) == 1:
                used.add(pick[0])
                mapping[pick[0].rpartition(".")[2]] = last
    # a new spelling that is also a recorded private name elsewhere, or two new spellings for one name, are ambiguous
    recorded = {q.rpartition(".")[2].lstrip("@") for t in base.values() for q in t}
    mapping = {n: o for n, o in mapping.items() if n not in recorded and n != o}
    if not mapping:
        return {}
    for m in modules.values():
        for node in ast.walk(m.tree):
            if isinstance(node, FuncNode) and node.name in mapping:
                node.name = mapping[node.name]
            elif isinstance(node, ast.Name) and node.id in mapping:
                node.id = mapping[node.id]
            elif isinstance(node, ast.Attribute) and node.attr in mapping:
                node.attr = mapping[node.attr]
            elif isinstance(node, ast.alias) and node.name in mapping:
                node.name = mapping[node.name]
    return mapping


class Model:
    PKG = "adcgen"

    def __init__(self, repo: str):
        self.repo = repo
        self.modules: dict[str, ModuleInfo] = {}
        root = os.path.join(repo, self.PKG)
        if not os.path.isdir(root):
            raise AnalysisError(f"package directory {root} not found")
        h = hashlib.sha256()
        for dirpath, dirnames, filenames in sorted(os.walk(root)):
            dirnames[:] = sorted(d for d in dirnames if d != "__pycache__")
            for fn in sorted(filenames):
                if not fn.endswith(".py"):
                    continue
                path = os.path.join(dirpath, fn)
                rel = os.path.relpath(path, root)[:-3].replace(os.sep, ".")
                with open(path, encoding="utf-8") as f:
                    src = f.read()
                h.update(rel.encode() + b"\0" + src.encode() + b"\0")
                try:
                    self.modules[rel] = ModuleInfo(rel, path, src, index=False)
                except SyntaxError as e:
                    raise AnalysisError(f"cannot parse {path}: {e}")
        # private names (leading underscore, nested functions, private attributes) are not public surface: a
        # consistent renaming of one of them is undone before anything is analysed (see canonicalise_private_names)
        self.renamed: dict[str, str] = canonicalise_private_names(self.modules)
        for m in self.modules.values():
            m._index()
        self.digest = h.hexdigest()[:16]
        self.used_modules: set[str] = set()

    # ------------------------------------------------------------------ access
    def module(self, name: str) -> ModuleInfo:
        if name not in self.modules:
            raise AnalysisError(f"module adcgen/{name}.py not found")
        self.used_modules.add(name)
        return self.modules[name]

    def fn(self, ref: str) -> ast.FunctionDef:
        """``module:Qual.name`` -> FunctionDef; missing anchors are fatal."""
        mod, _, q = ref.partition(":")
        m = self.module(mod)
        if q not in m.functions:
            alt = self._moved_private(m, q)
            if alt is None:
                raise AnalysisError(f"anchor function {ref} not found")
            return m.functions[alt]
        return m.functions[q]

    @staticmethod
    def _moved_private(m: ModuleInfo, q: str):
        """A private helper that kept its name but moved (method <-> module level <-> nested): the unique function of
        the module with that last name."""
        last = q.split(".")[-1]
        if not last.startswith("_") or last.startswith("__"):
            return None
        cands = [k for k in m.functions if k.split(".")[-1] == last]
        return cands[0] if len(cands) == 1 else None

    def has_fn(self, ref: str) -> bool:
        mod, _, q = ref.partition(":")
        return mod in self.modules and (q in self.modules[mod].functions or
                                        self._moved_private(self.modules[mod], q) is not None)

    def cls(self, ref: str) -> ast.ClassDef:
        mod, _, q = ref.partition(":")
        m = self.module(mod)
        if q not in m.classes:
            raise AnalysisError(f"anchor class {ref} not found")
        return m.classes[q]

    def all_functions(self) -> Iterator[tuple[str, ast.FunctionDef]]:
        for mname, m in self.modules.items():
            self.used_modules.add(mname)
            for q, f in m.functions.items():
                yield f"{mname}:{q}", f

    def n_functions(self) -> int:
        return sum(len(m.functions) for m in self.modules.values())

    # --------------------------------------------------------------- hierarchy
    def class_bases(self, ref: str) -> list[str]:
        c = self.cls(ref)
        return [U(b) for b in c.bases]

    def subclasses_of(self, mod: str, base: str) -> list[ast.ClassDef]:
        m = self.module(mod)
        out = []
        for c in m.classes.values():
            if any(U(b).split(".")[-1] == base for b in c.bases):
                out.append(c)
        return out


# ----------------------------------------------------------------------------
# small AST helpers shared by the rules


def rel(node) -> str:
    """``adcgen/x.py:line`` of a node."""
    m = getattr(node, "_module", None)
    path = f"adcgen/{m.name.replace('.', '/')}.py" if m else "?"
    return f"{path}:{getattr(node, 'lineno', 0)}"


def fn_of(node) -> str:
    m = getattr(node, "_module", None)
    q = getattr(node, "_qual", None) or getattr(node, "_fn", None)
    return f"{m.name if m else '?'}:{q or '<module>'}"


def walk_fn(fn, nested: bool = True):
    """Walk the body of a function; optionally skip nested function bodies."""
    stack = list(reversed(fn.body))
    while stack:
        n = stack.pop()
        yield n
        if not nested and isinstance(n, FuncNode + (ast.Lambda, ast.ClassDef)):
            continue
        stack.extend(reversed(list(ast.iter_child_nodes(n))))


def calls_in(node, nested: bool = True):
    it = walk_fn(node, nested) if isinstance(node, FuncNode) else ast.walk(node)
    for n in it:
        if isinstance(n, ast.Call):
            yield n


def call_name(call: ast.Call) -> str:
    """Last component of the callee (``a.b.c(...)`` -> ``c``)."""
    if not isinstance(call, ast.Call):
        return ""
    f = call.func
    if isinstance(f, ast.Attribute):
        return f.attr
    if isinstance(f, ast.Name):
        return f.id
    return ""


def call_recv(call: ast.Call):
    f = call.func
    return f.value if isinstance(f, ast.Attribute) else None


def kwarg(call: ast.Call, name: str, pos: int | None = None):
    for k in call.keywords:
        if k.arg == name:
            return k.value
    if pos is not None and len(call.args) > pos and not any(
            isinstance(a, ast.Starred) for a in call.args[:pos + 1]):
        return call.args[pos]
    return None


def names_in(node) -> set[str]:
    return {n.id for n in ast.walk(node) if isinstance(n, ast.Name)}


def stored_names(node) -> set[str]:
    out = set()
    for n in ast.walk(node):
        if isinstance(n, ast.Name) and isinstance(n.ctx, (ast.Store, ast.Del)):
            out.add(n.id)
        elif isinstance(n, ast.AugAssign) and isinstance(n.target, ast.Name):
            out.add(n.target.id)
    return out


def is_const(node, value=...) -> bool:
    if not isinstance(node, ast.Constant):
        return False
    return value is ... or (node.value == value
                            and type(node.value) is type(value))


def neg_const(node):
    """Numeric value of ``-1``/``1`` style literals or None."""
    if isinstance(node, ast.Constant) and isinstance(node.value, (int, float)) \
            and not isinstance(node.value, bool):
        return node.value
    if isinstance(node, ast.UnaryOp) and isinstance(node.op, ast.USub):
        v = neg_const(node.operand)
        return None if v is None else -v
    if isinstance(node, ast.UnaryOp) and isinstance(node.op, ast.UAdd):
        return neg_const(node.operand)
    return None


def parents(node):
    p = getattr(node, "_parent", None)
    while p is not None:
        yield p
        p = getattr(p, "_parent", None)


def enclosing_stmt(node):
    n = node
    while n is not None and not isinstance(n, ast.stmt):
        n = getattr(n, "_parent", None)
    return n


def enclosing(node, types):
    for p in parents(node):
        if isinstance(p, types):
            return p
    return None


def stmt_lists(node):
    """All statement lists directly owned by a compound statement."""
    for field in ("body", "orelse", "finalbody"):
        v = getattr(node, field, None)
        if isinstance(v, list) and v and isinstance(v[0], ast.stmt):
            yield field, v
    if isinstance(node, ast.Try):
        for h in node.handlers:
            yield "handler", h.body
    if isinstance(node, ast.Match):
        for c in node.cases:
            yield "case", c.body


def always_exits(stmts) -> bool:
    """True if the statement list cannot fall through to what follows it."""
    if not stmts:
        return False
    last = stmts[-1]
    if isinstance(last, (ast.Return, ast.Raise, ast.Continue, ast.Break)):
        return True
    if isinstance(last, ast.If):
        return bool(last.orelse) and always_exits(last.body) \
            and always_exits(last.orelse)
    if isinstance(last, ast.With):
        return always_exits(last.body)
    return False


# ----------------------------------------------------------------------------
# A4: single-definition alias table of a function


class Defs:
    """Reaching definitions restricted to names that are bound exactly once in
    the function (nested scopes are kept apart). ``resolve`` rewrites such a
    name into its defining expression; tuple-unpacked names become
    ``<expr>[k]``."""

    def __init__(self, fn):
        self.fn = fn
        self.bind: dict[str, list] = {}
        args = fn.args
        for a in args.posonlyargs + args.args + args.kwonlyargs:
            self.bind.setdefault(a.arg, []).append(("param", a))
        if args.vararg:
            self.bind.setdefault(args.vararg.arg, []).append(("param", None))
        if args.kwarg:
            self.bind.setdefault(args.kwarg.arg, []).append(("param", None))
        for n in walk_fn(fn, nested=False):
            self._stmt(n)

    def _target(self, t, value, kind):
        if isinstance(t, ast.Name):
            self.bind.setdefault(t.id, []).append((kind, value))
        elif isinstance(t, (ast.Tuple, ast.List)):
            for k, e in enumerate(t.elts):
                if isinstance(e, ast.Starred):
                    self._target(e.value, None, "opaque")
                    continue
                sub = None
                if value is not None:
                    sub = ast.Subscript(value=value, slice=ast.Constant(k),
                                        ctx=ast.Load())
                self._target(e, sub, kind)

    def _stmt(self, n):
        if isinstance(n, ast.Assign):
            for t in n.targets:
                self._target(t, n.value, "assign")
        elif isinstance(n, ast.AnnAssign) and n.value is not None:
            self._target(n.target, n.value, "assign")
        elif isinstance(n, ast.AugAssign):
            self._target(n.target, None, "opaque")
        elif isinstance(n, (ast.For, ast.AsyncFor)):
            self._target(n.target, ast.Call(
                func=ast.Name("__elem__", ast.Load()), args=[n.iter],
                keywords=[]), "for")
        elif isinstance(n, ast.comprehension):
            self._target(n.target, ast.Call(
                func=ast.Name("__elem__", ast.Load()), args=[n.iter],
                keywords=[]), "for")
        elif isinstance(n, ast.NamedExpr):
            self._target(n.target, n.value, "assign")
        elif isinstance(n, (ast.With, ast.AsyncWith)):
            for it in n.items:
                if it.optional_vars is not None:
                    self._target(it.optional_vars, None, "opaque")
        elif isinstance(n, ast.ExceptHandler) and n.name:
            self.bind.setdefault(n.name, []).append(("opaque", None))
        elif isinstance(n, FuncNode + (ast.ClassDef,)):
            self.bind.setdefault(n.name, []).append(("def", n))
        elif isinstance(n, (ast.Import, ast.ImportFrom)):
            for a in n.names:
                self.bind.setdefault((a.asname or a.name).split(".")[0],
                                     []).append(("import", None))

    def single(self, name: str, loops: bool = False):
        b = self.bind.get(name)
        kinds = ("assign", "for") if loops else ("assign",)
        if b and len(b) == 1 and b[0][0] in kinds and b[0][1] is not None:
            return b[0][1]
        return None

    def all_defs(self, name: str):
        return self.bind.get(name, [])

    def is_param(self, name: str) -> bool:
        b = self.bind.get(name)
        return bool(b) and all(k == "param" for k, _ in b)

    def resolve(self, node, depth: int = 6, loops: bool = False):
        """Copy of ``node`` with singly-defined local names expanded (loop
        variables become ``__elem__(<iterable>)`` when ``loops``)."""
        defs = self

        class T(ast.NodeTransformer):
            def __init__(self, d):
                self.d = d

            def visit_Name(self, n):
                if isinstance(n.ctx, ast.Load) and self.d > 0:
                    v = defs.single(n.id, loops)
                    if v is not None and n.id not in names_in(v):
                        return T(self.d - 1).visit(_copy(v))
                return n
        return T(depth).visit(_copy(node))


def _copy(node):
    import copy
    return copy.deepcopy(_strip(node))


def _strip(node):
    """deepcopy must not follow parent links."""
    class _S(ast.NodeTransformer):
        def generic_visit(self, n):
            new = type(n)()
            for f, v in ast.iter_fields(n):
                if isinstance(v, list):
                    setattr(new, f, [self.visit(x) if isinstance(x, ast.AST)
                                     else x for x in v])
                elif isinstance(v, ast.AST):
                    setattr(new, f, self.visit(v))
                else:
                    setattr(new, f, v)
            for a in ("lineno", "col_offset", "end_lineno", "end_col_offset"):
                if hasattr(n, a):
                    setattr(new, a, getattr(n, a))
            return new

        def visit(self, n):
            return self.generic_visit(n)
    return _S().visit(node)
