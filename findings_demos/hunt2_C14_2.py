"""derivative() never returns for a squared tensor with 4 indices of one space,
e.g. d/dV of sum_{ijkl} (V^{ij}_{kl})^2  (squared oooo / vvvv block).

Expected: {('oooo', 'nnnn'): 2 V^{ij}_{kl}} within a fraction of a second.
Pristine: Term.symmetry loops over ~28^7 redundant products of permutations.
"""
import signal
import sys
import time
sys.path.insert(0, '.')
from adcgen import Expr  # noqa E402
from adcgen.indices import get_symbols  # noqa E402
from adcgen.sympy_objects import AntiSymmetricTensor  # noqa E402
from adcgen.derivative import derivative  # noqa E402

LIMIT = 120  # seconds


def handler(*args):
    print(f"DEFECT: derivative(V_oooo**2, 'V') did not return within {LIMIT}"
          " s (Term.symmetry enumerates products of permutations of the "
          "doubly listed indices i,i,j,j,k,k,l,l)")
    sys.exit(1)


signal.signal(signal.SIGALRM, handler)
signal.alarm(LIMIT)
i, j, k, l = get_symbols('ijkl')
V = AntiSymmetricTensor('V', (i, j), (k, l))
# the same with exponent 1 is instantaneous
t0 = time.time()
res1 = derivative(Expr(V), 'V')
print("exponent 1:", {k_: str(v) for k_, v in res1.items()},
      f"{time.time() - t0:.2f} s")
t0 = time.time()
res = derivative(Expr(V**2), 'V')
signal.alarm(0)
print("exponent 2:", {k_: str(v) for k_, v in res.items()},
      f"{time.time() - t0:.2f} s")
expected = 2 * V
got = res[('oooo', 'nnnn')].sympy
if (got - expected).expand() != 0:
    print("DEFECT: wrong derivative", got, "expected", expected)
    sys.exit(1)
sys.exit(0)
