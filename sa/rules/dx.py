"""Derivation layer by abstract evaluation (shared by C02-C05).

Every derivation function (ground state, intermediate states, secular matrix,
properties) is evaluated by ``sa.symex`` for concrete small perturbation orders
and spaces with the expensive primitives left uninterpreted (``wicks``, the
wavefunctions, operators, sub-derivations).  The result is the *derivation
skeleton*: a sum of products of vocabulary calls.  The rules below are stated
on that skeleton, not on source text:

  D1  order linearity: in every product the orders of the perturbative factors
      add up to the requested order, and the set of order splits is complete
      (every composition exactly once).
  D2  sandwich: inside every ``wicks(expr)`` the factors are <bra| op |ket> in
      that order, and the rules that come with the operator are the rules passed
      to that ``wicks``.
  D3  restriction lifting: a product that sums over indices generated for the
      space S carries 1/(n_o! n_v!) of that same S (1/sqrt for amplitude sums).

The orders/spaces explored are bounded (listed in the evidence); the functions
are loops over ``gen_term_orders`` whose shape does not depend on the order.
"""
from __future__ import annotations

import itertools
import math
from fractions import Fraction

from ..model import AnalysisError
from ..symex import Symex, Obj
from ..terms import (T, sym, strip, strip_occ, expand_products, product_key, multiset, multiset_diff, subterms, canon, is_num,
                     args_of, show)

GS = "groundstate:GroundState"
IS = "intermediate_states:IntermediateStates"
SM = "secular_matrix:SecularMatrix"
PR = "properties:Properties"
OP = "operators:Operators"

TRANSPARENT_CALLS = ("Expr", "simplify", "sympify", "evaluate_deltas")
TRANSPARENT_MCALLS = ("expand", "substitute_with_generic", "doit")
TRANSPARENT_ATTRS = ("sympy",)

# calls that carry a perturbation order: name -> keyword of the order
ORDER_KW = {"psi": "order", "norm_factor": "order", "energy": "order", "intermediate_state": "order",
            "precursor": "order", "s_root": "order", "overlap_precursor": "order", "overlap": "order",
            "hamiltonian": "order", "isr_matrix_block": "order", "precursor_matrix_block": "order",
            "expectation_value": "order", "mp_amplitude": "order", "amplitude": "order", "overlap_isr": "order",
            "expec_block_contribution": "order"}

INLINE = {"func:gen_term_orders", "indices:n_ov_from_space", f"{IS}._generate_lower_spaces", f"{IS}.validate_space",
          "indices:repeated_indices", "indices:split_idx_string"}


DERIV_MODULES = ("groundstate", "intermediate_states", "secular_matrix", "properties", "operators")
# the vocabulary: derivation methods that stay uninterpreted when another function is evaluated
VOCAB = set(ORDER_KW) | {"amplitude_vector", "operator", "excitation_operator", "h0", "h1", "mvp_block_order",
                         "expectation_value_block_order", "mvp", "trans_moment_space", "expand_S_taylor",
                         "expand_norm_factor", "amplitude_residual", "block_order", "max_ptorder_spaces",
                         "expec_block_contribution", "trans_moment", "expectation_value"}


def inline(q):
    """Helpers are evaluated through; only the vocabulary stays uninterpreted (a helper extracted by a refactoring is
    not vocabulary and is therefore looked into)."""
    if q in INLINE or q.startswith("misc:"):
        return True
    mod, _, qual = q.partition(":")
    return mod in DERIV_MODULES and qual.split(".")[-1] not in VOCAB


class Scenario:
    """Abstract objects shared by the scenarios, rebuilt for every path."""

    def __init__(self, variant="pp", singles=False, gs_variant="mp"):
        self.variant, self.singles, self.gs_variant = variant, singles, gs_variant
        self.generated = {}

    def objects(self):
        mins = {"pp": ["ph", "hp"], "ea": ["p"], "ip": ["h"], "dip": ["hh"], "dea": ["pp"]}
        h = Obj(OP, "h", _variant=self.gs_variant)
        gs = Obj(GS, "gs", h=h, singles=self.singles, indices=Obj("indices:Indices", "gs.indices"))
        isr = Obj(IS, "isr", gs=gs, variant=self.variant, min_space=list(mins[self.variant]),
                  indices=Obj("indices:Indices", "isr.indices"))
        return h, gs, isr

    # model of the index generator: fresh, distinguishable names per call; remembers the space
    def hooks(self):
        def generic_indices_from_space(sx, a, kw):
            sp = a[0] if a else kw.get("space_str")
            if not isinstance(sp, str):
                return NotImplemented
            self.counter += 1
            out = []
            for i, c in enumerate(sorted(sp, key=lambda ch: ch != "h")):
                nm = f"<{sp}#{self.counter}.{i}>"
                o = Obj(None, nm)
                o.attrs.update(name=nm, space="occ" if c == "h" else "virt", spin="")
                out.append(o)
            self.generated["".join(o.attrs["name"] for o in out)] = sp
            return out
        return {"generic_indices_from_space": generic_indices_from_space}

    def reset(self, sx):
        self.counter = 0
        self.generated.clear()


def nothing_vanishes(sx, atom):
    """Oracle: no vocabulary term is zero (only the full path is explored)."""
    return False if _is_zero_atom(atom) else None


def make_sx(ctx, what, scen, extra_inline=(), hooks=None, **kw):
    hk = scen.hooks()
    hk.update(hooks or {})
    kw.setdefault("occurrence", lambda name: name in ORDER_KW)
    sx = Symex(ctx.model, inline=lambda q: inline(q) or q in extra_inline, hooks=hk, what=what, **kw)
    sx.on_start = scen.reset
    return sx


def val(o):
    """Value of an outcome without the call-event tags."""
    return strip_occ(o.value)


def skeleton(value):
    """Value-preserving wrappers and call-event tags removed, products distributed."""
    v = strip(strip_occ(value), TRANSPARENT_CALLS, TRANSPARENT_MCALLS, TRANSPARENT_ATTRS)
    return expand_products(v)


def aliased_factors(value):
    """Products in which one call result (one set of summation indices) is used as a factor twice."""
    v = strip(value, TRANSPARENT_CALLS, TRANSPARENT_MCALLS, TRANSPARENT_ATTRS)
    bad = []
    for c, fs in expand_products(v):
        seen = {}
        stack = list(fs)
        while stack:
            f = stack.pop()
            if isinstance(f, T) and f.op == "occ":
                seen[f] = seen.get(f, 0) + 1
            elif isinstance(f, T) and f.op == "call" and f.args[0] == "wicks":
                e = args_of(f).get("expr")
                for _, gs in expand_products(e):
                    stack.extend(gs)
            elif isinstance(f, T) and f.op in ("item", "attr", "pow"):
                stack.append(f.args[0])
            elif isinstance(f, T) and f.op == "call" and f.args[0] in ("NO", "Dagger"):
                stack.extend(x for x in f.args[1])
        for f, n in seen.items():
            if n > 1:
                bad.append((f, n))
    return bad


def is_scalar(f):
    """Factors that commute with everything (numbers, norm factors, energies, prefactor terms)."""
    if is_num(f):
        return True
    if isinstance(f, T):
        if f.op == "mcall" and f.args[1] in ("norm_factor", "energy", "overlap"):
            return True
        if f.op == "call" and f.args[0] in ("wicks", "Rational", "sqrt", "factorial"):
            return True
        if f.op == "pow":
            return is_scalar(f.args[0])
    return False


def keys(prods):
    return multiset(product_key(c, fs, is_scalar) for c, fs in prods)


def zero_tests(o):
    """Terms X that the path decided to be zero (``X is S.Zero`` / ``X == 0`` true)."""
    out = []
    for a, pol in o.path:
        if a.op == "cmp" and a.args[0] in ("is", "==") and pol:
            l, r = a.args[1], a.args[2]
            for x, y in ((l, r), (r, l)):
                if (y == 0 or (isinstance(y, T) and y.op == "sym" and str(y.args[0]).endswith("Zero"))) and isinstance(x, T):
                    out.append(x)
    return out


def nonzero_outcome(outs, what):
    """The path on which no vocabulary term was decided to vanish."""
    cands = [o for o in outs if o.kind == "return" and not zero_tests(o) and
             all(not pol or not _is_zero_atom(a) for a, pol in o.path)]
    if not cands:
        raise AnalysisError(f"DX({what}): no path without vanishing factors among {len(outs)} outcomes")
    return cands


def _is_zero_atom(a):
    return a.op == "cmp" and a.args[0] in ("is", "==") and any(
        y == 0 or (isinstance(y, T) and y.op == "sym" and str(y.args[0]).endswith("Zero")) for y in a.args[1:])


def contains(t, x):
    return any(s == x for s in subterms(t))


def order_of(f):
    """Sum of the perturbation orders carried by the vocabulary calls inside a factor (None if none)."""
    tot, seen = 0, False
    stack = [f]
    while stack:
        x = stack.pop()
        if isinstance(x, T):
            name = x.args[1] if x.op == "mcall" else x.args[0] if x.op == "call" else None
            if name == "wicks":
                stack.append(args_of(x).get("expr", args_of(x).get(0)))
                continue
            if name in ORDER_KW:
                o = args_of(x).get(ORDER_KW[name], args_of(x).get(0))
                if not isinstance(o, int):
                    raise AnalysisError(f"DX: symbolic order in {show(x)}")
                tot += o
                seen = True
                continue
            stack.extend(x.args)
        elif isinstance(x, (tuple, list, frozenset)):
            stack.extend(x)
    return tot if seen else None


def d1_orders(ctx, rule, fn, what, prods, order, key):
    bad = []
    for c, fs in prods:
        os_ = [order_of(f) for f in fs]
        tot = sum(o for o in os_ if o is not None)
        if tot != order:
            bad.append((tot, product_key(c, fs, is_scalar)))
    ctx.check(rule, fn, not bad, f"{what}: the orders of the factors of each of the {len(prods)} products add up to {order}",
              f"{what}: product with factor orders summing to {bad[0][0] if bad else '?'} instead of {order}: "
              f"{bad[0][1][:300] if bad else ''}", key=key)
    return not bad


def compare(ctx, rule, fn, what, got, want, key):
    missing, surplus = multiset_diff(got, want)
    ok = not missing and not surplus
    msg = ""
    if not ok:
        msg = f"{what}: skeleton differs from the formula; missing {len(missing)} products, surplus {len(surplus)}"
        if missing:
            msg += f"; first missing: {missing[0][:400]}"
        if surplus:
            msg += f"; first surplus: {surplus[0][:400]}"
    ctx.check(rule, fn, ok, f"{what}: {sum(want.values())} products equal the formula", msg, key=key)
    return ok


def compositions(n, k, lo=0):
    return [c for c in itertools.product(range(lo, n + 1), repeat=k) if sum(c) == n]


def lift(space, root=False):
    no, nv = space.count("h"), space.count("p")
    f = Fraction(1, math.factorial(no) * math.factorial(nv))
    return f


# ------------------------------------------------------------------ model of the few sympy calls of the Taylor builders

def taylor_hooks():
    """``symbols``, ``diff``, ``.subs`` and ``nsimplify`` on functions c * (1 + x) ** p (exact rational calculus)."""
    from ..terms import t_pow, t_mul, factors

    def split(f):
        c, base, p = 1, None, None
        for x in factors(f):
            if is_num(x):
                c = c * x
            elif isinstance(x, T) and x.op == "pow" and is_num(x.args[1]):
                base, p = x.args[0], Fraction(x.args[1])
            elif isinstance(x, T) and x.op == "add":
                base, p = x, Fraction(1)
            else:
                return None
        return c, base, p

    def symbols(sx, a, kw):
        return sym(str(a[0]))

    def diff(sx, a, kw):
        # sympy.diff(f, x), diff(f, x, n), diff(f, x, x, ...), diff(f, (x, n)): the number of derivatives is counted
        if kw or len(a) < 2:
            return NotImplemented
        n = 0
        for extra in a[1:]:
            if isinstance(extra, int) and not isinstance(extra, bool) and extra >= 0 and n > 0:
                n += extra - 1
            elif isinstance(extra, (tuple, list)) and len(extra) == 2 and isinstance(extra[1], int) and extra[1] >= 0:
                n += extra[1]
            elif isinstance(extra, T) and extra.op == "sym":
                n += 1
            else:
                return NotImplemented
        f = a[0]
        for _ in range(n):
            s = split(f)
            if s is None or s[1] is None:
                return NotImplemented
            c, base, p = s
            f = t_mul(c * p, t_pow(base, p - 1))
        return f

    def subs(sx, a, kw):
        if kw or len(a) != 3:
            return NotImplemented           # not the Taylor calculus: left to the evaluator (uninterpreted)
        recv, var, val = a[0], a[1], a[2]
        s = split(recv)
        if s is None or val != 0:
            return NotImplemented
        c, base, p = s
        return c

    def nsimplify(sx, a, kw):
        v = a[0]
        if is_num(v):
            v = Fraction(v)
            return int(v) if v.denominator == 1 else v
        return NotImplemented
    return {"symbols": symbols, "diff": diff, "subs": subs, "nsimplify": nsimplify}


def taylor_coefficient(p, k):
    """k-th Taylor coefficient of (1 + x) ** p."""
    c = Fraction(1)
    for i in range(k):
        c = c * (Fraction(p) - i)
    return c / math.factorial(k)


# ------------------------------------------------------------------ formula comparison on all paths

def _variants(prods):
    full = multiset(product_key(c, fs, is_scalar) for c, fs in prods)
    nocoef = multiset(product_key(1, fs, is_scalar) for c, fs in prods)
    comm = multiset(product_key(1, fs, lambda f: True) for c, fs in prods)
    return full, nocoef, comm


def has_factor(prod_term, z):
    """z is a factor of the product term (also inside the operator string of a wicks call)."""
    for c, fs in expand_products(prod_term):
        for f in fs:
            if f == z:
                return True
            if isinstance(f, T) and f.op == "call" and f.args[0] == "wicks":
                e = args_of(f).get("expr")
                if any(g == z for _, gs in expand_products(e) for g in gs):
                    return True
    return False


def check_formula(ctx, rule, fn, what, outs, formula, key, only_full=False, min_paths=1):
    """``formula``: list of expected product terms.  On every returning path the evaluated skeleton must equal the
    formula without the products that contain a factor the path decided to vanish."""
    rets = [o for o in outs if o.kind == "return"]
    if len(rets) < min_paths:
        excs = sorted({str(o.exc) for o in outs if o.kind == "raise"})
        ctx.bad(rule, fn, f"{what}: valid input does not return ({len(rets)} returning paths; raises {excs})", key=f"{key} returns")
        return 0
    n_ok = 0
    for o in rets:
        zeros = zero_tests(o)
        if zeros and only_full:
            continue
        zeros = [strip_occ(z) for z in zeros]
        al = aliased_factors(o.value)
        ctx.check("D4", fn, not al, f"{what}: every factor of a product stems from its own call (own summation indices)",
                  f"{what}: the result of one call {show(al[0][0])[:160] if al else ''} is used {al[0][1] if al else 0} times as a factor of the same "
                  "product: its summation indices are shared between the factors", key=f"{key} fresh")
        want_terms = [p for p in formula if not any(has_factor(p, z) for z in zeros)]
        want = sum((expand_products(p) for p in want_terms), [])
        got = skeleton(o.value)
        wf, wn, wc = _variants(want)
        gf, gn, gc = _variants(got)
        tag = "full" if not zeros else "zero " + ",".join(sorted(show(z)[:60] for z in zeros))
        if gf == wf:
            ctx.ok(rule, fn, f"{what} [{tag}]: {len(want)} products equal the formula", key=f"{key} {tag}")
            n_ok += 1
            continue
        if gn == wn:
            r = "D3"
            why = "the products agree but their numerical prefactors differ"
        elif gc == wc:
            r = "D2"
            why = "the products agree up to the order of non-commuting factors (<bra| op |ket> order)"
        else:
            go = multiset(tuple(sorted(o_ for o_ in (order_of(f) for f in fs) if o_ is not None)) for c, fs in got)
            wo = multiset(tuple(sorted(o_ for o_ in (order_of(f) for f in fs) if o_ is not None)) for c, fs in want)
            r = "D1" if go != wo else rule
            why = "the order splits differ" if go != wo else "different products"
        missing, surplus = multiset_diff(gf, wf)
        msg = f"{what} [{tag}]: skeleton differs from the formula ({why}); missing {len(missing)}, surplus {len(surplus)}"
        if missing:
            msg += f"; first missing: {missing[0][:500]}"
        if surplus:
            msg += f"; first surplus: {surplus[0][:500]}"
        ctx.bad(r, fn, msg, key=f"{key} {tag}")
    return n_ok


def all_raise(ctx, rule, fn, what, outs, key):
    ctx.check(rule, fn, bool(outs) and all(o.kind == "raise" for o in outs), f"{what}: refused",
              f"{what}: accepted ({[o for o in outs if o.kind != 'raise'][:1]})", key=key)


def orders(ctx, quick, extra=()):
    """Orders evaluated in the quick tier, plus ``extra`` in the thorough tier."""
    return tuple(quick) + (tuple(extra) if getattr(ctx, "tier", "quick") == "thorough" else ())
