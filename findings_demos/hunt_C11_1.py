"""
C11 / defect 1: factor_intermediates replaces a 'diagonal' partial sum by the
full intermediate.

    sum_{k,c} V^{jk}_{ac} V^{kb}_{kc} / (e_a + e_c - e_j - e_k)      (target j,a,b)

is not the intermediate t2eri_4 (= sum_{k,c} t^{ac}_{jk} <kb||ic>, target
i,j,a,b): the contracted index k of the intermediate coincides with its target
index i. factor_intermediates nevertheless returns  sum_i t2eri4_{ijab}.

The check is a brute force evaluation (exact rationals, 2 occupied and
2 virtual orbitals, random antisymmetric + bra-ket symmetric ERI) of the input
and of the factored result after expanding the intermediates again.
Run from the worktree root: /venv/bin/python hunt_out/1/demo.py
"""
import os
import sys
import itertools
import hashlib
from fractions import Fraction
sys.path.insert(0, os.getcwd())
os.environ.setdefault("ADCGEN_LOG_LEVEL", "ERROR")

from sympy import Add, Mul, Pow, Rational  # noqa E402
from adcgen.expr_container import Expr  # noqa E402
from adcgen.indices import Index, get_symbols  # noqa E402
from adcgen.sympy_objects import (  # noqa E402
    AntiSymmetricTensor, NonSymmetricTensor, Amplitude
)
from adcgen.intermediates import eri, orb_energy  # noqa E402
from adcgen.factor_intermediates import factor_intermediates  # noqa E402

NO, NV = 2, 2


def rnd(*key):
    h = hashlib.sha256(repr(key).encode()).digest()
    return Fraction(h[0] % 17 - 8 or 3, h[1] % 5 + 1)


def sort_sign(t):
    t, sign = list(t), 1
    for i in range(len(t)):
        for j in range(len(t) - 1 - i):
            if t[j] > t[j + 1]:
                t[j], t[j + 1], sign = t[j + 1], t[j], -sign
    if any(x == y for x, y in zip(t, t[1:])):
        return tuple(t), 0
    return tuple(t), sign


def tensor(t, val):
    if isinstance(t, NonSymmetricTensor):
        idx = tuple(val[s] for s in t.idx)
        if t.name == "e":  # orbital energies: occ < 0 < virt
            p = idx[0]
            return rnd("e", p) / 100 + (-1 - p if p < NO else 1 + p)
        return rnd(t.name, idx)
    up, s1 = sort_sign(val[s] for s in t.upper)
    lo, s2 = sort_sign(val[s] for s in t.lower)
    if s1 * s2 == 0:
        return Fraction(0)
    if t.name == "V" and lo < up:  # real orbitals: <pq||rs> = <rs||pq>
        up, lo = lo, up
    return s1 * s2 * rnd(t.name, up, lo)


def value(x, val):
    if x.is_Rational:
        return Fraction(int(x.p), int(x.q))
    if isinstance(x, (AntiSymmetricTensor, NonSymmetricTensor)):
        return tensor(x, val)
    if isinstance(x, Pow):
        return value(x.base, val) ** int(x.exp)
    if isinstance(x, Mul):
        res = Fraction(1)
        for arg in x.args:
            res *= value(arg, val)
        return res
    if isinstance(x, Add):
        return sum(value(arg, val) for arg in x.args)
    raise TypeError(f"{x}: {type(x)}")


def rng(s):
    return range(NO) if s.space == "occ" else range(NO, NO + NV)


def evaluate(expr, target):
    """value of the expression for all values of the target indices; all
       other indices of a term are summed."""
    res = {}
    terms = Add.make_args(expr.expand())
    for tv in itertools.product(*[rng(s) for s in target]):
        tot = Fraction(0)
        for term in terms:
            contracted = sorted((s for s in term.atoms(Index)
                                 if s not in target), key=lambda s: s.name)
            for cv in itertools.product(*[rng(s) for s in contracted]):
                val = dict(zip(target, tv))
                val.update(zip(contracted, cv))
                tot += value(term, val)
        res[tv] = tot
    return res


def check(label, sympy_expr, target, itmds):
    target = get_symbols(target)
    expr = Expr(sympy_expr, real=True, target_idx=target)
    factored = factor_intermediates(expr.copy(), itmds)
    back = factored.copy().expand_intermediates()
    # t-amplitudes in the input take the value of their definition as well
    ref = evaluate(expr.copy().expand_intermediates().sympy, target)
    res = evaluate(back.sympy, target)
    bad = [k for k in ref if ref[k] != res[k]]
    print(f"{label}\n  input   : {expr}\n  factored: {factored}")
    if bad:
        k = bad[0]
        print(f"  MISMATCH for {len(bad)} of {len(ref)} target index values,"
              f" e.g. {dict(zip(target, k))}: input {ref[k]} != "
              f"factored+expanded {res[k]}")
    else:
        print("  values agree")
    return not bad


i, j, k, l, a, b, c = get_symbols("ijklabc")
ok = True
# sum_kc t^{ac}_{jk} <kb||kc>: k is 'i' and 'k' of t2eri_4 at the same time
denom = orb_energy(a) + orb_energy(c) - orb_energy(j) - orb_energy(k)
ok &= check("t2eri_4 (short intermediate), fully expanded input",
            eri((j, k, a, c)) * eri((k, b, k, c)) / denom, "jab",
            ["t2eri_4"])
ok &= check("t2eri_4 (short intermediate), t2_1 already factored",
            Amplitude("t1", (a, c), (j, k)) * eri((k, b, k, c)), "jab",
            ["t2_1", "t2eri_4"])
# sum_kl <ik||kl> t^{ab}_{kl}: k is 'j' and 'k' of t2eri_3
ok &= check("t2eri_3 (short intermediate)",
            Amplitude("t1", (a, b), (k, l)) * eri((i, k, k, l)), "iab",
            ["t2_1", "t2eri_3"])
# long intermediate t1_2 (summed over its indices), where the first term of
# the definition (1/2 sum_jbc t^{bc}_{ij} <ja||bc>) is restricted to the
# 'diagonal' c = a:
#   sum_ia [1/2 sum_jb t^{ab}_{ij} <ja||ab> + 1/2 sum_jkb t^{ab}_{jk} <jk||ib>]
#          / (e_i - e_a)
t1_2_like = (
    Rational(1, 2) * Amplitude("t1", (a, b), (i, j)) * eri((j, a, a, b))
    + Rational(1, 2) * Amplitude("t1", (a, b), (j, k)) * eri((j, k, i, b))
) / (orb_energy(i) - orb_energy(a))
ok &= check("t1_2 (long intermediate)", t1_2_like.expand(), "",
            ["t2_1", "t1_2"])
sys.exit(0 if ok else 1)
