"""C03 secular matrix (structural clauses)."""
from __future__ import annotations

import ast

from ..abseval import Interp, Rec
from ..model import AnalysisError, U, Defs, calls_in, call_name, walk_fn, kwarg, enclosing
from ..pathcond import conditions
from . import common, deriv
from . import c04

EXPLANATION = (
    "D1/D2 on secular_matrix.py and on the intermediate-state construction it is built from "
    "(order linearity; <bra| H |ket> order; operator rules passed to wicks). D3: MVP prefactors "
    "1/sqrt(n_o! n_v!) for the result space and for the summed ket space block[1] whose generic "
    "indices are summed; lower-space projector and intermediate-state sums in "
    "intermediate_states.py. D5: SecularMatrix.hamiltonian dispatch (0 -> h0, 1 -> h1, else zero "
    "operator with empty rules; shift by E(order) of the same order). R03a: MVP assembly (matrix "
    "block on (result, summed) indices, right amplitude vector on the summed indices, both "
    "square-root factors, delta evaluation, block selection by bra space and order). R03b: "
    "ADC(n) truncation tables max_ptorder_spaces/block_order evaluated for n <= 6 and the five "
    "variants against order(mu,nu) = n - (mu-1) - (nu-1). R04a/R04b/R04c/R02c: index chaining of "
    "S^(-1/2), lower-space generator, projector structure and Taylor coefficients of the "
    "intermediate states and norm factors every block is built from.")
ASSUMPTIONS = [
    "equality with <I|H-E0|J> over explicitly built states is not decided",
    "R03b is evaluated for adc orders 0..6 only (bounded, not exhaustive)",
]

SM = "secular_matrix:SecularMatrix."


def d3(ctx):
    rule = "D3"
    prefs = deriv.d3_space_sites(ctx, rule, SM + "mvp_block_order", 1)
    spaces = sorted(sp for sp, _ in prefs)
    fn = ctx.model.fn(SM + "mvp_block_order")
    ctx.check(rule, fn, spaces == ["block[1]", "space"], "two square-root factors: result space and summed ket space",
              f"MVP prefactors are computed for spaces {spaces}", key="mvp prefactor spaces")
    kinds = sorted(k for _, k, _ in deriv._lifting_prefactors(fn, Defs(fn)))
    ctx.check(rule, fn, kinds == ["sqrt", "sqrt"], "amplitude-vector sums use 1/sqrt(n_o! n_v!)",
              f"MVP prefactor kinds are {kinds}", key="mvp prefactor kind")
    # lower layers the matrix is built from
    c04.d3(ctx)


def r03a(ctx):
    rule = "R03a"
    fn = ctx.model.fn(SM + "mvp_block_order")
    defs = Defs(fn)
    ret = common.returns_of(fn)[-1]
    v = ret.value
    ok = isinstance(v, ast.Call) and call_name(v) == "evaluate_deltas"
    inner = v.args[0] if ok else v
    if isinstance(inner, ast.Call) and call_name(inner) == "expand":
        inner = inner.func.value
    fs = sorted(U(f) for f in deriv.flatten_mult(inner))
    ctx.check(rule, ret, ok and fs == ["m", "prefactor_ampl", "prefactor_mvp", "y"],
              "r = p_r * p_Y * M * Y with deltas evaluated", f"MVP returns `{U(v)[:90]}`", key="mvp product")
    m = [a for a in common.assigns_to(fn, "m")]
    ok = len(m) == 1 and call_name(m[0].value) == "isr_matrix_block" and U(kwarg(m[0].value, "order", 0)) == "order" \
        and U(kwarg(m[0].value, "block", 1)) == "block" and U(kwarg(m[0].value, "indices", 2)) == "(indices, idx)" \
        and U(kwarg(m[0].value, "subtract_gs", 3)) == "subtract_gs"
    ctx.check(rule, fn, ok, "matrix block M_{I,J} on (result indices, summed indices)", "matrix block arguments changed",
              key="mvp matrix args")
    y = [a for a in common.assigns_to(fn, "y")]
    ok = len(y) == 1 and call_name(y[0].value) == "amplitude_vector" and U(kwarg(y[0].value, "indices", 0)) == "idx" \
        and U(kwarg(y[0].value, "lr", 1)) == "'right'"
    ctx.check(rule, fn, ok, "right amplitude vector on the summed (ket) indices", "amplitude vector arguments changed", key="mvp vector")
    g = [a for a in common.assigns_to(fn, "idx")]
    ok = len(g) == 1 and "generic_indices_from_space(block[1])" in U(g[0].value)
    ctx.check(rule, fn, ok, "summed indices generated for the ket space block[1]", "summed indices are not generated from block[1]",
              key="mvp ket indices")
    r = [n for n in walk_fn(fn) if isinstance(n, ast.Raise) and ("space == block[0]", False) in conditions(n)]
    ctx.check(rule, fn, bool(r), "result space must equal the bra space", "space/bra-space consistency check removed", key="mvp space guard")
    # mvp: block selection
    mv = ctx.model.fn(SM + "mvp")
    conts = [n for n in walk_fn(mv) if isinstance(n, ast.Continue)]
    ok = len(conts) == 1 and U(conts[0]._parent.test) == "space != block[0] or (order is not None and max_order < order)"
    ctx.check(rule, mv, ok, "blocks skipped iff other bra space or not expanded through the order",
              f"block selection is `{U(conts[0]._parent.test) if conts else None}`", key="mvp selection")
    calls = [c for c in calls_in(mv) if call_name(c) == "mvp_block_order"]
    ctx.floor(rule, "mvp_block_order calls in mvp", len(calls), 2)
    for c in calls:
        cs = conditions(c)
        o = U(kwarg(c, "order", 0))
        if ("order is None", True) in cs:
            lp = enclosing(c, ast.For)
            ok = o == U(lp.target) and U(lp.iter).replace(" ", "") == "range(max_order+1)"
        else:
            ok = o == "order"
        ok = ok and U(kwarg(c, "space", 1)) == "space" and U(kwarg(c, "block", 2)) == "block" \
            and U(kwarg(c, "indices", 3)) == "indices" and U(kwarg(c, "subtract_gs", 4)) == "subtract_gs"
        ctx.check(rule, c, ok, "block contribution requested with forwarded arguments", f"`{U(c)[:90]}`", key=f"mvp call {o}")
        st = c._parent
        ctx.check(rule, c, isinstance(st, ast.AugAssign) and isinstance(st.op, ast.Add), "contribution added",
                  "block contribution is not added", key=f"mvp add {o}")
    # matrix blocks: accumulation
    for meth, state in (("precursor_matrix_block", "precursor"), ("isr_matrix_block", "intermediate_state")):
        f = ctx.model.fn(SM + meth)
        adds = [n for n in walk_fn(f) if isinstance(n, ast.AugAssign) and U(n.target) == "res"]
        ctx.check(rule, f, len(adds) == 1 and isinstance(adds[0].op, ast.Add) and U(adds[0].value) == "(norm * matrix).expand()",
                  f"{meth}: norm * matrix added", f"{meth}: accumulation changed", key=f"{meth} add")
        inner = [n for n in walk_fn(f) if isinstance(n, ast.AugAssign) and U(n.target) == "matrix"]
        ctx.check(rule, f, len(inner) == 1 and isinstance(inner[0].op, ast.Add) and U(inner[0].value) == "itmd",
                  f"{meth}: each order split added once", f"{meth}: inner accumulation changed", key=f"{meth} inner")
        for c in calls_in(f):
            if call_name(c) == state:
                bk = kwarg(c, "braket", 2).value
                ok = U(kwarg(c, "space", 1)) == f"{bk}_space" and U(kwarg(c, "indices", 3)) == f"{bk}_idx"
                ctx.check(rule, c, ok, f"{meth}: {bk} state from the {bk} space/indices", f"`{U(c)[:90]}`", key=f"{meth} {bk} args")
        un = [n for n in walk_fn(f) if isinstance(n, ast.Assign) and U(n.targets[0]) in ("(bra_space, ket_space)", "(bra_idx, ket_idx)")]
        got = {U(n.targets[0]): U(n.value) for n in un}
        ctx.check(rule, f, got == {"(bra_space, ket_space)": "block", "(bra_idx, ket_idx)": "indices"},
                  f"{meth}: bra/ket from block and indices in order", f"{meth}: unpacking is {got}", key=f"{meth} unpack")
        h = [c for c in calls_in(f) if call_name(c) == "hamiltonian"]
        ok = len(h) == 1 and U(h[0].args[1] if len(h[0].args) > 1 else kwarg(h[0], "subtract_gs")) == "subtract_gs"
        ctx.check(rule, f, ok, f"{meth}: shift flag forwarded", f"{meth}: subtract_gs not forwarded", key=f"{meth} shift flag")


def r03b(ctx):
    rule = "R03b"
    mp = ctx.model.fn(SM + "max_ptorder_spaces")
    bo = ctx.model.fn(SM + "block_order")
    mins = {"pp": "ph", "ip": "h", "ea": "p", "dip": "hh", "dea": "pp"}
    import itertools

    def product(i, node, a, kw):
        return list(itertools.product(*a))
    for var, ms in mins.items():
        for n in range(0, 7):
            isr = Rec("isr", min_space=[ms])
            me = Rec("self", isr=isr)
            kind, val = Interp({}, what="max_ptorder_spaces").call(mp, {"self": me, "order": n})
            want = {"p" * i + ms + "h" * i: n - i for i in range(0, n // 2 + 1)}
            ctx.check(rule, mp, kind == "return" and val == want, f"{var}-ADC({n}): classes {want}",
                      f"{var}-ADC({n}): max_ptorder_spaces gives {val}, expected {want}", key=f"spaces {var} {n}")

            def mps(i, node, a, kw, me=me):
                k, v = Interp({}, what="max_ptorder_spaces").call(mp, {"self": me, "order": a[0]})
                return v
            me2 = Rec("self", isr=isr, max_ptorder_spaces=mps)
            kind, val = Interp({"product": product}, what="block_order").call(bo, {"self": me2, "order": n})
            cls = {s: i for i, s in enumerate(want)}
            wantb = {(a, b): n - cls[a] - cls[b] for a in want for b in want}
            ctx.check(rule, bo, kind == "return" and val == wantb, f"{var}-ADC({n}): block orders n-(mu-1)-(nu-1)",
                      f"{var}-ADC({n}): block_order gives {val}, expected {wantb}", key=f"blocks {var} {n}")


def run(ctx):
    if ctx.want("D1"):
        deriv.d1(ctx, "D1", "secular_matrix", 4)
        deriv.d1(ctx, "D1", "intermediate_states", 9)
    if ctx.want("D2"):
        deriv.d2(ctx, "D2", "secular_matrix", 2)
        deriv.d2(ctx, "D2", "intermediate_states", 6)
    if ctx.want("D3"):
        d3(ctx)
    if ctx.want("D5"):
        deriv.d5_hamiltonian(ctx, "D5")
    if ctx.want("R03a"):
        r03a(ctx)
    if ctx.want("R03b"):
        r03b(ctx)
    if ctx.want("R04c"):
        c04.r04c(ctx)
    # S^(-1/2) and the norm factor enter every matrix block
    if ctx.want("R04a"):
        c04.r04a(ctx)
    if ctx.want("R04b"):
        c04.r04b(ctx)
    if ctx.want("R02c"):
        from . import c02
        c02.r02c(ctx)
        c02.taylor_builder(ctx, "R02c", c04.IS + "expand_S_taylor", "-0.5")
    # ground-state layer (wavefunctions, norm factors) every expression is built from
    from . import c02
    if ctx.want("D1"):
        deriv.d1(ctx, "D1", "groundstate", 6)
    if ctx.want("D2"):
        deriv.d2(ctx, "D2", "groundstate", 6)
    if ctx.want("D3"):
        c02.d3_psi(ctx)
        c02.d3_operator(ctx)
    if ctx.want("R02a"):
        c02.r02a(ctx)
