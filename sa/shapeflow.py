"""Provenance of values by abstract interpretation over a small shape lattice.

The question "is the value that reaches this call the result of that producer?" is
decided by *evaluating* the functions over shapes instead of matching source text
or local names:

    BOT < { Const(c), Mark(tag), Seq(elem), Tup(items), Map(val), Fn, Param, ... } < TOP

``Mark(tag)`` is the result of a call of a *source* function (e.g. the ordered
substitution list built by ``order_substitutions``); containers carry the join of
what is stored in them (weak updates, unified on join), names are bound flow
sensitively, branches are joined, loops are iterated to a fixpoint, calls of
repository functions are evaluated through with the shapes of the actual arguments
(constant arguments decide constant tests, so ``f(only_build_sub=True)`` follows the
path of that flag), nested functions/lambdas/comprehensions/unpacking/walrus/
keyword-vs-positional spelling/temporaries all disappear in the shapes.  ``None``
joins as the neutral element (an optional value has the shape of the value).

The evaluation is an over-approximation: whenever it cannot follow something the
shape is TOP, which a rule has to treat as "not established".
Nothing of the analysed repository is imported or executed.
"""
from __future__ import annotations

import ast

from .model import FuncNode, AnalysisError, U


class V:
    __slots__ = ()


class _Top(V):
    def __repr__(self):
        return "TOP"


class _Bot(V):
    def __repr__(self):
        return "BOT"


TOP, BOT = _Top(), _Bot()


class Const(V):
    __slots__ = ("value",)

    def __init__(self, value):
        self.value = value

    def __repr__(self):
        return f"Const({self.value!r})"


NONE = Const(None)


class Mark(V):
    """Result of a source call; ``dirty`` once it was mutated in place."""
    __slots__ = ("tag", "dirty")

    def __init__(self, tag):
        self.tag, self.dirty = tag, False

    def __repr__(self):
        return f"{self.tag}{'(mutated)' if self.dirty else ''}"


class _Cell(V):
    __slots__ = ("x", "fwd")

    def find(self):
        c = self
        while c.fwd is not None:
            c = c.fwd
        return c


class Seq(_Cell):
    """list / set / tuple of unknown length / iterator: shape of the elements."""

    def __init__(self, elem=BOT):
        self.x, self.fwd = elem, None

    @property
    def elem(self):
        return self.find().x

    def add(self, v, depth=0):
        c = self.find()
        c.x = join(c.x, v, depth + 1)

    def __repr__(self):
        return f"Seq({_r(self.elem)})"


class Map(_Cell):
    """dict: shape of the values; values stored under constant keys are kept apart (record-like dicts)."""

    def __init__(self, val=BOT):
        self.x, self.fwd, self.fields = val, None, {}

    @property
    def val(self):
        c = self.find()
        return _joinall([c.x] + list(c.fields.values()))

    def add(self, v, depth=0, key=None):
        c = self.find()
        if isinstance(key, Const) and isinstance(key.value, (str, int, bool, type(None))):
            k = (type(key.value).__name__, key.value)
            c.fields[k] = join(c.fields.get(k, BOT), v, depth + 1)
        else:
            c.x = join(c.x, v, depth + 1)

    def at(self, key):
        """shape of ``d[key]``"""
        c = self.find()
        if isinstance(key, Const) and isinstance(key.value, (str, int, bool, type(None))):
            k = (type(key.value).__name__, key.value)
            return join(c.fields.get(k, BOT), c.x)
        return self.val

    def merge(self, other, depth=0):
        """everything stored in ``other`` is stored here as well"""
        c, o = self.find(), other.find()
        if c is o:
            return
        c.x = join(c.x, o.x, depth + 1)
        for k, v in list(o.fields.items()):
            c.fields[k] = join(c.fields.get(k, BOT), v, depth + 1)

    def __repr__(self):
        c = self.find()
        f = ", ".join(f"{k[1]!r}: {_r(v)}" for k, v in c.fields.items())
        return f"Map({_r(c.x)}{'; ' + f if f else ''})"


class Tup(V):
    __slots__ = ("items",)

    def __init__(self, items):
        self.items = tuple(items)

    def __repr__(self):
        return "Tup(" + ", ".join(_r(x) for x in self.items) + ")"


class Fn(V):
    __slots__ = ("node", "envs", "module", "bound", "clsq")

    def __init__(self, node, envs, module, bound=None, clsq=None):
        self.node, self.envs, self.module, self.bound, self.clsq = node, envs, module, bound, clsq

    def __repr__(self):
        return f"Fn({getattr(self.node, 'name', 'lambda')})"


class Param(V):
    """A parameter of the function that is being summarised at its entry (behaves like TOP, keeps its identity)."""
    __slots__ = ("fn", "name", "kind")

    def __init__(self, fn, name, kind="pos"):
        self.fn, self.name, self.kind = fn, name, kind

    def __repr__(self):
        return f"Param({self.name})"


class Inst(V):
    """Instance of a repository class: ``self`` of a method (attributes unknown) or an object built by an evaluated
    constructor call (``attrs``: Map of what was stored in its attributes)."""
    __slots__ = ("module", "clsq", "attrs")

    def __init__(self, module, clsq, attrs=None):
        self.module, self.clsq, self.attrs = module, clsq, attrs

    def __repr__(self):
        return f"Inst({self.clsq}{', ' + _r(self.attrs) if self.attrs is not None else ''})"


class Cls(V):
    __slots__ = ("module", "clsq")

    def __init__(self, module, clsq):
        self.module, self.clsq = module, clsq

    def __repr__(self):
        return f"Cls({self.clsq})"


class Mod(V):
    __slots__ = ("module",)

    def __init__(self, module):
        self.module = module

    def __repr__(self):
        return f"Mod({self.module.name})"


class Meth(V):
    """``x.name`` read without calling it: the bound method (or plain attribute) of a value that is not a known
    function; opaque unless it is called."""
    __slots__ = ("recv", "name")

    def __init__(self, recv, name):
        self.recv, self.name = recv, name

    def __repr__(self):
        return f"<attribute {self.name}>"


class Bi(V):
    """A builtin / external callable known by name."""
    __slots__ = ("name",)

    def __init__(self, name):
        self.name = name

    def __repr__(self):
        return f"Bi({self.name})"


_depth = [0]


def _r(v):
    _depth[0] += 1
    try:
        return "..." if _depth[0] > 6 else repr(v)
    finally:
        _depth[0] -= 1


def join(a, b, depth=0):
    if isinstance(a, View):
        a = Seq(a.elem)
    if isinstance(b, View):
        b = Seq(b.elem)
    if isinstance(a, _Cell):
        a = a.find()
    if isinstance(b, _Cell):
        b = b.find()
    if a is b:
        return a
    if a is BOT:
        return b
    if b is BOT:
        return a
    if isinstance(a, Const) and a.value is None:
        return b
    if isinstance(b, Const) and b.value is None:
        return a
    if a is TOP or b is TOP or depth > 8:
        return TOP
    if isinstance(a, Const) and isinstance(b, Const):
        return a if type(a.value) is type(b.value) and a.value == b.value else TOP
    if isinstance(a, Mark) and isinstance(b, Mark):
        return a if a.tag == b.tag and not a.dirty and not b.dirty else TOP
    if isinstance(a, Tup) and isinstance(b, Tup):
        if len(a.items) == len(b.items):
            return Tup(join(x, y, depth + 1) for x, y in zip(a.items, b.items))
        return Seq(_joinall(a.items + b.items, depth + 1))
    if isinstance(a, Seq) and isinstance(b, Tup):
        a.add(_joinall(b.items, depth + 1), depth)
        return a
    if isinstance(a, Tup) and isinstance(b, Seq):
        b.add(_joinall(a.items, depth + 1), depth)
        return b
    if isinstance(a, Seq) and isinstance(b, Seq):
        ax, bx = a.x, b.x
        b.fwd = a           # unify first: cyclic structures terminate
        a.x = join(ax, bx, depth + 1)
        return a
    if isinstance(a, Map) and isinstance(b, Map):
        bx, bf = b.x, dict(b.fields)
        b.fwd = a
        a.x = join(a.x, bx, depth + 1)
        for k, v in bf.items():
            # a key that only one side has may be absent: the other side contributes what it stores under unknown keys
            a.fields[k] = join(a.fields.get(k, BOT), v, depth + 1)
        return a
    if isinstance(a, Fn) and isinstance(b, Fn):
        return a if a.node is b.node else TOP
    if isinstance(a, Param) and isinstance(b, Param):
        return a if a.fn is b.fn and a.name == b.name else TOP
    if isinstance(a, Inst) and isinstance(b, Inst):
        if not (a.clsq == b.clsq and a.module is b.module):
            return TOP
        if a.attrs is None or b.attrs is None:
            return a if a.attrs is None else b
        return Inst(a.module, a.clsq, join(a.attrs, b.attrs, depth + 1))
    if isinstance(a, (Cls, Mod, Bi)) and type(a) is type(b):
        return a if repr(a) == repr(b) else TOP
    return TOP


def _joinall(vs, depth=0):
    out = BOT
    for v in vs:
        out = join(out, v, depth)
    return out


def elem_of(v):
    """Shape of what iterating over ``v`` yields."""
    if isinstance(v, (Seq, View)):
        return v.elem
    if isinstance(v, Tup):
        return _joinall(v.items)
    if v is BOT or (isinstance(v, Const) and v.value is None):
        return BOT
    return TOP


def fresh(v, memo=None):
    """Structural copy (a summary handed to a caller must not be polluted by that caller)."""
    memo = {} if memo is None else memo
    if isinstance(v, _Cell):
        v = v.find()
        if id(v) in memo:
            return memo[id(v)]
        c = type(v)()
        memo[id(v)] = c
        c.x = fresh(v.x, memo)
        if isinstance(v, Map):
            c.fields = {k: fresh(x, memo) for k, x in v.fields.items()}
        return c
    if isinstance(v, Tup):
        return Tup(fresh(x, memo) for x in v.items)
    if isinstance(v, View):
        return Seq(fresh(v.elem, memo))
    if isinstance(v, Inst) and v.attrs is not None:
        return Inst(v.module, v.clsq, fresh(v.attrs, memo))
    if isinstance(v, Mark):
        if v.dirty:
            return TOP
        return v
    return v


def key_of(v, depth=0):
    if depth > 5:
        return "..."
    if isinstance(v, _Cell):
        v = v.find()
        if isinstance(v, Map) and v.fields:
            f = ",".join(f"{k[1]!r}:{key_of(x, depth + 1)}" for k, x in sorted(v.fields.items(), key=repr))
            return f"Map({key_of(v.x, depth + 1)};{f})"
        return f"{type(v).__name__}({key_of(v.x, depth + 1)})"
    if isinstance(v, Tup):
        return "Tup(" + ",".join(key_of(x, depth + 1) for x in v.items) + ")"
    if isinstance(v, View):
        return f"Seq({key_of(v.elem, depth + 1)})"
    if isinstance(v, Param):
        return f"Param({id(v.fn)},{v.name})"
    if isinstance(v, Inst):
        return f"Inst({v.clsq},{key_of(v.attrs, depth + 1) if v.attrs is not None else '-'})"
    if isinstance(v, Fn):
        return f"Fn({id(v.node)})"
    return repr(v)


class _Frame:
    def __init__(self, fn, envs, module, record, clsq=None):
        self.fn, self.envs, self.module, self.record, self.clsq = fn, envs, module, record, clsq
        self.ret = BOT
        self.yields = None
        self.loops = []        # stack of lists of environments that left a loop body early
        self.nested = []       # nested definitions seen (for entry evaluation)

    @property
    def env(self):
        return self.envs[-1]


_BUILTIN_NAMES = {"list", "tuple", "set", "frozenset", "sorted", "reversed", "iter", "dict", "zip", "enumerate", "map",
                  "filter", "len", "str", "int", "float", "bool", "range", "sum", "min", "max", "any", "all", "abs",
                  "isinstance", "print", "getattr", "hasattr", "repr", "next", "type", "id", "round", "divmod",
                  "callable", "super", "defaultdict", "Counter", "OrderedDict", "deepcopy", "copy", "chain", "product",
                  "permutations", "combinations"}


class Flow:
    """``sources``: definition name -> tag of the Mark its calls produce.
    ``on_call(flow, frame, node, attr, recv, pos, kw, star)`` is told about every evaluated call in a recording frame
    (the rule decides what a site is)."""

    def __init__(self, model, sources, on_call=None, on_enter=None, max_depth=7):
        self.model = model
        self.sources = dict(sources)
        self.on_call = on_call
        self.on_enter = on_enter
        self.max_depth = max_depth
        self.memo = {}
        self.active = set()
        self.depth = 0
        self.steps = 0
        self._methods = None
        self._relevant = None

    # ------------------------------------------------------------------ indices over the package
    def methods_named(self, name):
        if self._methods is None:
            self._methods = {}
            for m in self.model.modules.values():
                for q, f in m.functions.items():
                    if getattr(f, "_fn", None) is None and getattr(f, "_cls", None) is not None:
                        self._methods.setdefault(f.name, []).append(f)
        return self._methods.get(name, [])

    def relevant(self, name):
        """Names of functions that (transitively, by callee name) can reach a source."""
        if self._relevant is None:
            mentions = {}
            for m in self.model.modules.values():
                for q, f in m.functions.items():
                    names = set()
                    for n in ast.walk(f):
                        if isinstance(n, ast.Name):
                            names.add(n.id)
                        elif isinstance(n, ast.Attribute):
                            names.add(n.attr)
                    mentions.setdefault(f.name, set()).update(names)
            rel = set(self.sources)
            changed = True
            while changed:
                changed = False
                for fname, names in mentions.items():
                    if fname not in rel and names & rel:
                        rel.add(fname)
                        changed = True
            self._relevant = rel
        return name in self._relevant

    # ------------------------------------------------------------------ entry points
    def entry(self, fn):
        """Evaluates ``fn`` (a module-level function or a method) with its own parameters as arguments, recording."""
        mod = fn._module
        clsq = getattr(fn, "_cls", None)
        self._entry(fn, [], mod, clsq)

    def _entry(self, fn, envs, mod, clsq):
        fr = _Frame(fn, list(envs) + [{}], mod, True, clsq)
        a = fn.args
        allp = a.posonlyargs + a.args + a.kwonlyargs
        decos = [U(d).split(".")[-1].split("(")[0] for d in getattr(fn, "decorator_list", [])]
        for i, p in enumerate(allp):
            if i == 0 and clsq and not envs and "staticmethod" not in decos and p.arg in ("self", "cls"):
                fr.env[p.arg] = Inst(mod, clsq) if p.arg == "self" else Cls(mod, clsq)
            else:
                fr.env[p.arg] = Param(fn, p.arg)
        if a.vararg:
            fr.env[a.vararg.arg] = Param(fn, a.vararg.arg, "var")
        if a.kwarg:
            fr.env[a.kwarg.arg] = Param(fn, a.kwarg.arg, "kw")
        if self.on_enter:
            self.on_enter(self, fr)
        self._run(fr)

    def _run(self, fr):
        fn = fr.fn
        if isinstance(fn, ast.Lambda):
            fr.ret = self.ev(fn.body, fr)
        else:
            self.block(fn.body, fr)
        done = 0
        while done < len(fr.nested):     # nested definitions are evaluated at their own entry as well
            node, envs = fr.nested[done]
            done += 1
            if fr.record:
                self._entry(node, envs, fr.module, fr.clsq)
        if fr.yields is not None:
            return fr.yields
        return fr.ret

    # ------------------------------------------------------------------ statements
    def block(self, stmts, fr):
        """Returns False when the end of the block is unreachable."""
        for s in stmts:
            if not self.stmt(s, fr):
                return False
        return True

    def _tick(self, node):
        self.steps += 1
        if self.steps > 3_000_000:
            raise AnalysisError(f"shapeflow: step bound exceeded at line {getattr(node, 'lineno', '?')}")

    def stmt(self, s, fr):
        self._tick(s)
        if isinstance(s, ast.Expr):
            self.ev(s.value, fr)
        elif isinstance(s, ast.Return):
            v = self.ev(s.value, fr) if s.value is not None else NONE
            fr.ret = v if fr.ret is BOT else join(fr.ret, v)
            return False
        elif isinstance(s, ast.Raise):
            if s.exc is not None:
                self.ev(s.exc, fr)
            return False
        elif isinstance(s, ast.Assign):
            v = self.ev(s.value, fr)
            for t in s.targets:
                self.assign(t, v, fr)
        elif isinstance(s, ast.AnnAssign):
            if s.value is not None:
                self.assign(s.target, self.ev(s.value, fr), fr)
        elif isinstance(s, ast.AugAssign):
            v = self.ev(s.value, fr)
            cur = self.ev(_load(s.target), fr)
            if isinstance(cur, (Seq, Map)) and isinstance(s.op, (ast.Add, ast.BitOr)):
                if isinstance(cur, Map) and isinstance(v, Map):
                    cur.merge(v)
                else:
                    cur.add(elem_of(v) if isinstance(cur, Seq) else TOP)
            elif isinstance(cur, Mark):
                cur.dirty = True
                self.assign(s.target, TOP, fr)
            else:
                self.assign(s.target, TOP if not isinstance(cur, (Seq, Map)) else cur, fr)
        elif isinstance(s, ast.If):
            t = self.truth(self.ev(s.test, fr))
            if t is True:
                return self.block(s.body, fr)
            if t is False:
                return self.block(s.orelse, fr)
            return self._branches(fr, [s.body, s.orelse])
        elif isinstance(s, (ast.For, ast.AsyncFor)):
            it = self.ev(s.iter, fr)
            self._loop(fr, s, lambda: self.assign(s.target, elem_of(it), fr))
        elif isinstance(s, ast.While):
            t0 = self.truth(self.ev(s.test, fr))
            if t0 is False:
                return self.block(s.orelse, fr)
            self._loop(fr, s, lambda: self.ev(s.test, fr))
        elif isinstance(s, ast.Try):
            before = dict(fr.env)
            ok = self.block(s.body, fr)
            after_body = dict(fr.env) if ok else None
            outs = []
            if ok:
                ok2 = self.block(s.orelse, fr)
                if ok2:
                    outs.append(dict(fr.env))
            for h in s.handlers:
                self._set_env(fr, _join_envs([before] + ([after_body] if after_body else []) + [dict(fr.env)]))
                if h.name:
                    fr.env[h.name] = TOP
                if self.block(h.body, fr):
                    outs.append(dict(fr.env))
            if not outs:
                self._set_env(fr, before)
                self.block(s.finalbody, fr)
                return False
            self._set_env(fr, _join_envs(outs))
            return self.block(s.finalbody, fr)
        elif isinstance(s, (ast.With, ast.AsyncWith)):
            for it in s.items:
                v = self.ev(it.context_expr, fr)
                if it.optional_vars is not None:
                    self.assign(it.optional_vars, TOP if not isinstance(v, (Seq, Map, Mark, Tup)) else v, fr)
            return self.block(s.body, fr)
        elif isinstance(s, FuncNode):
            envs = list(fr.envs)
            fr.env[s.name] = Fn(s, envs, fr.module, clsq=fr.clsq)
            fr.nested.append((s, envs))
        elif isinstance(s, ast.ClassDef):
            fr.env[s.name] = TOP
        elif isinstance(s, (ast.Break, ast.Continue)):
            if fr.loops:
                fr.loops[-1].append(dict(fr.env))
            return False
        elif isinstance(s, ast.Assert):
            self.ev(s.test, fr)
        elif isinstance(s, ast.Delete):
            pass
        elif isinstance(s, (ast.Import, ast.ImportFrom)):
            for a in s.names:
                local = (a.asname or a.name).split(".")[0]
                if isinstance(s, ast.ImportFrom):
                    fr.env[local] = self.resolve_import(fr.module, "." * s.level + (s.module or "") + ":" + a.name)
                else:
                    fr.env[local] = TOP
        elif isinstance(s, (ast.Pass, ast.Global, ast.Nonlocal)):
            pass
        elif hasattr(ast, "Match") and isinstance(s, ast.Match):
            self.ev(s.subject, fr)
            return self._branches(fr, [c.body for c in s.cases] + [[]])
        else:
            raise AnalysisError(f"shapeflow: statement {type(s).__name__} at line {s.lineno} not modelled")
        return True

    def _set_env(self, fr, env):
        fr.envs[-1].clear()
        fr.envs[-1].update(env)

    def _branches(self, fr, bodies):
        start = dict(fr.env)
        outs = []
        for b in bodies:
            self._set_env(fr, start)
            if self.block(b, fr):
                outs.append(dict(fr.env))
        if not outs:
            return False
        self._set_env(fr, _join_envs(outs))
        return True

    def _loop(self, fr, s, head):
        """Loop body to a fixpoint (bounded): the state after the loop joins zero and more iterations."""
        state = dict(fr.env)
        exits = [dict(state)]
        for _ in range(3):
            self._set_env(fr, state)
            fr.loops.append([])
            head()
            ok = self.block(s.body, fr)
            early = fr.loops.pop()
            outs = ([dict(fr.env)] if ok else []) + early
            exits.extend(outs)
            new = _join_envs([state] + outs)
            if _env_key(new) == _env_key(state):
                state = new
                break
            state = new
        self._set_env(fr, _join_envs(exits + [state]))
        self.block(s.orelse, fr)
        return True

    def assign(self, t, v, fr):
        if isinstance(t, ast.Name):
            fr.env[t.id] = v
        elif isinstance(t, ast.Starred):
            self.assign(t.value, Seq(elem_of(v)), fr)
        elif isinstance(t, (ast.Tuple, ast.List)):
            if isinstance(v, _Cell):
                v = v.find()
            if isinstance(v, Tup) and len(v.items) == len(t.elts) and not any(isinstance(e, ast.Starred) for e in t.elts):
                for e, x in zip(t.elts, v.items):
                    self.assign(e, x, fr)
            else:
                x = elem_of(v)
                for e in t.elts:
                    self.assign(e, x, fr)
        elif isinstance(t, ast.Subscript):
            obj = self.ev(t.value, fr)
            k = None
            if not isinstance(t.slice, ast.Slice):
                k = self.ev(t.slice, fr)
            if isinstance(obj, _Cell):
                obj = obj.find()
            if isinstance(obj, Map):
                obj.add(v, key=k)
            elif isinstance(obj, _Cell):
                obj.add(v if not isinstance(t.slice, ast.Slice) else elem_of(v))
            elif isinstance(obj, Mark):
                obj.dirty = True
        elif isinstance(t, ast.Attribute):
            obj = self.ev(t.value, fr)
            if isinstance(obj, Inst) and obj.attrs is not None:
                obj.attrs.add(v, key=Const(t.attr))
        else:
            raise AnalysisError(f"shapeflow: assignment target {type(t).__name__} not modelled")

    # ------------------------------------------------------------------ expressions
    def truth(self, v):
        if isinstance(v, Const):
            return bool(v.value)
        return None

    def lookup(self, name, fr):
        for env in reversed(fr.envs):
            if name in env:
                return env[name]
        return self.module_name(fr.module, name)

    def module_name(self, mod, name, _seen=None):
        if name in mod.functions and "." not in name:
            return Fn(mod.functions[name], [], mod)
        if name in mod.classes:
            return Cls(mod, name)
        if name in mod.imports:
            return self.resolve_import(mod, mod.imports[name], _seen)
        for st in mod.tree.body:
            if isinstance(st, ast.Assign) and any(isinstance(t, ast.Name) and t.id == name for t in st.targets) \
                    and isinstance(st.value, ast.Constant):
                return Const(st.value.value)
        if name in ("True", "False", "None"):
            return Const({"True": True, "False": False, "None": None}[name])
        if name in _BUILTIN_NAMES:
            return Bi(name)
        return TOP

    def resolve_import(self, mod, origin, _seen=None):
        _seen = _seen or set()
        if (mod.name, origin) in _seen:
            return TOP
        _seen = _seen | {(mod.name, origin)}
        modpart, sep, obj = origin.partition(":")
        if not sep:
            return TOP
        level = len(modpart) - len(modpart.lstrip("."))
        target = modpart.lstrip(".")
        pkg = self.model.PKG
        if level == 0:
            if not (target == pkg or target.startswith(pkg + ".")):
                return Bi(obj) if obj in _BUILTIN_NAMES else TOP
            full = target[len(pkg):].lstrip(".")
        else:
            base = mod.name.split(".")[:-1]
            if level > 1:
                base = base[:len(base) - (level - 1)]
            full = ".".join(base + ([target] if target else []))
        cand = (full + "." + obj).lstrip(".") if full else obj
        if cand in self.model.modules:
            return Mod(self.model.modules[cand])
        if full in self.model.modules:
            return self.module_name(self.model.modules[full], obj, _seen)
        return TOP

    def ev(self, n, fr):
        self._tick(n)
        if isinstance(n, ast.Constant):
            return Const(n.value)
        if isinstance(n, ast.Name):
            return self.lookup(n.id, fr)
        if isinstance(n, ast.Tuple):
            if any(isinstance(e, ast.Starred) for e in n.elts):
                return Seq(_joinall(elem_of(self.ev(e.value, fr)) if isinstance(e, ast.Starred) else self.ev(e, fr)
                                    for e in n.elts))
            return Tup(self.ev(e, fr) for e in n.elts)
        if isinstance(n, (ast.List, ast.Set)):
            return Seq(_joinall(elem_of(self.ev(e.value, fr)) if isinstance(e, ast.Starred) else self.ev(e, fr)
                                for e in n.elts))
        if isinstance(n, ast.Dict):
            m = Map()
            for k, v in zip(n.keys, n.values):
                x = self.ev(v, fr)
                if k is None:
                    if isinstance(x, Map):
                        m.merge(x)
                    else:
                        m.add(TOP)
                else:
                    m.add(x, key=self.ev(k, fr))
            return m
        if isinstance(n, (ast.ListComp, ast.SetComp, ast.GeneratorExp)):
            return Seq(self._comp(n.generators, fr, lambda: self.ev(n.elt, fr)))
        if isinstance(n, ast.DictComp):
            def kv():
                self.ev(n.key, fr)
                return self.ev(n.value, fr)
            return Map(self._comp(n.generators, fr, kv))
        if isinstance(n, ast.NamedExpr):
            v = self.ev(n.value, fr)
            self.assign(n.target, v, fr)
            return v
        if isinstance(n, ast.IfExp):
            t = self.truth(self.ev(n.test, fr))
            if t is True:
                return self.ev(n.body, fr)
            if t is False:
                return self.ev(n.orelse, fr)
            return join(self.ev(n.body, fr), self.ev(n.orelse, fr))
        if isinstance(n, ast.BoolOp):
            vs = [self.ev(e, fr) for e in n.values]
            ts = [self.truth(v) for v in vs]
            if all(t is not None for t in ts):
                is_and = isinstance(n.op, ast.And)
                for v, t in zip(vs, ts):
                    if t != is_and:
                        return v
                return vs[-1]
            return _joinall(vs)
        if isinstance(n, ast.UnaryOp):
            v = self.ev(n.operand, fr)
            if isinstance(n.op, ast.Not):
                t = self.truth(v)
                return TOP if t is None else Const(not t)
            if isinstance(v, Const) and isinstance(v.value, (int, float)) and not isinstance(v.value, bool):
                return Const(-v.value) if isinstance(n.op, ast.USub) else v
            return TOP
        if isinstance(n, ast.Compare):
            vals = [self.ev(n.left, fr)] + [self.ev(c, fr) for c in n.comparators]
            if len(vals) == 2 and all(isinstance(v, Const) for v in vals):
                a, b = vals[0].value, vals[1].value
                op = n.ops[0]
                try:
                    if isinstance(op, (ast.Is, ast.Eq)) and (a is None or b is None or type(a) is type(b)):
                        return Const(a == b)
                    if isinstance(op, (ast.IsNot, ast.NotEq)) and (a is None or b is None or type(a) is type(b)):
                        return Const(a != b)
                except Exception:
                    pass
            return TOP
        if isinstance(n, ast.BinOp):
            a, b = self.ev(n.left, fr), self.ev(n.right, fr)
            if isinstance(n.op, (ast.Add, ast.BitOr, ast.BitAnd, ast.Sub)):
                if isinstance(a, Map) and isinstance(b, Map):
                    m = Map()
                    m.merge(fresh(a))
                    m.merge(fresh(b))
                    return m
                if isinstance(a, (Seq, Tup)) and isinstance(b, (Seq, Tup)):
                    if isinstance(a, Tup) and isinstance(b, Tup) and isinstance(n.op, ast.Add):
                        return Tup(a.items + b.items)
                    return Seq(join(elem_of(a), elem_of(b)))
            if isinstance(n.op, ast.Mult) and isinstance(a, (Seq, Tup)):
                return Seq(elem_of(a))
            if isinstance(a, Const) and isinstance(b, Const) and isinstance(a.value, (int, str)) \
                    and type(a.value) is type(b.value) and isinstance(n.op, ast.Add) and not isinstance(a.value, bool):
                return Const(a.value + b.value)
            return TOP
        if isinstance(n, ast.Subscript):
            return self._subscript(n, fr)
        if isinstance(n, ast.Attribute):
            v = self.ev(n.value, fr)
            if isinstance(v, Mod):
                return self.module_name(v.module, n.attr)
            if isinstance(v, Inst) and v.attrs is not None and ("str", n.attr) in v.attrs.find().fields:
                return v.attrs.at(Const(n.attr))
            if isinstance(v, (Cls, Inst)):
                m = self.find_method(v.module, v.clsq, n.attr)
                if m is not None:
                    decos = [U(d).split(".")[-1].split("(")[0] for d in m.decorator_list]
                    if "property" in decos or "cached_property" in decos:
                        if isinstance(v, Inst) and (v.attrs is not None or self.relevant(m.name)):
                            return self.call_fn(Fn(m, [], m._module, bound=v, clsq=m._cls), [], {}, None, fr, n)
                        return TOP
                    return Fn(m, [], m._module, bound=v if isinstance(v, Inst) and "staticmethod" not in decos else None,
                              clsq=m._cls)
            return Meth(v, n.attr)
        if isinstance(n, ast.Call):
            return self.call(n, fr)
        if isinstance(n, ast.Lambda):
            return Fn(n, list(fr.envs), fr.module, clsq=fr.clsq)
        if isinstance(n, ast.Starred):
            return Seq(elem_of(self.ev(n.value, fr)))
        if isinstance(n, (ast.Yield, ast.YieldFrom)):
            v = self.ev(n.value, fr) if n.value is not None else NONE
            if fr.yields is None:
                fr.yields = Seq()
            fr.yields.add(elem_of(v) if isinstance(n, ast.YieldFrom) else v)
            return TOP
        if isinstance(n, ast.Await):
            return self.ev(n.value, fr)
        if isinstance(n, (ast.JoinedStr, ast.FormattedValue)):
            for c in ast.iter_child_nodes(n):
                if isinstance(c, ast.FormattedValue):
                    self.ev(c.value, fr)
            return TOP
        if isinstance(n, ast.Slice):
            return TOP
        raise AnalysisError(f"shapeflow: expression {type(n).__name__} at line {getattr(n, 'lineno', '?')} not modelled")

    def _comp(self, gens, fr, emit):
        fr.envs.append(dict())          # comprehension scope (reads fall through to the enclosing scopes)
        try:
            out = BOT
            for _ in range(2):
                for g in gens:
                    self.assign(g.target, elem_of(self.ev(g.iter, fr)), fr)
                    for c in g.ifs:
                        self.ev(c, fr)
                out = join(out, emit())
            return out
        finally:
            fr.envs.pop()

    def _subscript(self, n, fr):
        v = self.ev(n.value, fr)
        is_slice = isinstance(n.slice, ast.Slice)
        k = None
        if not is_slice:
            k = self.ev(n.slice, fr)
        else:
            for part in (n.slice.lower, n.slice.upper, n.slice.step):
                if part is not None:
                    self.ev(part, fr)
        if isinstance(v, _Cell):
            v = v.find()
        if isinstance(v, Mark) and is_slice and n.slice.lower is None and n.slice.upper is None and n.slice.step is None:
            return v if not v.dirty else TOP        # x[:] is a copy of the same sequence
        if isinstance(v, Map):
            return v.at(k)
        if isinstance(v, Seq):
            return v if is_slice else v.elem
        if isinstance(v, View):
            return Seq(v.elem) if is_slice else v.elem
        if isinstance(v, Tup):
            if is_slice:
                return Seq(_joinall(v.items))
            if isinstance(k, Const) and isinstance(k.value, int) and not isinstance(k.value, bool) \
                    and -len(v.items) <= k.value < len(v.items):
                return v.items[k.value]
            return _joinall(v.items)
        return TOP

    # ------------------------------------------------------------------ calls
    def find_method(self, mod, clsq, name, _seen=None):
        _seen = _seen or set()
        if (mod.name, clsq) in _seen or clsq not in mod.classes:
            return None
        _seen.add((mod.name, clsq))
        fq = f"{clsq}.{name}"
        if fq in mod.functions:
            return mod.functions[fq]
        for b in mod.classes[clsq].bases:
            bname = U(b).split(".")[-1]
            if bname in mod.classes:
                r = self.find_method(mod, bname, name, _seen)
            elif bname in mod.imports:
                v = self.resolve_import(mod, mod.imports[bname])
                r = self.find_method(v.module, v.clsq, name, _seen) if isinstance(v, Cls) else None
            else:
                r = None
            if r is not None:
                return r
        return None

    def _args(self, n, fr):
        pos, star, kw = [], None, {}
        for a in n.args:
            if isinstance(a, ast.Starred):
                v = self.ev(a.value, fr)
                star = v if star is None else join(star, v)
            else:
                pos.append(self.ev(a, fr))
        for k in n.keywords:
            v = self.ev(k.value, fr)
            if k.arg is None:
                kw["**"] = v if "**" not in kw else join(kw["**"], v)
            else:
                kw[k.arg] = v
        return pos, kw, star

    def call(self, n, fr):
        f = n.func
        if isinstance(f, ast.Attribute):
            recv = self.ev(f.value, fr)
            pos, kw, star = self._args(n, fr)
            return self.call_attr(recv, f.attr, pos, kw, star, fr, n)
        fv = self.ev(f, fr)
        pos, kw, star = self._args(n, fr)
        if isinstance(fv, Meth):        # a bound method that was stored in a name first
            return self.call_attr(fv.recv, fv.name, pos, kw, star, fr, n)
        if fr.record and self.on_call:
            self.on_call(self, fr, n, None, fv, pos, kw, star)
        return self.call_value(fv, pos, kw, star, fr, n)

    def call_attr(self, recv, attr, pos, kw, star, fr, n):
        if fr.record and self.on_call:
            self.on_call(self, fr, n, attr, recv, pos, kw, star)
        if isinstance(recv, _Cell):
            recv = recv.find()
        if isinstance(recv, Mod):
            return self.call_value(self.module_name(recv.module, attr), pos, kw, star, fr, n)
        if isinstance(recv, (Seq, Map, Tup, Mark, View)):
            return self.container_method(recv, attr, pos, kw, star)
        if isinstance(recv, (Cls, Inst)):
            m = self.find_method(recv.module, recv.clsq, attr)
            if m is not None:
                decos = [U(d).split(".")[-1].split("(")[0] for d in m.decorator_list]
                bound = recv if isinstance(recv, Inst) and "staticmethod" not in decos else None
                if isinstance(recv, Cls) and "classmethod" in decos:
                    bound = recv
                return self.call_fn(Fn(m, [], m._module, bound=bound, clsq=m._cls), pos, kw, star, fr, n)
        if isinstance(recv, Bi):
            return self.builtin(f"{recv.name}.{attr}", pos, kw, star, fr)
        # unknown receiver: the methods of that name that can reach a source
        if self.relevant(attr):
            cands = [m for m in self.methods_named(attr) if _accepts(m, len(pos), kw, star)]
            if 0 < len(cands) <= 6:
                out = BOT
                for m in cands:
                    out = join(out, self.call_fn(Fn(m, [], m._module, bound=Inst(m._module, m._cls), clsq=m._cls),
                                                 pos, kw, star, fr, n))
                return out
        return TOP

    def call_value(self, fv, pos, kw, star, fr, n):
        if isinstance(fv, Fn):
            return self.call_fn(fv, pos, kw, star, fr, n)
        if isinstance(fv, Bi):
            return self.builtin(fv.name, pos, kw, star, fr)
        if isinstance(fv, Cls):
            return self.construct(fv, pos, kw, star, fr, n)
        return TOP

    def construct(self, c, pos, kw, star, fr, n):
        """``C(...)`` of a repository class: an instance whose attribute stores are followed (``__init__`` is evaluated;
        without one the annotated class-level fields are bound in order, as dataclasses / NamedTuples do)."""
        if self.depth >= self.max_depth or c.clsq not in c.module.classes:
            return TOP
        obj = Inst(c.module, c.clsq, Map())
        init = self.find_method(c.module, c.clsq, "__init__")
        new = self.find_method(c.module, c.clsq, "__new__")
        if init is None and new is not None:
            return TOP
        if init is None:
            names = [st.target.id for st in c.module.classes[c.clsq].body
                     if isinstance(st, ast.AnnAssign) and isinstance(st.target, ast.Name)]
            vals = list(pos)
            for k, name in enumerate(names):
                if k < len(vals):
                    obj.attrs.add(vals[k], key=Const(name))
                elif name in kw:
                    obj.attrs.add(kw[name], key=Const(name))
                elif star is not None or "**" in kw:
                    obj.attrs.add(TOP, key=Const(name))
            return obj
        key = ("init", id(init), id(n))
        if key in self.active:
            return TOP
        self.active.add(key)
        self.depth += 1
        try:
            args = self.bind(init, pos, kw, star, obj)
            self._run(_Frame(init, [dict(args)], init._module, False, init._cls))
        finally:
            self.depth -= 1
            self.active.discard(key)
        return obj

    def bind(self, fnode, pos, kw, star, bound):
        a = fnode.args
        params = [p.arg for p in a.posonlyargs + a.args]
        out = {}
        pos = list(pos)
        if bound is not None and params:
            out[params[0]] = bound
            params = params[1:]
        kw = dict(kw)
        kwstar = kw.pop("**", None)
        rest_star = elem_of(star) if star is not None else None
        for p in params:
            if pos:
                out[p] = pos.pop(0)
            elif p in kw:
                out[p] = kw.pop(p)
            elif rest_star is not None:
                out[p] = rest_star
        if a.vararg:
            if star is not None and isinstance(star, Param) and star.kind == "var" and not pos:
                out[a.vararg.arg] = star
            else:
                out[a.vararg.arg] = Seq(_joinall(pos + ([rest_star] if rest_star is not None else [])))
        for p in a.kwonlyargs:
            if p.arg in kw:
                out[p.arg] = kw.pop(p.arg)
        if a.kwarg:
            if kwstar is not None and isinstance(kwstar, Param) and not kw:
                out[a.kwarg.arg] = kwstar
            else:
                out[a.kwarg.arg] = Map(_joinall(list(kw.values()) + ([kwstar.val if isinstance(kwstar, Map) else TOP]
                                                                      if kwstar is not None else [])))
        allp = a.posonlyargs + a.args
        defaults = dict(zip([p.arg for p in allp][len(allp) - len(a.defaults):], a.defaults))
        for p, d in zip(a.kwonlyargs, a.kw_defaults):
            if d is not None:
                defaults[p.arg] = d
        for p in [p.arg for p in allp + a.kwonlyargs]:
            if p not in out:
                d = defaults.get(p)
                if kwstar is not None:
                    out[p] = TOP
                elif isinstance(d, ast.Constant):
                    out[p] = Const(d.value)
                elif isinstance(d, ast.UnaryOp) and isinstance(d.operand, ast.Constant) and isinstance(d.op, ast.USub):
                    out[p] = Const(-d.operand.value)
                else:
                    out[p] = TOP
        return out

    def call_fn(self, f, pos, kw, star, fr, n):
        node = f.node
        name = getattr(node, "name", None)
        if name in self.sources and not f.envs:
            return Mark(self.sources[name])
        bound = f.bound
        args = self.bind(node, pos, kw, star, bound)
        key = (id(node), tuple((k, key_of(v)) for k, v in sorted(args.items())))
        if key in self.memo:
            return fresh(self.memo[key])
        if key in self.active or self.depth >= self.max_depth:
            return BOT if key in self.active else TOP
        self.active.add(key)
        self.depth += 1
        try:
            sub = _Frame(node, list(f.envs) + [dict(args)], f.module, False, f.clsq)
            r = self._run(sub)
        finally:
            self.depth -= 1
            self.active.discard(key)
        if not f.envs:
            self.memo[key] = r      # closures see a live environment: not memoised
            return fresh(r)
        return r

    def builtin(self, name, pos, kw, star, fr):
        short = name.split(".")[-1]
        a0 = pos[0] if pos else (Seq(elem_of(star)) if star is not None else None)
        if isinstance(a0, _Cell):
            a0 = a0.find()
        if short in ("list", "tuple"):
            if a0 is None:
                return Seq()
            if isinstance(a0, Mark):
                return a0 if not a0.dirty else TOP   # a copy of the same sequence
            if isinstance(a0, Tup) and short == "tuple":
                return a0
            return Seq(elem_of(a0))
        if short in ("set", "frozenset", "sorted", "reversed", "iter", "filter"):
            if short == "filter":
                a0 = pos[1] if len(pos) > 1 else None
            return Seq(elem_of(a0)) if a0 is not None else Seq()
        if short in ("dict", "OrderedDict"):
            m = Map()
            for k, v in kw.items():
                if k == "**":
                    m.add(v.val if isinstance(v, Map) else TOP)
                else:
                    m.add(v, key=Const(k))
            if a0 is not None:
                if isinstance(a0, Map):
                    m.merge(fresh(a0))
                else:
                    e = elem_of(a0)
                    m.add(e.items[1] if isinstance(e, Tup) and len(e.items) == 2 else (BOT if e is BOT else TOP))
            return m
        if short == "defaultdict":
            if isinstance(a0, Bi) and a0.name in ("list", "set"):
                return Map(Seq())
            if isinstance(a0, Bi) and a0.name == "dict":
                return Map(Map())
            return Map(TOP if a0 is not None and not isinstance(a0, Const) else BOT)
        if short == "Counter":
            return Map(TOP)
        if short == "zip":
            return Seq(Tup(elem_of(p) for p in pos)) if star is None else Seq(TOP)
        if short == "enumerate":
            return Seq(Tup((TOP, elem_of(a0)))) if a0 is not None else Seq(TOP)
        if short == "map" and len(pos) >= 2:
            return Seq(self.call_value(pos[0], [elem_of(p) for p in pos[1:]], {}, None, fr, None))
        if short in ("deepcopy", "copy") and a0 is not None:
            return fresh(a0)
        if short == "next" and a0 is not None:
            return join(elem_of(a0), pos[1] if len(pos) > 1 else BOT)
        if short in ("chain", "from_iterable"):
            if short == "from_iterable" and a0 is not None:
                return Seq(elem_of(elem_of(a0)))
            return Seq(_joinall(elem_of(p) for p in pos))
        if short in ("min", "max") and a0 is not None:
            return elem_of(a0) if len(pos) == 1 else _joinall(pos)
        return TOP

    def container_method(self, o, attr, pos, kw, star):
        a0 = pos[0] if pos else None
        a1 = pos[1] if len(pos) > 1 else kw.get("default")
        if isinstance(o, Mark):
            if attr == "copy":
                return o if not o.dirty else TOP
            if attr in ("append", "extend", "insert", "remove", "pop", "reverse", "sort", "clear", "__setitem__",
                        "__delitem__", "__iadd__"):
                o.dirty = True
                return TOP if attr == "pop" else NONE
            return TOP
        if isinstance(o, Map):
            if attr == "items":
                return View(o, True)
            if attr == "values":
                return View(o, False)
            if attr == "keys":
                return Seq(TOP)
            if attr in ("get", "pop"):
                return join(o.at(a0) if a0 is not None else o.val, a1 if a1 is not None else NONE)
            if attr == "setdefault":
                o.add(a1 if a1 is not None else NONE, key=a0)
                return o.at(a0) if a0 is not None else o.val
            if attr == "update":
                for x in ([a0] if a0 is not None else []):
                    if isinstance(x, _Cell):
                        x = x.find()
                    if isinstance(x, Map):
                        o.merge(x)
                    else:
                        e = elem_of(x)
                        o.add(e.items[1] if isinstance(e, Tup) and len(e.items) == 2 else (BOT if e is BOT else TOP))
                for k, v in kw.items():
                    if k == "**":
                        o.add(TOP)
                    else:
                        o.add(v, key=Const(k))
                return NONE
            if attr == "copy":
                return fresh(o)
            if attr == "popitem":
                return Tup((TOP, o.val))
            if attr in ("clear",):
                return NONE
            return TOP
        if isinstance(o, Seq):
            if attr in ("append", "add"):
                o.add(a0 if a0 is not None else TOP)
                return NONE
            if attr == "insert":
                o.add(a1 if a1 is not None else TOP)
                return NONE
            if attr in ("extend", "update"):
                for p in pos:
                    o.add(elem_of(p))
                return NONE
            if attr in ("copy", "union", "intersection", "difference", "symmetric_difference"):
                c = fresh(o)
                for p in pos:
                    c.add(elem_of(p))
                return c
            if attr == "pop":
                return o.elem
            if attr in ("reverse", "sort", "clear", "remove", "discard"):
                return NONE
            return TOP
        if isinstance(o, Tup):
            return TOP
        return TOP


class View(V):
    """``d.items()`` / ``d.values()``: live view of a Map (the element shape follows later stores)."""
    __slots__ = ("m", "items")

    def __init__(self, m, items):
        self.m, self.items = m, items

    @property
    def elem(self):
        return Tup((TOP, self.m.val)) if self.items else self.m.val

    def __repr__(self):
        return f"View({_r(self.elem)})"


def _accepts(fn, npos, kw, star):
    """Could a bound call with ``npos`` positional and these keyword arguments bind to the method ``fn``?"""
    a = fn.args
    params = [p.arg for p in a.posonlyargs + a.args][1:]
    if npos > len(params) and not a.vararg:
        return False
    names = set(params[npos:]) | {p.arg for p in a.kwonlyargs}
    for k in kw:
        if k != "**" and k not in names and not a.kwarg:
            return False
    if star is None and "**" not in kw:
        required = params[npos:len(params) - len(a.defaults)] if len(a.defaults) <= len(params) else []
        if any(p not in kw for p in required):
            return False
    return True


def _join_envs(envs):
    envs = [e for e in envs if e is not None]
    if not envs:
        return {}
    out = {}
    names = set()
    for e in envs:
        names |= set(e)
    for k in names:
        v = BOT
        for e in envs:
            v = join(v, e.get(k, BOT))
        out[k] = v
    return out


def _env_key(env):
    return tuple(sorted((k, key_of(v)) for k, v in env.items()))


def _load(t):
    import copy
    t2 = copy.copy(t)
    t2.ctx = ast.Load()
    return t2
