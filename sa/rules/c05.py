"""C05 ISR properties and transition moments (structural clauses)."""
from __future__ import annotations

import ast

from ..model import AnalysisError, U, Defs, calls_in, call_name, walk_fn, kwarg, enclosing
from ..pathcond import conditions
from . import common, deriv
from . import c04

EXPLANATION = (
    "D1/D2 on properties.py (order linearity of the norm x (bra, operator, ket) splits; amplitude "
    "vector | <I| | operator | |J> | amplitude vector order; operator rules passed to wicks). D3: "
    "the three square-root lifting prefactors take n_o, n_v from the same space whose generic "
    "indices are summed (left block[0], right block[1], transition-moment space), plus the "
    "projector/intermediate-state sums they are built from. D5: Properties.operator dispatch "
    "(operator only at order 0; shift by the ground-state expectation value of the same order "
    "only for n_create == n_annihilate). R05a: left factors use l_isr/'left'/block[0], right "
    "factors r_isr/'right'/block[1]; mixed block (l_block[0], r_block[1]); default operator "
    "string count('p') creators / count('h') annihilators of the minimal space. D1/D2/R04a/R04c/R02c "
    "on the intermediate-state and norm-factor layers the expressions are built from.")
ASSUMPTIONS = ["equality with explicit matrix elements is not decided"]

PR = "properties:Properties."


def d3(ctx):
    rule = "D3"
    fn = ctx.model.fn(PR + "expec_block_contribution")
    prefs = deriv.d3_space_sites(ctx, rule, PR + "expec_block_contribution", 2)
    got = {}
    for a in [n for n in walk_fn(fn) if isinstance(n, ast.Assign) and U(n.targets[0]) in ("left_pref", "right_pref")]:
        for sp, node in prefs:
            if node is a.value:
                got[U(a.targets[0])] = sp
    ctx.check(rule, fn, got == {"left_pref": "block[0]", "right_pref": "block[1]"},
              "left prefactor from block[0], right prefactor from block[1]", f"prefactor spaces are {got}", key="expec pref spaces")
    kinds = sorted(k for _, k, _ in deriv._lifting_prefactors(fn, Defs(fn)))
    ctx.check(rule, fn, kinds == ["sqrt", "sqrt"], "amplitude-vector sums use 1/sqrt(n_o! n_v!)", f"kinds {kinds}", key="expec pref kind")
    deriv.d3_space_sites(ctx, rule, PR + "trans_moment_space", 1)
    tm = ctx.model.fn(PR + "trans_moment_space")
    kinds = sorted(k for _, k, _ in deriv._lifting_prefactors(tm, Defs(tm)))
    ctx.check(rule, tm, kinds == ["sqrt"], "transition moment uses 1/sqrt(n_o! n_v!)", f"kinds {kinds}", key="tm pref kind")
    c04.d3(ctx)


def r05a(ctx):
    rule = "R05a"
    fn = ctx.model.fn(PR + "expec_block_contribution")
    want = {
        "left_idx": "block[0]", "right_idx": "block[1]",
    }
    for name, sp in want.items():
        a = [x for x in common.assigns_to(fn, name)]
        ok = len(a) == 1 and f"generic_indices_from_space({sp})" in U(a[0].value)
        ctx.check(rule, fn, ok, f"{name} generated for {sp}", f"{name} is not generated from {sp}", key=f"{name} space")
    la = [x for x in common.assigns_to(fn, "left_ampl")]
    ra = [x for x in common.assigns_to(fn, "right_ampl")]
    ok = len(la) == 1 and common.call_is(la[0].value, "self.l_isr.amplitude_vector", ["indices", "lr"], indices="left_idx", lr="'left'")
    ctx.check(rule, fn, ok, "left amplitude vector: l_isr, left indices, 'left'", f"left amplitude is `{U(la[0].value) if la else None}`",
              key="left ampl")
    ok = len(ra) == 1 and common.call_is(ra[0].value, "self.r_isr.amplitude_vector", ["indices", "lr"], indices="right_idx", lr="'right'")
    ctx.check(rule, fn, ok, "right amplitude vector: r_isr, right indices, 'right'", f"right amplitude is `{U(ra[0].value) if ra else None}`",
              key="right ampl")
    prods = [n for n in walk_fn(fn) if isinstance(n, ast.Assign) and U(n.targets[0]) == "i1"]
    ctx.floor(rule, "expectation value product", len(prods), 1)
    for p in prods:
        fs = deriv.flatten_mult(p.value)
        names = [call_name(f) if isinstance(f, ast.Call) else U(f) for f in fs]
        ctx.check(rule, p, names == ["left_pref", "right_pref", "left_ampl", "intermediate_state", "op", "intermediate_state", "right_ampl"]
                  or (sorted(names[:3]) == ["left_ampl", "left_pref", "right_pref"] and names[3:] == ["intermediate_state", "op", "intermediate_state", "right_ampl"]),
                  "X_I <I| d |J> Y_J with both prefactors", f"expectation value product factors are {names}", key="expec product")
        states = [f for f in fs if isinstance(f, ast.Call) and call_name(f) == "intermediate_state"]
        for f in states:
            bk = kwarg(f, "braket", 2).value
            isr, k, idx = ("self.l_isr", 0, "left_idx") if bk == "bra" else ("self.r_isr", 1, "right_idx")
            ok = U(f.func.value) == isr and U(kwarg(f, "space", 1)) == f"block[{k}]" and U(kwarg(f, "indices", 3)) == idx
            ctx.check(rule, f, ok, f"{bk} state: {isr}, block[{k}], {idx}", f"{bk} state is `{U(f)[:90]}`", key=f"expec {bk} state")
    op = [n for n in walk_fn(fn) if isinstance(n, ast.Assign) and U(n.targets[0]) == "(op, rules)"]
    for a in op:
        v = a.value
        ok = call_name(v) == "operator" and U(kwarg(v, "n_create", 1)) == "n_particles" and U(kwarg(v, "n_annihilate", 2)) == "n_particles" \
            and U(kwarg(v, "subtract_gs", 3)) == "subtract_gs"
        ctx.check(rule, a, ok, "n-particle operator with forwarded shift flag", f"operator request `{U(v)[:90]}`", key="expec operator")
    adds = [n for n in walk_fn(fn) if isinstance(n, ast.AugAssign) and U(n.target) == "res"]
    ctx.check(rule, fn, len(adds) == 1 and isinstance(adds[0].op, ast.Add) and U(adds[0].value) == "(norm * expec).expand()",
              "norm * expectation added", "accumulation changed", key="expec add")
    # expectation_value: mixed blocks
    ev = ctx.model.fn(PR + "expectation_value")
    b = [x for x in common.assigns_to(ev, "block")]
    ctx.check(rule, ev, len(b) == 1 and U(b[0].value) == "(l_block[0], r_block[1])", "mixed block (left bra space, right ket space)",
              f"mixed block is `{U(b[0].value) if b else None}`", key="mixed block")
    lb = [x for x in common.assigns_to(ev, "left_blocks")]
    rb = [x for x in common.assigns_to(ev, "right_blocks")]
    ok = len(lb) == 2 and U(lb[0].value) == "self.l_m.block_order(adc_order)" and len(rb) == 2 \
        and U(rb[0].value) == "self.r_m.block_order(adc_order)"
    ctx.check(rule, ev, ok, "left blocks from l_m, right blocks from r_m", "block lists changed", key="block lists")
    if ok:
        kl = U(kwarg(lb[1].value, "key")).replace("tpl[0]", "B")
        kr = U(kwarg(rb[1].value, "key")).replace("bl", "B").replace("lambda B", "lambda tpl")
        ctx.check(rule, ev, kl == kr, "both block lists sorted with the same key", f"sort keys differ: {kl} / {kr}", key="block sort")
    conts = [n for n in walk_fn(ev) if isinstance(n, ast.Continue)]
    ok = len(conts) == 1 and U(conts[0]._parent.test) == "order is not None and max_order < order"
    ctx.check(rule, ev, ok, "block skipped iff not expanded through the order", "block selection changed", key="expec selection")
    og = {}
    for a in [n for n in walk_fn(ev) if isinstance(n, ast.Assign) and U(n.targets[0]) == "orders_to_gen"]:
        og["none" if ("order is None", True) in conditions(a) else "given"] = U(a.value).replace(" ", "")
    ctx.check(rule, ev, og == {"none": "list(range(max_order+1))", "given": "[order]"}, "orders 0..max or the requested one",
              f"orders to generate: {og}", key="orders to gen")
    # transition moments
    tm = ctx.model.fn(PR + "trans_moment_space")
    d = {}
    for a in [n for n in walk_fn(tm) if isinstance(n, ast.Assign) and U(n.targets[0]) in ("n_create", "n_annihilate")]:
        par = a._parent
        if isinstance(par, ast.If) and a in par.body and U(par.test) == "n_create is None and n_annihilate is None":
            d[U(a.targets[0])] = U(a.value)
    ctx.check(rule, tm, d == {"n_create": "isr.min_space[0].count('p')", "n_annihilate": "isr.min_space[0].count('h')"},
              "default operator: one creator per p, one annihilator per h of the minimal space", f"default operator string is {d}",
              key="default operator")
    isr = [n for n in walk_fn(tm) if isinstance(n, ast.Dict)]
    ok = any({U(k): U(v) for k, v in zip(x.keys, x.values)} == {"'left'": "self.l_isr", "'right'": "self.r_isr"} for x in isr)
    ctx.check(rule, tm, ok, "lr_isr selects l_isr / r_isr", "isr selection table changed", key="tm isr table")
    am = [x for x in common.assigns_to(tm, "ampl")]
    ok = len(am) == 1 and common.call_is(am[0].value, "isr.amplitude_vector", ["indices", "lr"], indices="idx", lr="'left'")
    ctx.check(rule, tm, ok, "left amplitude vector on the summed indices", "transition-moment amplitude vector changed", key="tm ampl")
    prods = [n for n in walk_fn(tm) if isinstance(n, ast.Assign) and U(n.targets[0]) == "i1"]
    for p in prods:
        fs = deriv.flatten_mult(p.value)
        names = [call_name(f) if isinstance(f, ast.Call) else U(f).split("[")[0] for f in fs]
        ctx.check(rule, p, sorted(names[:2]) == ["ampl", "pref"] and names[2:] == ["intermediate_state", "op", "mp"],
                  "X_I <I| d |Psi_0>", f"transition moment factors are {names}", key="tm product")
        for f in fs:
            if isinstance(f, ast.Call) and call_name(f) == "intermediate_state":
                ok = U(f.func.value) == "isr" and U(kwarg(f, "space", 1)) == "space" and U(kwarg(f, "braket", 2)) == "'bra'" \
                    and U(kwarg(f, "indices", 3)) == "idx"
                ctx.check(rule, f, ok, "bra intermediate state of the requested space", f"`{U(f)[:80]}`", key="tm state")
    mo = ctx.model.fn(PR + "trans_moment")
    md = [n for n in walk_fn(mo) if isinstance(n, ast.Dict)]
    ok = any({U(k): U(v) for k, v in zip(x.keys, x.values)} == {"'left'": "self.l_m", "'right'": "self.r_m"} for x in md)
    ctx.check(rule, mo, ok, "secular matrix of the same side", "matrix selection table changed", key="tm matrix table")
    init = ctx.model.fn(PR + "__init__")
    a = [x for x in common.assigns_to(init, "self.r_isr")]
    ctx.check(rule, init, len(a) == 1 and U(a[0].value) == "self.l_isr if r_isr is None else r_isr", "r_isr defaults to l_isr",
              "r_isr default changed", key="r_isr default")


def run(ctx):
    if ctx.want("D1"):
        deriv.d1(ctx, "D1", "properties", 4)
    if ctx.want("D2"):
        deriv.d2(ctx, "D2", "properties", 2)
    if ctx.want("D3"):
        d3(ctx)
    if ctx.want("D5"):
        deriv.d5_operator(ctx, "D5")
    if ctx.want("R05a"):
        r05a(ctx)
    # layers the property expressions are built from
    if ctx.want("D1"):
        deriv.d1(ctx, "D1", "intermediate_states", 9)
    if ctx.want("D2"):
        deriv.d2(ctx, "D2", "intermediate_states", 6)
    if ctx.want("R04a"):
        c04.r04a(ctx)
    if ctx.want("R04c"):
        c04.r04c(ctx)
    if ctx.want("R02c"):
        from . import c02
        c02.r02c(ctx)
        c02.taylor_builder(ctx, "R02c", c04.IS + "expand_S_taylor", "-0.5")
    # ground-state layer (wavefunctions, norm factors) every expression is built from
    from . import c02
    if ctx.want("D1"):
        deriv.d1(ctx, "D1", "groundstate", 6)
    if ctx.want("D2"):
        deriv.d2(ctx, "D2", "groundstate", 6)
    if ctx.want("D3"):
        c02.d3_psi(ctx)
        c02.d3_operator(ctx)
    if ctx.want("R02a"):
        c02.r02a(ctx)
