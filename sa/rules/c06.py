"""C06 tensor canonicalisation: decided by abstract evaluation of the constructors and container methods."""
from __future__ import annotations

import itertools
import re

from ..model import AnalysisError
from ..symex import Symex, Obj, ClassRef, Func, Raised, _freeze
from ..terms import T, sym, t_pow, show, args_of, is_num
from . import skeleton as sk
from .skeleton import ExprState, EC

EXPLANATION = (
    "Every clause is decided by evaluating the library source abstractly (sa.symex) on small abstract domains and "
    "comparing the computed value with the behaviour written down in the rule; no clause looks at source text, local "
    "names or statement layout (helpers a function calls are evaluated through). Indices are abstract records (space, "
    "spin, name, dummy id), sympy's singletons 0/1/-1 are integers, Add/Mul/Pow are sum/product/power of terms. "
    "R06a: the bra-ket comparison each tensor class resolves to (_need_bra_ket_swap through the class hierarchy) "
    "evaluated on 1- and 2-index groups over 3 spaces x 3 spins x numbered names: never a swap in both directions, exactly "
    "one direction for different (space, spin, number, letter) keys, none for equal keys, unequal group sizes refused. "
    "R06b (end to end): the constructor each class (AntiSymmetricTensor, Amplitude, SymmetricTensor) resolves to is evaluated "
    "together with the library's sort key and bra-ket comparison for every index tuple of rank (1,1) and (2,2) (thorough: "
    "also (2,1) and (3,3)) over an index pool and bra-ket symmetry 0/+1/-1: all orderings related by the declared "
    "permutational and bra-ket symmetry give the same canonical object with the prescribed relative sign, a repeated "
    "index in an antisymmetric group gives zero and nothing else does, the canonical upper/lower groups are the given "
    "groups (exchanged only under a bra-ket symmetry), so unrelated tuples are never identified. R06c: the constructors "
    "in isolation with the sorting primitive and the comparison modelled (sort parities, swap needed, symmetry 0/+1/-1, "
    "non-Index entries, Pauli violation, invalid symmetry): sign, exchange, zero; the groups are sorted with the canonical "
    "key and the comparison is made on the sorted groups. R06d: KroneckerDelta.eval over all (space, spin)^2 inputs "
    "(zero exactly for two different non-general spaces or two different spins, else canonical argument order, delta(i,i)=1) "
    "and the _eval_power table. R06e: homomorphism of make_real, _apply_tensor_braket_sym, rename_tensor on all four "
    "container levels by evaluation: Expr content = sum over all terms, Term = product over all objects, Polynom = "
    "(sum over all terms) ** exponent with the arguments forwarded and raw values combined, wrappers carry the "
    "assumptions; Obj level as value tables (t-amplitude names lose the complex-conjugate mark and nothing else changes, "
    "rename rebuilds the same class with the same index groups and symmetry, rebuilt values keep the exponent). Calls of "
    "the next lower level are recorded with all arguments bound to parameter names and with the assumptions of the "
    "owning expression at the time of the call on which the raw value depends (verified by differential evaluation). "
    "R06f: the Expr assumption state machine (__init__, make_real, set_sym_tensors, set_antisym_tensors) evaluated on "
    "concrete assumption sets against a reference transition function (real adds fock and eri, the symmetry is applied "
    "with the complete new declaration after it changed, an already real expression is left untouched, non-string names "
    "refused), the decision table of Obj._apply_tensor_braket_sym (class x declared names x present symmetry) and of "
    "AntiSymmetricTensor.add_bra_ket_sym (present x requested symmetry). Contents are compared modulo one law: applying "
    "the declared symmetry for names S after applying it for a subset of S equals applying it for S.")
ASSUMPTIONS = [
    "sympy's _sort_anticommuting_fermions sorts by the given key, returns the number of transpositions and raises "
    "ViolationOfPauliPrinciple on two entries with equal keys; sorted() is stable python sorting",
    "orientation (< vs >) of the bra/ket ordering is deliberately not constrained",
    "value preservation under the declared assumptions is not decided (only that exactly the declared names are "
    "re-canonicalised with the complete declaration at every level)",
    "index tuples are explored up to rank (2,2) over a pool of 5-6 abstract indices (thorough: pool of 8, (2,1) and (3,3) samples)",
    "the diagonal of a bra-ket antisymmetric tensor (upper group == lower group, bra_ket_sym=-1) is mathematically zero; "
    "the constructor keeps it as an object - not counted as a forced zero here (reported separately)",
    "bra-ket partners are only required to be identified when the two groups differ in (space, spin, name) of some "
    "index: for two distinct Index objects with the same name, space and spin (possible because Index is a Dummy) "
    "the comparison has no preference and d^{i}_{i'} / d^{i'}_{i} stay distinct (reported separately)",
    "Expr class invariant used by the reference state machine: the content of an Expr already carries the symmetry of "
    "its current declaration (established by __init__, kept by the in-place operators), `terms` enumerates the summands "
    "of the current content, Term/Obj read the assumptions of the owning Expr when they are called; because of the "
    "invariant re-applying an unchanged declaration is not distinguished from not applying it",
    "whether a content is a plain number is decided once per path for the original content (images of a number under "
    "the container methods are that number)",
]

SO = "sympy_objects"
SPACES = ["occ", "virt", "general"]
SPINS = ["", "a", "b"]
TENSOR_CLASSES = ("AntiSymmetricTensor", "Amplitude", "SymmetricTensor")

_counter = itertools.count(1)


def _ix(space, spin, name, dummy=None, tag=""):
    o = Obj(None, f"{name}{'_' + spin if spin else ''}[{space[0]}]{tag}")
    o.attrs.update(space=space, spin=spin, name=name, dummy_index=next(_counter) if dummy is None else dummy,
                   _classes=("Index", "Dummy", "Symbol"))
    return o


def _name_key(n):
    return (int(n[1:]) if n[1:] else 0, n[0])


def _ikey(s):
    """Independent statement of the canonical key of one index."""
    a = s.attrs
    return (a["space"][0], a["spin"]) + _name_key(a["name"])


def _gkey(t):
    """Key of an index group as the bra-ket comparison sees it: spaces, then spins, then names."""
    return ([s.attrs["space"][0] for s in t], [s.attrs["spin"] for s in t], [_name_key(s.attrs["name"]) for s in t])


# ------------------------------------------------------------------ primitives

def _sort_fermions(sx, a, kw):
    """Model of sympy's bubble sort of anticommuting operators (see ASSUMPTIONS)."""
    seq = list(sx.iterate(a[0], None))
    key = kw.get("key", a[1] if len(a) > 1 else None)
    if key is None:
        raise AnalysisError("R06: _sort_anticommuting_fermions without a key")
    items = [(sx.call_value(key, [x], {}, None), x) for x in seq]
    n = 0
    changed = True
    while changed:
        changed = False
        for k in range(len(items) - 1):
            l, r = items[k][0], items[k + 1][0]
            if _has_term(l) or _has_term(r):
                raise AnalysisError("R06: symbolic sort key")
            if l == r:
                raise Raised("ViolationOfPauliPrinciple")
            if l > r:
                items[k], items[k + 1] = items[k + 1], items[k]
                n += 1
                changed = True
    return ([x for _, x in items], n)


def _has_term(v):
    if isinstance(v, T):
        return True
    if isinstance(v, (tuple, list)):
        return any(_has_term(x) for x in v)
    return False


def _new(sx, a, kw):
    """The object allocation of sympy (``super().__new__(cls, *args)`` / ``Expr.__new__(cls, *args)``)."""
    if a and isinstance(a[0], Obj) and a[0].name == "super":
        a = a[1:]
    return T("new", tuple(_freeze(x) for x in a), tuple(sorted(kw.items())))


def _super(sx, a, kw):
    o = Obj(None, "super")
    o.attrs["__new__"] = _new
    return o


def _symbol(sx, a, kw):
    return a[0] if len(a) == 1 and isinstance(a[0], str) and not kw else NotImplemented


def _tensor_sx(ctx, what, hooks=None):
    hk = {"_sort_anticommuting_fermions": _sort_fermions, "super": _super, "S": sk.S_OBJ,
          "sympify": lambda sx, a, kw: a[0], "type": sk.type_hook, "__new__": _new, "Symbol": _symbol}
    hk.update(hooks or {})
    return Symex(ctx.model, inline=lambda q: True, hooks=hk, what=what)


def _resolve(sx, cls_name, method):
    r = sx.find_method(f"{SO}:{cls_name}", method)
    if r is None:
        raise AnalysisError(f"R06: {cls_name}.{method} does not resolve to a function of the library")
    return r[0]


def _decode_new(v):
    """(sign, class, name, upper tuple, lower tuple, bra_ket_sym) of a constructed tensor, 0 for zero, else None."""
    if v == 0 and not isinstance(v, T):
        return 0
    sign = 1
    if isinstance(v, T) and v.op == "mul" and len(v.args) == 2 and v.args[0] == -1:
        sign, v = -1, v.args[1]
    if isinstance(v, T) and v.op == "call" and isinstance(v.args[0], T) and v.args[0].op == "attr" \
            and v.args[0].args[1] == "__new__":
        v = T("new", v.args[1], v.args[2])          # <BaseClass>.__new__(cls, ...)
    if not (isinstance(v, T) and v.op == "new" and len(v.args[0]) == 5 and not v.args[1]):
        return None
    cls, name, up, lo, bks = v.args[0]
    groups = []
    for g in (up, lo):
        if not (isinstance(g, T) and g.op == "call" and g.args[0] == "Tuple" and not g.args[2]):
            return None
        groups.append(tuple(g.args[1]))
    return (sign, cls, name, groups[0], groups[1], bks)


# ---------------------------------------------------------------------- R06a

def r06a(ctx):
    sx = _tensor_sx(ctx, "_need_bra_ket_swap")
    names = ["i", "j", "i1", "j2"]
    one = [(_ix(sp, s, n),) for sp in SPACES for s in SPINS for n in names]
    two_src = [_ix(sp, s, n) for sp in ("occ", "virt") for s in ("", "a") for n in ("i", "j1")]
    if ctx.tier != "thorough":
        two_src = [x for k, x in enumerate(two_src) if k not in (3, 4)]
    two = [(a, b) for a in two_src for b in two_src]
    done = {}
    for cname in TENSOR_CLASSES:
        fn = _resolve(sx, cname, "_need_bra_ket_swap")
        if id(fn) in done:
            ctx.ok("R06a", fn, f"{cname} shares the bra-ket ordering of {done[id(fn)]}", key=f"shared {cname}")
            continue
        done[id(fn)] = cname
        cls = Obj(f"{SO}:{cname}", cname)

        def swap(u, l):
            outs = sx.run(fn, lambda: dict(cls=cls, upper=list(u), lower=list(l)))
            if len(outs) != 1 or outs[0].kind != "return" or not isinstance(outs[0].value, bool):
                raise AnalysisError(f"R06a: {cname}._need_bra_ket_swap({u}, {l}) -> {outs}")
            return outs[0].value
        n_pairs = 0
        viol = {"both": None, "none": None, "equal": None}
        for group in (one, two):
            res = {(iu, il): swap(u, l) for iu, u in enumerate(group) for il, l in enumerate(group)}
            for iu, u in enumerate(group):
                for il, l in enumerate(group):
                    n_pairs += 1
                    a, b = res[(iu, il)], res[(il, iu)]
                    same = _gkey(u) == _gkey(l)
                    if a and b and viol["both"] is None:
                        viol["both"] = (u, l)
                    if not same and not a and not b and viol["none"] is None:
                        viol["none"] = (u, l)
                    if same and (a or b) and viol["equal"] is None:
                        viol["equal"] = (u, l)
        ctx.check("R06a", fn, viol["both"] is None, f"{cname}: {n_pairs} ordered pairs: never swap in both directions",
                  f"{cname}: swap demanded in both directions for upper/lower = {viol['both']}: the two orderings "
                  "of one tensor get different canonical forms (or oscillate)", key=f"asymmetric {cname}")
        ctx.check("R06a", fn, viol["none"] is None, f"{cname}: distinct keys: exactly one direction swaps",
                  f"{cname}: no direction swaps although keys differ for {viol['none']}: bra-ket partners are not "
                  "identified", key=f"total {cname}")
        ctx.check("R06a", fn, viol["equal"] is None, f"{cname}: equal keys: no swap",
                  f"{cname}: swap demanded for equal keys {viol['equal']}", key=f"irreflexive {cname}")
        outs = sx.run(fn, lambda: dict(cls=cls, upper=[one[0][0]], lower=[]))
        ctx.check("R06a", fn, all(o.kind == "raise" for o in outs), f"{cname}: unequal group sizes refused",
                  f"{cname}: unequal numbers of upper and lower indices are not refused", key=f"len {cname}")


# ---------------------------------------------------------------------- R06b

def _pool(tier):
    p = [_ix("occ", "", "i"), _ix("occ", "", "j"), _ix("virt", "", "a"), _ix("occ", "a", "i"), _ix("general", "", "p"),
         _ix("occ", "", "i1")]
    if tier == "thorough":
        p += [_ix("virt", "b", "a"), _ix("occ", "", "i", tag="#2")]     # a second, distinct dummy named i
    return p


def _perm_sign(src, dst):
    """Parity of the permutation taking the tuple of distinct objects src to dst."""
    pos = [next(k for k, y in enumerate(src) if y is x) for x in dst]
    s = 1
    for a in range(len(pos)):
        for b in range(a + 1, len(pos)):
            if pos[a] > pos[b]:
                s = -s
    return s


def _same_objs(a, b):
    return len(a) == len(b) and all(x is y for x, y in zip(a, b))


def _is_perm(a, b):
    return sorted(map(id, a)) == sorted(map(id, b))


def r06b(ctx):
    rule = "R06b"
    sx = _tensor_sx(ctx, "tensor constructors")
    pool = _pool(ctx.tier)
    by_term = {_freeze(x): x for x in pool}
    thorough = ctx.tier == "thorough"
    seen = {}
    for cname in TENSOR_CLASSES:
        fn = _resolve(sx, cname, "__new__")
        antisym = cname != "SymmetricTensor"
        cls = Obj(f"{SO}:{cname}", cname)
        # a class that resolves to the constructor and comparison of an already explored class computes the same
        # function of (cls, indices): only the small ranks are repeated for it
        impl = (id(fn), id(_resolve(sx, cname, "_need_bra_ket_swap")))
        ranks = [(1, 1)]
        samples = {}
        if impl not in seen or thorough:
            samples[(2, 2)] = pool if thorough else pool[:5]
        else:
            samples[(2, 2)] = pool[:3]
        if thorough:
            ranks.append((2, 1))
            samples[(3, 3)] = pool[:3] + pool[5:6]
        seen[impl] = cname
        n_eval = n_twins = 0
        bad = {}

        def flag(kind, msg):
            bad.setdefault(kind, msg)
        for (nu, nl), bks in itertools.product(ranks + list(samples), (0, 1, -1)):
            if nu != nl and bks != 0:
                continue
            src = samples.get((nu, nl), pool)
            table = {}
            for up in itertools.product(src, repeat=nu):
                for lo in itertools.product(src, repeat=nl):
                    outs = sx.run(fn, lambda: dict(cls=cls, name="X", upper=tuple(up), lower=tuple(lo), bra_ket_sym=bks))
                    n_eval += 1
                    if len(outs) != 1 or outs[0].kind != "return":
                        flag("raises", f"{cname}({list(up)}, {list(lo)}, bra_ket_sym={bks}) -> {outs}")
                        continue
                    d = _decode_new(outs[0].value)
                    if d is None:
                        flag("shape", f"{cname}({list(up)}, {list(lo)}, bra_ket_sym={bks}) gives {show(outs[0].value)[:200]}, "
                             "neither zero nor +-(one tensor object)")
                        continue
                    if d != 0:
                        sign, k, name, cu, cl, b = d
                        try:
                            d = (sign, tuple(by_term[x] for x in cu), tuple(by_term[x] for x in cl), k, name, b)
                        except KeyError:
                            flag("shape", f"{cname}({list(up)}, {list(lo)}, {bks}) contains foreign indices: {show(outs[0].value)[:200]}")
                            continue
                    table[(tuple(map(id, up)), tuple(map(id, lo)))] = (up, lo, d)
            for (ku, kl), (up, lo, d) in table.items():
                what = f"{cname}({list(up)}, {list(lo)}, bra_ket_sym={bks})"
                rep = (antisym and (len(set(ku)) < nu or len(set(kl)) < nl))
                if rep:
                    if d != 0:
                        flag("pauli", f"{what}: repeated index in an antisymmetric group does not give zero")
                    continue
                if d == 0:
                    flag("zero", f"{what} evaluates to zero although the declared symmetry does not force it" +
                         ("" if antisym else " (a symmetric tensor with a repeated index inside a group does not vanish)"))
                    continue
                sign, cu, cl, k, name, b = d
                if k != sym(cname) or name != "X" or b != bks:
                    flag("identity", f"{what} builds class/name/symmetry {show(k)}, {name!r}, {b}")
                # the canonical groups are the given groups, exchanged only under a bra-ket symmetry
                straight = _is_perm(cu, up) and _is_perm(cl, lo)
                swapped = _is_perm(cu, lo) and _is_perm(cl, up)
                if not (straight or (bks != 0 and swapped)):
                    flag("groups", f"{what}: canonical groups {list(cu)} / {list(cl)} are not the given upper/lower groups"
                         + (" (exchanged without a bra-ket symmetry)" if swapped else ""))
                    continue
                # permutations inside the groups
                for pu in itertools.permutations(range(nu)):
                    for pl in itertools.permutations(range(nl)):
                        u2, l2 = tuple(up[x] for x in pu), tuple(lo[x] for x in pl)
                        o2 = table.get((tuple(map(id, u2)), tuple(map(id, l2))))
                        if o2 is None or o2[2] == 0:
                            continue
                        s2, cu2, cl2 = o2[2][:3]
                        if not (_same_objs(cu, cu2) and _same_objs(cl, cl2)):
                            flag("canonical", f"{what} and the reordered {cname}({list(u2)}, {list(l2)}) give different objects "
                                 f"{list(cu)}/{list(cl)} vs {list(cu2)}/{list(cl2)}")
                            continue
                        if len(set(ku)) < nu or len(set(kl)) < nl:
                            want = 1
                        else:
                            want = _perm_sign(up, u2) * _perm_sign(lo, l2) if antisym else 1
                        if s2 * sign != want:
                            flag("sign", f"{what} = {'+' if sign > 0 else '-'}T but {cname}({list(u2)}, {list(l2)}) = "
                                 f"{'+' if s2 > 0 else '-'}T: relative sign {s2 * sign:+d}, the permutation symmetry prescribes {want:+d}")
                # bra-ket partner
                o2 = table.get((kl, ku)) if nu == nl else None
                twins = sorted(map(_ikey, up)) == sorted(map(_ikey, lo)) and not _is_perm(up, lo)
                if twins:
                    n_twins += 1        # distinct indices with equal (space, spin, name): see ASSUMPTIONS
                elif o2 is not None and o2[2] != 0:
                    s2, cu2, cl2 = o2[2][:3]
                    if bks == 0:
                        if _same_objs(cu, cu2) and _same_objs(cl, cl2) and not (_is_perm(up, lo)):
                            flag("identified", f"{what} and {cname}({list(lo)}, {list(up)}) are identified without a bra-ket symmetry")
                    else:
                        if not (_same_objs(cu, cu2) and _same_objs(cl, cl2)):
                            flag("braket", f"{what} and its bra-ket partner {cname}({list(lo)}, {list(up)}) give different objects "
                                 f"{list(cu)}/{list(cl)} vs {list(cu2)}/{list(cl2)}")
                        elif not _is_perm(up, lo) and s2 * sign != bks:
                            flag("braket sign", f"{what} = {'+' if sign > 0 else '-'}T, bra-ket partner {cname}({list(lo)}, "
                                 f"{list(up)}) = {'+' if s2 > 0 else '-'}T: relative sign {s2 * sign:+d}, bra_ket_sym prescribes {bks:+d}")
        for kind, fact in (("raises", "constructors return"), ("shape", "result is zero or +-(one object)"),
                           ("pauli", "repeated index in an antisymmetric group gives zero"),
                           ("zero", "nothing else gives zero"), ("identity", "class, name and symmetry kept"),
                           ("groups", "canonical groups are the given groups (exchanged only under bra-ket symmetry)"),
                           ("canonical", "all orderings inside the groups give one object"),
                           ("sign", "relative sign of reorderings as prescribed"),
                           ("identified", "bra-ket partners stay distinct without symmetry"),
                           ("braket", "bra-ket partners give one object"), ("braket sign", "bra-ket partners differ by bra_ket_sym")):
            ctx.check(rule, fn, kind not in bad, f"{cname}: {fact} ({n_eval} constructions)", bad.get(kind, ""),
                      key=f"{cname} {kind}")
        ctx.floor(rule, f"evaluated constructions of {cname}", n_eval, 100)


# ---------------------------------------------------------------------- R06c

def _new_scenarios(ctx, cls_name, antisym: bool):
    rule = "R06c"
    probe_sx = _tensor_sx(ctx, "sort key")
    canonical = Func(ctx.model.fn("indices:sort_idx_canonical"), [], ctx.model.module("indices"), "sort_idx_canonical")
    probes = [_ix("occ", "", "i"), _ix("virt", "a", "b2"), _ix("general", "b", "p11")]
    fn = _resolve(probe_sx, cls_name, "__new__")
    U0 = (_ix("occ", "", "i"), _ix("occ", "", "j"))
    L0 = (_ix("virt", "", "a"), _ix("virt", "", "b"))
    n = 0
    for sign_u, sign_l, need, bks, all_index in itertools.product((0, 1), (0, 1), (False, True), (0, 1, -1), (True, False)):
        if not antisym and (sign_u or sign_l):
            continue
        foreign = Obj(None, "x")
        foreign.attrs["_classes"] = ("Dummy", "Symbol")
        up = tuple(U0) if all_index else (foreign, U0[0])      # a non-Index entry sorts in front of every Index
        lo = tuple(L0)
        sorted_u = tuple(reversed(up)) if sign_u else up
        sorted_l = tuple(reversed(lo)) if sign_l else lo
        log = {"swap": [], "keys": [], "unknown": []}

        def which(seq, up=up, lo=lo, su=sorted_u, sl=sorted_l):
            seq = tuple(seq)
            if _same_objs(seq, up):
                return su
            if _same_objs(seq, lo):
                return sl
            log["unknown"].append(seq)
            return seq

        def check_key(sx, kw, a):
            key = kw.get("key", a[1] if len(a) > 1 else None)
            if key is None:
                log["keys"].append("no key")
                return
            for p in probes:
                got = sx.call_value(key, [p], {}, None)
                want = sx.call_value(canonical, [p], {}, None)
                if got != want:
                    log["keys"].append(f"key({p}) = {show(_freeze(got))}, sort_idx_canonical gives {show(_freeze(want))}")
                    return

        def sort_fermions(sx, a, kw, sign_u=sign_u, sign_l=sign_l, up=up):
            check_key(sx, kw, a)
            seq = tuple(sx.iterate(a[0], None))
            return (list(which(seq)), sign_u if _same_objs(seq, up) else sign_l)

        def sorted_(sx, a, kw):
            check_key(sx, kw, a)
            return list(which(sx.iterate(a[0], None)))

        def need_swap(sx, a, kw, need=need):
            u, l = (kw["upper"], kw["lower"]) if "upper" in kw and "lower" in kw else \
                (a[-1], kw["lower"]) if "lower" in kw else (a[-2], a[-1])
            log["swap"].append((tuple(sx.iterate(u, None)), tuple(sx.iterate(l, None))))
            return need
        sx = _tensor_sx(ctx, f"{cls_name}.__new__", {"_sort_anticommuting_fermions": sort_fermions, "sorted": sorted_,
                                                     "_need_bra_ket_swap": need_swap})

        def make():
            return dict(cls=Obj(f"{SO}:{cls_name}", cls_name), name="T", upper=up, lower=lo, bra_ket_sym=bks)
        outs = sx.run(fn, make)
        n += 1
        label = (f"parity_u={sign_u} parity_l={sign_l} swap_needed={need} bra_ket_sym={bks} all_Index={all_index}")
        if len(outs) != 1 or outs[0].kind != "return":
            ctx.bad(rule, fn, f"{label}: {outs}", key=label)
            continue
        d = _decode_new(outs[0].value)
        if not d:
            ctx.bad(rule, fn, f"{label}: unexpected result {show(_freeze(outs[0].value))[:200]}", key=label)
            continue
        sign, k, name, r_up, r_lo, r_bks = d
        do_swap = need and bks != 0 and all_index
        w_up, w_lo = (sorted_l, sorted_u) if do_swap else (sorted_u, sorted_l)
        w_neg = ((sign_u + sign_l) % 2 == 1) if antisym else False
        if do_swap and bks == -1:
            w_neg = not w_neg
        why = []
        if (sign < 0) != w_neg:
            why.append(f"sign is {'-' if sign < 0 else '+'}, declared symmetry prescribes {'-' if w_neg else '+'}")
        if r_up != tuple(_freeze(x) for x in w_up) or r_lo != tuple(_freeze(x) for x in w_lo):
            why.append("upper/lower groups are " + ("not " if do_swap else "") + "exchanged or not the sorted groups")
        if r_bks != bks or name != "T":
            why.append(f"name/symmetry stored as {name!r}/{r_bks}")
        if log["keys"]:
            why.append("index groups not sorted with the canonical key: " + log["keys"][0])
        if log["unknown"]:
            why.append(f"a sequence other than the given upper/lower group is sorted: {log['unknown'][0]}")
        if log["swap"] and (do_swap or need):
            su, sl = log["swap"][0]
            if not (_same_objs(su, sorted_u) and _same_objs(sl, sorted_l)):
                why.append("the bra-ket comparison is not made on the sorted groups")
        if bks != 0 and all_index and not log["swap"]:
            why.append("the bra-ket comparison is not consulted")
        ctx.check(rule, fn, not why, f"{label}: sign/swap as prescribed", f"{label}: " + "; ".join(why), key=label)
    # invalid symmetry refused
    ident = {"_sort_anticommuting_fermions": lambda sx, a, kw: (list(sx.iterate(a[0], None)), 0),
             "sorted": lambda sx, a, kw: list(sx.iterate(a[0], None))}
    ident["_need_bra_ket_swap"] = lambda sx_, a, kw: False
    sx = _tensor_sx(ctx, f"{cls_name}.__new__", ident)

    def make2(bks, up):
        return dict(cls=Obj(f"{SO}:{cls_name}", cls_name), name="T", upper=tuple(up), lower=tuple(L0), bra_ket_sym=bks)
    outs = sx.run(fn, lambda: make2(2, U0))
    ctx.check(rule, fn, all(o.kind == "raise" for o in outs), "bra_ket_sym=2 refused", "invalid bra-ket symmetry accepted",
              key="invalid bks")

    # repeated index inside a group: zero for antisymmetric groups, a regular tensor for symmetric ones
    def pauli(sx_, a, kw):
        seq = list(sx_.iterate(a[0], None))
        if len({id(x) for x in seq}) != len(seq):
            raise Raised("ViolationOfPauliPrinciple")
        return (seq, 0)
    sx = _tensor_sx(ctx, f"{cls_name}.__new__", dict(ident, _sort_anticommuting_fermions=pauli))
    outs = sx.run(fn, lambda: make2(0, (U0[0], U0[0])))
    d = _decode_new(outs[0].value) if len(outs) == 1 and outs[0].kind == "return" else None
    if antisym:
        ctx.check(rule, fn, d == 0, "repeated index in an antisymmetric group gives zero",
                  f"Pauli violation gives {outs} instead of zero", key="pauli")
    else:
        ctx.check(rule, fn, bool(d), "repeated index in a symmetric group does not vanish",
                  f"a symmetric tensor with a repeated index inside a group evaluates to {outs}; the declared "
                  "symmetry does not force it to zero", key="symmetric repeated")
    return n


def r06c(ctx):
    sx = _tensor_sx(ctx, "resolve")
    done = {}
    for cname in TENSOR_CLASSES:
        fn = _resolve(sx, cname, "__new__")
        if id(fn) in done:
            ctx.ok("R06c", fn, f"{cname} is constructed by the constructor of {done[id(fn)]}", key=f"shared {cname}")
            continue
        done[id(fn)] = cname
        _new_scenarios(ctx, cname, cname != "SymmetricTensor")


# ---------------------------------------------------------------------- R06d

def _linear_zero(t):
    """True if the linear combination of opaque symbols cancels identically, else None (unknown)."""
    acc = {}
    for s in (t.args if isinstance(t, T) and t.op == "add" else [t]):
        c, x = 1, s
        if isinstance(s, T) and s.op == "mul" and len(s.args) == 2 and is_num(s.args[0]):
            c, x = s.args
        if is_num(x):
            return None
        acc[x] = acc.get(x, 0) + c
    return True if all(v == 0 for v in acc.values()) else None


def r06d(ctx):
    rule = "R06d"

    def attr_hook(sx, obj, attr, node):
        if attr == "is_zero" and isinstance(obj, T):
            return _linear_zero(obj)
        return NotImplemented
    def cls(sx_, a, kw):
        return T("delta", tuple(_freeze(x) for x in a)) if not kw else NotImplemented
    hooks = {"fuzzy_not": lambda sx, a, kw: (None if a[0] is None else not a[0]), "S": sk.S_OBJ, "KroneckerDelta": cls}
    sx = Symex(ctx.model, inline=lambda q: True, hooks=hooks, what="KroneckerDelta.eval", attr_hook=attr_hook)
    fn = ctx.model.fn(f"{SO}:KroneckerDelta.eval")

    def run(i, j):
        outs = sx.run(fn, lambda: dict(cls=cls, i=i, j=j))
        if len(outs) != 1:
            raise AnalysisError(f"R06d: KroneckerDelta.eval({i}, {j}) -> {outs}")
        return outs[0]
    for (s1, p1), (s2, p2) in itertools.product(itertools.product(SPACES, SPINS), repeat=2):
        for n1, n2 in (("p", "q"), ("q2", "p11")):
            i, j = _ix(s1, p1, n1), _ix(s2, p2, n2)
            label = f"({s1[0]}{p1 or 'n'}{n1},{s2[0]}{p2 or 'n'}{n2})"
            o = run(i, j)
            zero = (s1 != "general" and s2 != "general" and s1 != s2) or bool(p1 and p2 and p1 != p2)
            if zero:
                got_ok = o.kind == "return" and o.value == 0 and not isinstance(o.value, (T, bool))
                want = "zero"
            elif _ikey(i) <= _ikey(j):
                got_ok = o.kind == "return" and o.value is None
                want = "kept as given (already canonical)"
            else:
                got_ok = o.kind == "return" and o.value == T("delta", (_freeze(j), _freeze(i)))
                want = "arguments exchanged into canonical order"
            ctx.check(rule, fn, got_ok, f"{label}: {want}",
                      f"{label}: eval gives {o.kind} {show(_freeze(o.value)) if o.kind == 'return' else o.exc}, expected {want}",
                      key=f"eval {label}")
    i = _ix("occ", "", "i")
    o = run(i, i)
    ctx.check(rule, fn, o.kind == "return" and o.value == 1 and not isinstance(o.value, (T, bool)), "same index gives one",
              f"delta(i,i) gives {o}", key="same index")
    # powers: delta**n = delta (n > 0), 1/delta (n < 0, n != -1), untouched otherwise
    pw = ctx.model.fn(f"{SO}:KroneckerDelta._eval_power")
    for pos, neg, minus_one in ((True, False, False), (False, True, False), (False, True, True), (False, False, False)):
        outs = _run_power(ctx, pw, pos, neg, minus_one)
        label = f"exponent positive={pos} negative={neg} is_minus_one={minus_one}"
        if len(outs) != 1 or outs[0].kind != "return":
            ctx.bad(rule, pw, f"_eval_power {label}: {outs}", key=f"power {label}")
            continue
        v = outs[0].value
        if pos:
            ok, want = isinstance(v, Obj) and v.name == "delta", "the delta itself"
        elif neg and not minus_one:
            ok, want = _freeze(v) == t_pow(sym("delta"), -1), "1/delta"
        else:
            ok, want = v is None, "not evaluated"
        ctx.check(rule, pw, ok, f"delta ** ({label}): {want}", f"delta ** ({label}) gives {show(_freeze(v))}, expected {want}",
                  key=f"power {label}")


def _run_power(ctx, pw, pos, neg, minus_one):
    def args():
        e = Obj(None, "exp", is_positive=pos, is_negative=neg)
        s = Obj(None, "S", Zero=0, One=1, NegativeOne=e if minus_one else Obj(None, "S.NegativeOne"))
        args.S = s
        return dict(self=Obj(None, "delta"), exp=e)

    sx = Symex(ctx.model, inline=lambda q: True, what="_eval_power", hooks=sk._arith_hooks())
    proxy = Obj(None, "S")
    sx.hooks["S"] = proxy

    def args2():
        d = args()
        proxy.attrs.clear()
        proxy.attrs.update(args.S.attrs)
        return d
    return sx.run(pw, args2)


# ---------------------------------------------------------------------- R06e / R06f: containers

def _fv(ctx):
    tn = sk.tensor_names_obj(ctx.model)
    return {tn.attrs["fock"], tn.attrs["eri"]}


def _target_hook(sx, a, kw):
    me, val = a[0], (a[1] if len(a) > 1 else kw.get("target_idx"))
    me.attrs["_target_idx"] = None if val is None else T("target", _freeze(val))
    return None


class Ref:
    """Reference transition functions of the Expr assumption state machine (the expected behaviour)."""

    def __init__(self, ctx, sx, o, n):
        self.sx, self.o, self.n = sx, o, n
        self.fv = _fv(ctx)

    def lift(self, st, method, args=None):
        if sk.is_number(self.o, st.expr):
            return
        inner = sk.forwarded(self.sx, "Term", method, args or {})
        st.expr = sk.expr_sum(self.sx, method, st, inner, self.n)

    def apply(self, st):
        self.lift(st, "_apply_tensor_braket_sym")

    def make_real(self, st):
        if st.real:
            return
        st.real = True
        if not self.fv <= st.sym:
            st.sym |= self.fv
            self.apply(st)
        self.lift(st, "make_real")

    def set_sym(self, st, names):
        new = set(names) | (self.fv if st.real else set())
        if new != st.sym:
            st.sym = new
            self.apply(st)

    def set_anti(self, st, names):
        new = set(names)
        if new != st.anti:
            st.anti = new
            self.apply(st)

    def init(self, e, real, sym_tensors, antisym_tensors, target_idx):
        st = ExprState(e, False, sym_tensors or (), antisym_tensors or (), None)
        if target_idx is not None:
            st.target = T("target", _freeze(target_idx))
        if st.sym or st.anti:
            if real:
                st.sym |= self.fv
            self.apply(st)
        if real:
            self.make_real(st)
        return st


def _compare_state(ctx, rule, fn, what, o, me, want, key, returns_self=True):
    if o.kind != "return":
        ctx.bad(rule, fn, f"{what}: raises {o.exc}", key=key)
        return
    got = ExprState.of(me)
    d = ["state destroyed"] if got is None else want.diff(got, N_TERMS)
    ctx.check(rule, fn, not d, f"{what}: state as the reference prescribes ({want.text()[:150]})",
              f"{what}: {', '.join(d)} differ(s): got {got.text() if got else '-'}; expected {want.text()}", key=key)


def _path_tag(o):
    return "".join("1" if p else "0" for _, p in o.path) or "-"


N_TERMS = 2


def _canonical_state(sx, real, sym_tensors, antisym_tensors):
    """An Expr state that satisfies the class invariant: the content carries the declared symmetry already."""
    st = ExprState(sym("E0"), real, sym_tensors, antisym_tensors, None)
    st.expr = sk.canonical_content(sx, st, N_TERMS)
    return st


def expr_machine(ctx):
    """R06f (and the Expr level of R06e): Expr methods against the reference state machine."""
    fv = sorted(_fv(ctx))
    f_, v_ = fv[0], fv[1]
    sx = sk.container_sx(ctx, "Expr state machine", n_terms=N_TERMS, hooks={"Expr.set_target_idx": _target_hook})
    sets = [(), (f_,), (v_,), (f_, v_), ("x",), ("x", f_, v_)]
    # --- make_real
    fn = ctx.model.fn(f"{EC}:Expr.make_real")
    for real, st_, anti in itertools.product((False, True), sets, ((), ("y",))):
        if real and not set(fv) <= set(st_):
            continue           # unreachable state: real expressions always declare fock and eri
        start = _canonical_state(sx, real, st_, anti)
        for o, me in sk.run_method(sx, fn, lambda: (start.obj(), {})):
            want = start.copy()
            Ref(ctx, sx, o, N_TERMS).make_real(want)
            fresh = not real and set(fv) <= set(st_)
            rule = "R06e" if fresh else "R06f"
            what = f"make_real on real={real} sym_tensors={list(st_)} antisym_tensors={list(anti)}"
            _compare_state(ctx, rule, fn, what, o, me, want, key=f"make_real {real} {st_} {anti} {_path_tag(o)}")
            if o.kind == "return":
                ctx.check(rule, fn, o.value is me, f"{what}: returns the expression",
                          f"{what}: returns {show(_freeze(o.value))[:100]}", key=f"make_real returns {real} {st_} {anti} {_path_tag(o)}")
    # --- _apply_tensor_braket_sym
    fn = ctx.model.fn(f"{EC}:Expr._apply_tensor_braket_sym")
    for real, st_, anti in ((False, ("x",), ("y",)), (True, (f_, v_), ()), (False, (), ())):
        start = ExprState(sym("E"), real, st_, anti, None)
        for o, me in sk.run_method(sx, fn, lambda: (start.obj(), {})):
            want = start.copy()
            Ref(ctx, sx, o, N_TERMS).apply(want)
            _compare_state(ctx, "R06e", fn, f"_apply_tensor_braket_sym on sym_tensors={list(st_)} antisym_tensors={list(anti)}",
                           o, me, want, key=f"apply {real} {st_} {anti} {_path_tag(o)}")
    # --- rename_tensor
    fn = ctx.model.fn(f"{EC}:Expr.rename_tensor")
    for real, st_, anti in ((False, ("x",), ("y",)), (True, (f_, v_), ())):
        start = ExprState(sym("E"), real, st_, anti, None)
        for o, me in sk.run_method(sx, fn, lambda: (start.obj(), dict(current="a", new="b"))):
            want = start.copy()
            Ref(ctx, sx, o, N_TERMS).lift(want, "rename_tensor", dict(current="a", new="b"))
            _compare_state(ctx, "R06e", fn, "rename_tensor('a', 'b')", o, me, want, key=f"rename {real} {_path_tag(o)}")
            if o.kind == "return":
                ctx.check("R06e", fn, o.value is me, "rename_tensor returns the expression",
                          f"rename_tensor returns {show(_freeze(o.value))[:100]}", key=f"rename returns {real} {_path_tag(o)}")
    for cur, new in ((1, "b"), ("a", None)):
        start = ExprState(sym("E"), False, (), (), None)
        res = sk.run_method(sx, fn, lambda: (start.obj(), dict(current=cur, new=new)))
        ctx.check("R06e", fn, all(o.kind == "raise" for o, _ in res), "rename_tensor refuses names that are not strings",
                  f"rename_tensor({cur!r}, {new!r}) is accepted", key=f"rename guard {cur!r} {new!r}")
    # --- set_sym_tensors / set_antisym_tensors
    for meth, field in (("set_sym_tensors", "sym"), ("set_antisym_tensors", "anti")):
        fn = ctx.model.fn(f"{EC}:Expr.{meth}")
        param = [a.arg for a in fn.args.args if a.arg != "self"][0]
        for real, cur, names in itertools.product((False, True), sets, ([], ["x"], [f_], ["x", f_, v_], ["z", "x"], [f_, v_])):
            if real and not set(fv) <= set(cur) and field == "sym":
                continue
            st_, anti = (cur, ()) if field == "sym" else ((f_, v_) if real else (), cur)
            start = _canonical_state(sx, real, st_, anti)
            for arg in (list(names), tuple(names)):
                for o, me in sk.run_method(sx, fn, lambda: (start.obj(), {param: arg})):
                    want = start.copy()
                    ref = Ref(ctx, sx, o, N_TERMS)
                    (ref.set_sym if field == "sym" else ref.set_anti)(want, names)
                    _compare_state(ctx, "R06f", fn, f"{meth}({names}) on real={real} sym_tensors={list(st_)} antisym_tensors="
                                   f"{list(anti)}", o, me, want, key=f"{meth} {real} {cur} {names} {type(arg).__name__} {_path_tag(o)}")
        start = ExprState(sym("E"), False, (), (), None)
        res = sk.run_method(sx, fn, lambda: (start.obj(), {param: ["x", 1]}))
        ctx.check("R06f", fn, all(o.kind == "raise" for o, _ in res) and all(ExprState.of(me).same(start, N_TERMS) for _, me in res),
                  f"{meth} refuses names that are not strings", f"{meth}(['x', 1]) is accepted or changes the state",
                  key=f"{meth} guard")
    # --- __init__
    fn = ctx.model.fn(f"{EC}:Expr.__init__")
    for real, st_, anti, tgt, wrapped in itertools.product((False, True), (None, [], ["x"], [f_], ["x", f_, v_]),
                                                           (None, ["y"]), (None, ["i", "a"]), (False, True)):
        if wrapped and (tgt is not None or anti is not None):
            continue

        def make():
            e = sym("E")
            if wrapped:
                e = Obj(None, "container", sympy=sym("E"))
                e.attrs["_classes"] = ("Container", "Expr")
            me = Obj(f"{EC}:Expr", "self")
            return me, dict(e=e, real=real, sym_tensors=None if st_ is None else list(st_),
                            antisym_tensors=None if anti is None else list(anti), target_idx=tgt)
        for o, me in sk.run_method(sx, fn, make):
            want = Ref(ctx, sx, o, N_TERMS).init(sym("E"), real, st_, anti, tgt)
            _compare_state(ctx, "R06f", fn, f"Expr(e, real={real}, sym_tensors={st_}, antisym_tensors={anti}"
                           f"{', target_idx=..' if tgt is not None else ''}{', e wrapped' if wrapped else ''})", o, me, want,
                           key=f"init {real} {st_} {anti} {tgt is not None} {wrapped} {_path_tag(o)}")


# ------------------------------------------------------------------ Obj level

def _classes_of(sx, kind):
    return (kind,) + tuple(sorted(sx._bases(f"{SO}:{kind}")))


def _tensor(sx, kind, name, bks=0, label="base"):
    """Abstract sympy tensor object of class ``kind``."""
    o = Obj(None, label)
    mod = sx.model.module(SO)
    o.attrs.update(name=name, symbol=sym("SYMBOL"), _classes=_classes_of(sx, kind) if kind in mod.classes else (kind,))
    if "AntiSymmetricTensor" in o.attrs["_classes"]:
        o.attrs.update(upper=sym("UPPER"), lower=sym("LOWER"), bra_ket_sym=bks)
        o.attrs["add_bra_ket_sym"] = lambda sx_, a, kw: T("add_bra_ket_sym", _freeze(o), tuple(a), tuple(sorted(kw.items())))
    elif kind == "NonSymmetricTensor":
        o.attrs.update(indices=sym("INDICES"))
    if kind in mod.classes:
        o.attrs["__class__"] = lambda sx_, a, kw: sx_.call_value(ClassRef(mod, kind), list(a), dict(kw), None)
    return o


def _wrap_pow(base, expo):
    if expo == 1 and not isinstance(expo, T):
        return base
    p = Obj(None, "pow")
    p.attrs.update(args=(base, expo), _classes=("Pow",), is_number=False)
    return p


def _container_obj(owner, content):
    return Obj(f"{EC}:Obj", "self", _expr=owner, _term=Obj(None, "term"), _pos=0, _sympy=content, sympy=content)


def _ctor(cls_name, name_, **kw):
    """A constructor call as the evaluator records it (arguments bound by parameter name)."""
    return T("call", cls_name, (), (("name", name_),) + tuple(kw.items()))


def _added_sym(core, base):
    """The symmetry b of a recorded ``base.add_bra_ket_sym(b)``."""
    if not (isinstance(core, T) and core.op == "add_bra_ket_sym" and core.args[0] == base):
        return None
    pos, kw = core.args[1], dict(core.args[2])
    if len(pos) == 1 and not kw:
        return pos[0]
    if not pos and set(kw) == {"bra_ket_sym"}:
        return kw["bra_ket_sym"]
    return None


def _split_pow(v):
    v = _freeze(v) if not isinstance(v, Obj) else v
    if isinstance(v, T) and v.op == "pow":
        return v.args[0], v.args[1]
    return v, 1


KINDS = ("AntiSymmetricTensor", "Amplitude", "SymmetricTensor", "NonSymmetricTensor", "KroneckerDelta")


def _independent(sx, fn, state, cur, make):
    """Premise of the recorded calls (skeleton.DEPENDS), verified by differential evaluation: the raw value of the Obj
    method is the same under assumptions that differ only in what it is declared not to depend on."""
    method = fn.name
    deps = sk.DEPENDS.get(method, sk.ALL_DEPS)
    alt = ExprState(state.expr, state.real if "real" in deps else not state.real,
                    state.sym if "sym_tensors" in deps else set(state.sym) ^ {"x", "q"},
                    state.anti if "antisym_tensors" in deps else set(state.anti) ^ {"y", "r"}, ["k"])
    res = []
    for st in (state, alt):
        cur["state"] = st
        res.append([(o.kind, repr(_freeze(o.value)) if o.kind == "return" else o.exc) for o, _ in sk.run_method(sx, fn, make)])
    cur["state"] = state
    if res[0] != res[1]:
        raise AnalysisError(f"R06e: the raw value of Obj.{method} depends on assumptions other than {list(deps)}: "
                            f"{res[0]} vs {res[1]} (premise of the evaluated skeleton)")


def obj_level(ctx):
    sx = sk.container_sx(ctx, "Obj level")
    tn = sk.tensor_names_obj(ctx.model)
    t = tn.attrs["gs_amplitude"]
    expos = (sym("n"), 1)
    # ---- _apply_tensor_braket_sym: decision table
    fn = ctx.model.fn(f"{EC}:Obj._apply_tensor_braket_sym")
    for kind, name, bks, expo, rs in itertools.product(KINDS, ("x", "y", "z"), (0, 1, -1), expos, (True, False)):
        state = ExprState(sym("E"), False, ("x",), ("y",), None)
        cur = {"state": state}
        is_ast = kind in TENSOR_CLASSES
        if not is_ast and bks != 0:
            continue
        if (name == "x" and bks == -1) or (name == "y" and bks == 1):
            continue        # conflicting declaration: add_bra_ket_sym refuses it (R06f add_bra_ket_sym table)
        made = {}

        def make():
            base = _tensor(sx, kind, name, bks)
            content = _wrap_pow(base, expo)
            made["base"], made["content"] = base, content
            return _container_obj(cur["state"].obj("expr"), content), dict(return_sympy=rs)
        if rs:
            _independent(sx, fn, state, cur, make)
        for o, me in sk.run_method(sx, fn, make):
            label = f"{kind} {name!r} (declared: sym x, antisym y) bra_ket_sym={bks} exponent={show(expo)} {'raw' if rs else 'wrapped'}"
            if o.kind != "return":
                ctx.bad("R06f", fn, f"Obj._apply_tensor_braket_sym on {label}: raises {o.exc}", key=f"obj sym {label}")
                continue
            want_sym = None
            if is_ast and name == "x" and bks != 1:
                want_sym = 1
            elif is_ast and name == "y" and bks != -1:
                want_sym = -1
            v = o.value
            if not rs:
                if not (isinstance(v, T) and v.op == "call" and v.args[0] == "Expr"):
                    ctx.bad("R06e", fn, f"{label}: result not wrapped in Expr: {show(_freeze(v))[:200]}", key=f"obj sym wrap {label}")
                    continue
                okw, why = sk.wrapper_ok(v, args_of(v).get("e"), state)
                ctx.check("R06e", fn, okw, f"{label}: wrapper carries the assumptions", f"{label}: {why}", key=f"obj sym wrap {label}")
                v = args_of(v).get("e")
            core, e = _split_pow(v)
            untouched = _freeze(v) == _freeze(made["content"])
            if want_sym is None:
                ctx.check("R06f", fn, untouched, f"{label}: left untouched",
                          f"{label}: object is changed to {show(_freeze(v))[:200]} although no (new) symmetry is declared for it",
                          key=f"obj sym {label}")
                continue
            got_sym = _added_sym(core, _freeze(made["base"]))
            ctx.check("R06f", fn, got_sym == want_sym, f"{label}: symmetry {want_sym:+d} added to the base",
                      f"{label}: expected the base with bra-ket symmetry {want_sym:+d} added, got "
                      f"{'the untouched object' if untouched else show(_freeze(v))[:200]}", key=f"obj sym {label}")
            if got_sym == want_sym:
                ctx.check("R06e", fn, e == expo, f"{label}: rebuilt value raised to the object's exponent",
                          f"{label}: rebuilt value is raised to {show(e)}, the object's exponent is {show(expo)} (exponent lost)",
                          key=f"obj sym exponent {label}")
    # ---- make_real: value table
    fn = ctx.model.fn(f"{EC}:Obj.make_real")
    names = [f"{t}1cc", f"{t}2cc", f"{t}cc", f"{t}3", t, f"{t}1c", "f", "V", "X", f"{t}x", "cc"]
    for kind, name, bks, expo, rs in itertools.product(("Amplitude", "AntiSymmetricTensor", "NonSymmetricTensor", "KroneckerDelta"),
                                                       names, (0, 1), expos, (True, False)):
        if kind != "Amplitude" and (bks or name != "f"):
            continue        # names of t-amplitudes belong to Amplitude objects
        state = ExprState(sym("E"), False, ("x",), (), None)
        cur = {"state": state}
        made = {}

        def make():
            base = _tensor(sx, kind, name, bks)
            content = _wrap_pow(base, expo)
            made["base"], made["content"] = base, content
            return _container_obj(cur["state"].obj("expr"), content), dict(return_sympy=rs)
        m = re.fullmatch(re.escape(t) + r"(\d*)(c+)", name)
        new = (t + m.group(1)) if (m and kind != "KroneckerDelta") else None
        if rs:
            _independent(sx, fn, state, cur, make)
        for o, me in sk.run_method(sx, fn, make):
            label = f"{kind} {name!r} bra_ket_sym={bks} exponent={show(expo)} {'raw' if rs else 'wrapped'}"
            if o.kind != "return":
                ctx.bad("R06e", fn, f"Obj.make_real on {label}: raises {o.exc}", key=f"obj real {label}")
                continue
            v = o.value
            if not rs:
                if not (isinstance(v, T) and v.op == "call" and v.args[0] == "Expr"):
                    ctx.bad("R06e", fn, f"{label}: result not wrapped in Expr: {show(_freeze(v))[:200]}", key=f"obj real wrap {label}")
                    continue
                okw, why = sk.wrapper_ok(v, args_of(v).get("e"), state, real=True)
                ctx.check("R06e", fn, okw, f"{label}: wrapper carries the assumptions and real=True", f"{label}: {why}",
                          key=f"obj real wrap {label}")
                v = args_of(v).get("e")
            if new is None:
                ctx.check("R06e", fn, _freeze(v) == _freeze(made["content"]), f"{label}: left untouched",
                          f"{label}: object is changed to {show(_freeze(v))[:200]} although it is not a complex conjugate t-amplitude",
                          key=f"obj real {label}")
                continue
            core, e = _split_pow(v)
            want_core = _ctor("Amplitude", name_=new, upper=sym("UPPER"), lower=sym("LOWER"), bra_ket_sym=bks)
            ctx.check("R06e", fn, core == want_core, f"{label}: renamed to {new!r}, same class, index groups and symmetry",
                      f"{label}: expected {show(want_core)} (** exponent), got {show(_freeze(v))[:300]}", key=f"obj real {label}")
            if core == want_core:
                ctx.check("R06e", fn, e == expo, f"{label}: rebuilt value raised to the object's exponent",
                          f"{label}: rebuilt value is raised to {show(e)}, the object's exponent is {show(expo)} (exponent lost)",
                          key=f"obj real exponent {label}")
    # ---- rename_tensor: value table
    fn = ctx.model.fn(f"{EC}:Obj.rename_tensor")
    for kind, name, bks, expo, rs in itertools.product(KINDS, ("a", "c"), (0, -1), expos, (True, False)):
        if kind not in TENSOR_CLASSES and bks:
            continue
        state = ExprState(sym("E"), True, ("V", "f"), ("y",), None)
        cur = {"state": state}
        made = {}

        def make():
            base = _tensor(sx, kind, name, bks)
            content = _wrap_pow(base, expo)
            made["base"], made["content"] = base, content
            return _container_obj(cur["state"].obj("expr"), content), dict(current="a", new="b", return_sympy=rs)
        if rs:
            _independent(sx, fn, state, cur, make)
        for o, me in sk.run_method(sx, fn, make):
            label = f"{kind} {name!r} -> rename('a','b') bra_ket_sym={bks} exponent={show(expo)} {'raw' if rs else 'wrapped'}"
            if o.kind != "return":
                ctx.bad("R06e", fn, f"Obj.rename_tensor on {label}: raises {o.exc}", key=f"obj rename {label}")
                continue
            v = o.value
            if not rs:
                if not (isinstance(v, T) and v.op == "call" and v.args[0] == "Expr"):
                    ctx.bad("R06e", fn, f"{label}: result not wrapped in Expr: {show(_freeze(v))[:200]}", key=f"obj rename wrap {label}")
                    continue
                okw, why = sk.wrapper_ok(v, args_of(v).get("e"), state)
                ctx.check("R06e", fn, okw, f"{label}: wrapper carries the assumptions", f"{label}: {why}", key=f"obj rename wrap {label}")
                v = args_of(v).get("e")
            if name != "a" or kind == "KroneckerDelta":
                ctx.check("R06e", fn, _freeze(v) == _freeze(made["content"]), f"{label}: left untouched",
                          f"{label}: object is changed to {show(_freeze(v))[:200]} although its name is not the one to rename",
                          key=f"obj rename {label}")
                continue
            core, e = _split_pow(v)
            if kind == "NonSymmetricTensor":
                want_core = _ctor(kind, name_="b", indices=sym("INDICES"))
            else:
                want_core = _ctor(kind, name_="b", upper=sym("UPPER"), lower=sym("LOWER"), bra_ket_sym=bks)
            ctx.check("R06e", fn, core == want_core, f"{label}: same class rebuilt with the new name, same indices and symmetry",
                      f"{label}: expected {show(want_core)} (** exponent), got {show(_freeze(v))[:300]}", key=f"obj rename {label}")
            if core == want_core:
                ctx.check("R06e", fn, e == expo, f"{label}: rebuilt value raised to the object's exponent",
                          f"{label}: rebuilt value is raised to {show(e)}, the object's exponent is {show(expo)} (exponent lost)",
                          key=f"obj rename exponent {label}")


def add_bra_ket_sym(ctx):
    """R06f: AntiSymmetricTensor.add_bra_ket_sym(b): same symmetry -> the tensor itself; none set -> the same class
    rebuilt from name and index groups with b; a different one already set -> refused."""
    sx = _tensor_sx(ctx, "add_bra_ket_sym")
    for cname in TENSOR_CLASSES:
        fn = _resolve(sx, cname, "add_bra_ket_sym")
        for cur, req in itertools.product((0, 1, -1), repeat=2):
            def make():
                me = _tensor(sx, cname, "X", cur, label="self")
                me.__dict__["cls"] = f"{SO}:{cname}"
                return dict(self=me, bra_ket_sym=req)
            outs = sx.run(fn, make)
            label = f"{cname} with bra_ket_sym={cur}: add_bra_ket_sym({req})"
            if len(outs) != 1:
                ctx.bad("R06f", fn, f"{label}: {outs}", key=f"abks {cname} {cur} {req}")
                continue
            o = outs[0]
            if cur == req:
                ok, want = o.kind == "return" and isinstance(o.value, Obj) and o.value.name == "self", "the tensor itself"
            elif cur == 0:
                w = _ctor(cname, name_=sym("SYMBOL"), upper=sym("UPPER"), lower=sym("LOWER"), bra_ket_sym=req)
                ok, want = o.kind == "return" and _freeze(o.value) == w, f"rebuilt as {show(w)}"
            else:
                ok, want = o.kind == "raise", "refused (the original index order is lost)"
            ctx.check("R06f", fn, ok, f"{label}: {want}",
                      f"{label}: gives {o.kind} {show(_freeze(o.value)) if o.kind == 'return' else o.exc}, expected {want}",
                      key=f"abks {cname} {cur} {req}")


def r06e(ctx):
    for m, args, real_after in (("make_real", {}, True), ("_apply_tensor_braket_sym", {}, None),
                                ("rename_tensor", dict(current="a", new="b"), None)):
        sk.sx_term_level(ctx, "R06e", m, args, real_after)
        sk.sx_polynom_level(ctx, "R06e", m, args, real_after)


def _floors(ctx):
    for rule, minimum in (("R06a", 4), ("R06c", 40), ("R06d", 100), ("R06e", 300), ("R06f", 400)):
        if ctx.want(rule) and (ctx.only_rule is None or ctx.only_rule == rule):
            ctx.floor(rule, "evaluated scenarios", ctx.per_rule.get(rule, {}).get("obligations", 0), minimum)


def run(ctx):
    _run(ctx)
    _floors(ctx)


def _run(ctx):
    if ctx.want("R06a"):
        r06a(ctx)
    if ctx.want("R06b"):
        r06b(ctx)
    if ctx.want("R06c"):
        r06c(ctx)
    if ctx.want("R06d"):
        r06d(ctx)
    if ctx.want("R06e"):
        r06e(ctx)
    if ctx.want("R06e") or ctx.want("R06f"):
        expr_machine(ctx)
        obj_level(ctx)
    if ctx.want("R06f"):
        add_bra_ket_sym(ctx)
