"""C15 spin integration: the functions are evaluated on small models and compared with brute force."""
from __future__ import annotations

import itertools

from ..model import AnalysisError
from ..symex import Symex, Obj, Raised
from ..terms import T, sym, show, t_pow, t_add, t_mul, expand_products, multiset, multiset_diff, summands, is_num

EXPLANATION = (
    "Every clause is decided by abstract evaluation (sa.symex) of the library function on a finite model and comparison "
    "with an independently written oracle; nothing depends on local names or statement layout. The model: indices are "
    "pairwise distinct records (name, spin); a term is a list of objects, each with its index tuple and its table of "
    "allowed spin blocks (or None); get_symbols returns the record of (name, spin); index replacements on a term "
    "(x.xreplace(dict), x.subs(.., simultaneous=True): at once; x.subs(pairs), x.subs(old, new): one after another; "
    "x.subs(dict): one after another in every order) are applied to the model term with KroneckerDelta's evaluation rule "
    "(a delta between two different non-empty spins is 0, the term is lost) and give the final index map or 0; running into "
    "an index that is still present is marked; order_substitutions is evaluated through; Expr(0, ..) is a zero accumulator "
    "whose assumptions/target indices are recorded. "
    "R15f: integrate_spin on 7 model expressions (30 terms: ERI, deltas, t-amplitudes, an asymmetric block table, "
    "unknown tensors, prefactors, pure numbers, objects that carry an index twice - a block that gives such an index two "
    "spins does not contribute) for every target spin string: the returned sum contains, for every term, "
    "exactly one substituted copy per spin assignment of ALL its indices that agrees with the target spins and gives "
    "every object an allowed block (brute force over 2^n assignments) - none missing, none twice, nothing else; "
    "a pure number is added unwrapped (term.sympy; the Term container is accepted only when no target indices are provided, "
    "Expr.__iadd__ refuses it otherwise), an expression without terms gives the empty accumulator; every scenario is run with "
    "and without provided target indices; accumulators start at 0 with the assumptions of the input and carry the target indices (same names, requested "
    "spins) iff the input had target indices; non-Expr input, spin/target length mismatch, one target index with two "
    "spins, foreign term targets and spatial-orbital input are refused. "
    "R15i: a term with a factor that is a sum, or the square of a sum (a Polynom object: no spin blocks of its own, carries the "
    "indices of its summands) is integrated like its expansion: the model knows for every such term the products of its "
    "expansion ((A+B)*C -> A*C, B*C; (A+B)^2 -> AA, AB, BA, BB; two sums in one term; a summand that is a pure number), "
    "x.expand() on the sympy object of the expression / of a term, on a term (new container) and on an expression (in place) "
    "distributes, Expr(<such a sum>, **assumptions) is a container of these terms with the target indices passed as "
    "target_idx; the result has to consist of exactly the brute-force spin variants of every product of the expansion (so the "
    "spin-forbidden blocks of the tensors inside the sum do not occur), no spin variant of the unexpanded term, and the "
    "caller's container must not be expanded in place (8 terms with sums in 2 of the 7 expressions, all target spins). R15a: the term with two unassigned contracted "
    "indices yields the 4 distinct variants (the variants do not share state). R15b: terms without any object of known "
    "spin blocks are kept (the fold over objects has a neutral element). R15c: Obj.expand_antisym_eri for all 16+1 spin "
    "patterns of <pq||rs>, exponents 1, 2, n, both return modes: [d(sp,sr)d(sq,ss)(pr|qs) - d(sp,ss)d(sq,sr)(ps|qr)]^exponent "
    "with bra-ket symmetric Coulomb tensors of the configured name, sym_tensors extended iff a Coulomb tensor was "
    "produced, non-ERI objects untouched, non-symmetric ERI refused; the expansion is non-zero exactly on the allowed ERI "
    "blocks. R15d: every configurable tensor name of tensor_names.TensorNames (read from the library) has a spin selection "
    "rule in the oracle, derived from what the tensor is: ERI, Coulomb, t-amplitudes, the fock matrix (spin free one particle "
    "operator: aa, bb), orbital energies and denominators (no rule: None or every block); Obj.allowed_spin_blocks / "
    "NormalOrdered.allowed_spin_blocks evaluated for every object kind against the spin-conservation oracle (ERI, "
    "Coulomb, delta, operators, t-amplitudes with 2/4/6 indices, registered and unregistered intermediates, "
    "prefactors). R15e: transform_to_spatial_orbitals with integrate_spin replaced by a model of its result: arguments "
    "forwarded, ERI expansion applied to the integrated expression iff requested and before it is read, unrestricted "
    "result is the integrated expression itself, restricted result = every term once with exactly its beta indices "
    "renamed to the alpha index of the same name all at once (terms with a delta between two beta indices, a chain of "
    "such deltas and a delta on a beta target survive; a renaming that passes through a delta of an alpha and a beta index "
    "loses the term), targets all-alpha, a clash with an existing alpha index refused. "
    "R15g: _has_valid_combination on 1728 three-tensor instances against brute force (answer, and on success a "
    "complete consistent assignment left in `variant`); more than 100 of them can only be solved by undoing a first choice. R15h: allowed_spin_blocks(expr, target) on model expressions "
    "(one term, several terms, chains of deltas, objects with a repeated index, the two expressions that need real backtracking) against brute force over "
    "all spin assignments; RegisteredIntermediate.allowed_spin_blocks = allowed_spin_blocks(definition on the default "
    "indices, default indices).")
ASSUMPTIONS = [
    "models are finite: at most 12 distinct indices per term, objects with up to 6 indices, single-letter index names",
    "the former package-wide sweeps for shallow-copy aliasing (R15a) and unit-less folds (R15b) outside the spin "
    "integration functions were pattern matches on source spelling and are no longer performed; inside integrate_spin, "
    "allowed_spin_blocks and transform_to_spatial_orbitals their consequences are decided by evaluation",
    "simplify is taken to be value preserving (not decided here); sympy's expand is modelled as the distribution of "
    "products over sums of the model terms (like products are not collected: AB and BA of a squared sum stay two terms "
    "of the same value); sums nested inside sums and symbolic exponents of sums are not in the model; "
    "of sympy's subs/xreplace only the "
    "index renaming and the evaluation of Kronecker deltas between different spins are modelled",
    "the operator matrix (tensor_names.operator), the ground state density and the ADC amplitude vectors get no spin blocks "
    "from the library (None = every block); for spin conserving values of these tensors the restricted result over-counts "
    "(mixed blocks are renamed into all-alpha ones). R15d records this as a note and does not decide it (reported)",
    "allowed_spin_blocks(expr, ..) is evaluated only for expressions in which every indexed object has known spin "
    "blocks closed under the global spin flip (its documented domain)",
]

SO = "spatial_orbitals:"
EC = "expr_container:"

ERI = ("aaaa", "abab", "abba", "baab", "baba", "bbbb")
DELTA = ("aa", "bb")


SUM, SUM2 = "sum", "sum**2"


def expand_spec(objs):
    """the products of a term with sums among its factors: [[(label, indices, blocks), ..], ..] (the term itself if
    there is no sum); a squared sum contributes every ordered pair of its summands"""
    out = [[]]
    for lab, ix, bl in objs:
        if bl in (SUM, SUM2):
            alts = [list(a) for a in ix]
            if bl == SUM2:
                alts = [a + b for a in alts for b in alts]
            out = [o + a for o in out for a in alts]
        else:
            out = [o + [(lab, ix, bl)] for o in out]
    return out


def t_blocks(n):
    return tuple("".join(b) for b in itertools.product("ab", repeat=2 * n) if b[:n].count("a") == b[n:].count("a"))


def KEY(o):
    """canonical order of the model indices (model of sort_idx_canonical)"""
    return (o.spin, o.name)


# ---------------------------------------------------------------------------- the model


class World:
    """One evaluation: index records, accumulators created by Expr(..), recorded calls."""

    def __init__(self):
        self.I = {}
        self.accs = {}
        self.log = []
        self.values = {}
        self.rewrapped = 0

    def idx(self, name, spin=""):
        k = (name, spin)
        if k not in self.I:
            o = Obj(None, name + ("_" + spin if spin else ""))
            o.attrs.update(name=name, spin=spin, space="occ" if name in "ijklmno" else "virt", _identity=True)
            self.I[k] = o
        return self.I[k]

    def ix(self, names, spins=None):
        return tuple(self.idx(n, s) for n, s in zip(names, spins or [""] * len(names)))

    def term(self, name, objs, target=()):
        """objs: [(label, index records, blocks | None)]; a factor that is a sum (to a power): (label, [summand, ..], SUM | SUM2)
        with summand = [(label, index records, blocks), ..].  Such a factor is one object (a Polynom) without spin blocks
        that carries the indices of its summands; the term knows its expansion (one model term per product)."""
        expansion = None
        if any(bl in (SUM, SUM2) for _, _, bl in objs):
            expansion = [self.term(f"{name}/{k}", eobjs, target) for k, eobjs in enumerate(expand_spec(objs))]
            objs = [(lab, tuple(sorted({i for alt in ix for _, jx, _ in alt for i in jx}, key=KEY)), None) if bl in (SUM, SUM2)
                    else (lab, ix, bl) for lab, ix, bl in objs]
        os_ = []
        for lab, ix, blocks in objs:
            o = Obj(None, f"{name}.{lab}")
            o.attrs.update(idx=tuple(ix), allowed_spin_blocks=blocks)
            os_.append(o)
        allidx = tuple(i for _, ix, _ in objs for i in ix)
        tg = tuple(sorted(set(target), key=KEY))
        t = Obj(None, name)
        sy = Obj(None, name + ".sympy")
        sy.attrs.update(_objects=[(tuple(ix), blocks is DELTA and len(ix) == 2) for _, ix, blocks in objs])
        sy.attrs.update(_term=t)
        if expansion:
            t.attrs.update(_expansion=expansion)
        t.attrs.update(objects=os_, idx=allidx, target=tg, sympy=sy,
                       contracted=tuple(sorted((i for i in set(allidx) if i not in tg), key=KEY)))
        return t

    def sum_of(self, name, terms):
        """the sympy object of a container: the sum of the sympy objects of its model terms"""
        sy = Obj(None, name)
        sy.attrs.update(_sum=list(terms))
        return sy

    def expr(self, name, terms, assumptions, provided, sympy=None):
        e = Obj(EC + "Expr", name)
        e.attrs.update(terms=list(terms), assumptions=dict(assumptions), provided_target_idx=provided,
                       sympy=sympy if sympy is not None else self.sum_of(name + ".sympy", terms))
        for t in terms:
            t.attrs["_expr"] = e
        return e

    def expansion(self, t):
        """the model terms of the expanded model term ``t`` (products distributed over the sums among its factors);
        a term without a sum is its own expansion"""
        return t.attrs.get("_expansion") or [t]

    # hooks: the vocabulary of the analysed functions
    def hooks(self):
        W = self

        def split(s):
            out = []
            for ch in s:
                if ch.isdigit() and out:
                    out[-1] += ch
                else:
                    out.append(ch)
            return out

        def get_symbols(sx, a, kw):
            ind = a[0] if a else kw.get("indices")
            spins = a[1] if len(a) > 1 else kw.get("spins")
            if isinstance(ind, T) or isinstance(spins, T):
                return NotImplemented
            if isinstance(ind, Obj):
                return [ind]
            if not ind:
                return []
            if all(isinstance(i, Obj) for i in ind):
                return ind
            names = split(ind) if isinstance(ind, str) else list(ind)
            if spins is None:
                spins = [""] * len(names)
            if not all(isinstance(n, str) for n in names) or not isinstance(spins, (str, list, tuple)):
                raise AnalysisError(f"R15: get_symbols({ind!r}, {spins!r}) outside the model")
            if len(spins) != len(names):
                raise Raised("Inputerror")      # as Indices.get_indices does
            return [W.idx(n, s) for n, s in zip(names, spins)]

        def expr_ctor(sx, a, kw):
            init = a[0] if a else kw.get("e")
            opts = {k: v for k, v in kw.items() if k != "e"}
            if isinstance(init, Obj) and ("_sum" in init.attrs or ("_term" in init.attrs and "_origin" not in init.attrs)):
                # a container around the (expanded) sympy object of a model expression / model term: its terms are the
                # model terms of that sum, target indices as passed (Expr.__init__: target_idx)
                W.rewrapped += 1
                return W.expr(f"Expr({init.name})", init.attrs["_sum"] if "_sum" in init.attrs else [init.attrs["_term"]],
                              opts, opts.get("target_idx"), sympy=init)
            o = Obj(None, f"Expr#{len(W.accs)}")
            tg = opts.get("target_idx")
            o.attrs.update(init=init, kw=opts, target=None if tg is None or isinstance(tg, T) else tuple(tg))
            W.accs[o.name] = o
            return o

        def set_target_idx(sx, a, kw):
            v = a[1] if len(a) > 1 else kw.get("target_idx")
            a[0].attrs["target"] = None if v is None else tuple(v)
            a[0].attrs["provided_target_idx"] = a[0].attrs["target"]
            return None

        def pairs_of(m):
            if isinstance(m, dict):
                ps = list(m.items())
            elif isinstance(m, (list, tuple)):
                ps = [tuple(p) for p in m if isinstance(p, (list, tuple)) and len(p) == 2]
                if len(ps) != len(m):
                    return None
            else:
                return None
            return ps if all(isinstance(k, Obj) and isinstance(v, Obj) for k, v in ps) else None

        def subs(sx, a, kw):
            """x.subs(pairs | dict [, simultaneous=True])"""
            recv, m = a[0], a[1] if len(a) > 1 else None
            if not isinstance(recv, Obj) or "_objects" not in recv.attrs:
                return NotImplemented
            if len(a) == 3 and isinstance(a[1], Obj) and isinstance(a[2], Obj):
                m = [(a[1], a[2])]
            ps = pairs_of(m)
            if ps is None:
                return NotImplemented
            simultaneous = kw.get("simultaneous", False)
            if isinstance(simultaneous, T):
                return NotImplemented
            if simultaneous:
                return renamed(W, recv, ps, True)
            if isinstance(m, dict) and len(ps) > 1:
                # sympy applies the entries of a dict one after another in an order of its own
                orders = list(itertools.islice(itertools.permutations(ps), 120))
                res = [renamed(W, recv, list(o), False) for o in orders]
                vals = sorted({repr(W.values[r.name]) for r in res})
                if len(vals) > 1:
                    W.values[res[0].name] = T("subs", recv.attrs.get("_origin", recv).term,
                                              "depends on the order in which sympy applies the entries", tuple(vals))
                return res[0]
            return renamed(W, recv, ps, False)

        def xreplace(sx, a, kw):
            recv, m = a[0], a[1] if len(a) > 1 else kw.get("rule")
            if not isinstance(recv, Obj) or "_objects" not in recv.attrs or not isinstance(m, dict):
                return NotImplemented
            ps = pairs_of(m)
            return NotImplemented if ps is None else renamed(W, recv, ps, True)

        def ident(sx, a, kw):
            return a[0]

        def expand(sx, a, kw):
            """x.expand(): products are distributed over sums.  x: the sympy object of a model expression or of a model
            term, a model term (Term.expand: a new container) or a model expression (Expr.expand: in place)"""
            recv = a[0]
            if not isinstance(recv, Obj) or len(a) > 1 or kw:
                return NotImplemented
            at = recv.attrs
            if "_sum" in at:
                new = [x for t in at["_sum"] for x in W.expansion(t)]
                return recv if len(new) == len(at["_sum"]) else W.sum_of(f"expand({recv.name})", new)
            if "_term" in at and "_origin" not in at:
                new = W.expansion(at["_term"])
                return recv if new == [at["_term"]] else W.sum_of(f"expand({recv.name})", new)
            if "objects" in at and "sympy" in at and "_expr" in at:
                parent = at["_expr"]
                new = W.expansion(recv)
                return W.expr(f"expand({recv.name})", new, parent.attrs["assumptions"], parent.attrs["provided_target_idx"],
                              sympy=at["sympy"] if new == [recv] else None)
            if "terms" in at and "assumptions" in at and isinstance(at.get("sympy"), Obj) and "_sum" in at["sympy"].attrs:
                at["sympy"] = expand(sx, [at["sympy"]], {})
                at["terms"] = list(at["sympy"].attrs["_sum"])
                for t in at["terms"]:
                    t.attrs["_expr"] = recv
                return recv
            return NotImplemented

        def add(sx, a, kw):
            return t_add(*[x.term if isinstance(x, Obj) else x for x in a])

        def mul(sx, a, kw):
            return t_mul(*[x.term if isinstance(x, Obj) else x for x in a])

        def sort_key(sx, a, kw):
            return KEY(a[0]) if isinstance(a[0], Obj) else NotImplemented

        return {"get_symbols": get_symbols, "Expr": expr_ctor, "set_target_idx": set_target_idx, "subs": subs, "xreplace": xreplace,
                "simplify": ident, "sort_idx_canonical": sort_key, "Add": add, "Mul": mul, "expand": expand}


def _dead(objs, cur):
    """KroneckerDelta.eval: a delta between indices of two different (non-empty) spins is 0"""
    return any(is_delta and cur[ix[0]].attrs["spin"] and cur[ix[1]].attrs["spin"] and
               cur[ix[0]].attrs["spin"] != cur[ix[1]].attrs["spin"] for ix, is_delta in objs)


def renamed(W, recv, pairs, simultaneous):
    """The model term ``recv`` after the index replacements ``pairs`` (applied at once, or one after another as sympy's subs
    does), as a record that can be renamed again.  Its value (World.values) is 0 as soon as a delta connects two different
    spins, otherwise subs(term, {index -> final index}); a replacement that runs into an index which is still present
    identifies two indices (marked)."""
    origin = recv.attrs.get("_origin", recv)
    objs = origin.attrs["_objects"]
    cur = dict(recv.attrs.get("_cur") or {i: i for ix, _ in objs for i in ix})
    captured = recv.attrs.get("_captured", False)
    dead = recv.attrs.get("_zero", False) or _dead(objs, cur)
    if not dead and simultaneous:
        m = {}
        for old, new in pairs:
            if m.setdefault(old, new) is not new:
                captured = True
        cur = {o: m.get(c, c) for o, c in cur.items()}
        captured = captured or len(set(cur.values())) != len(cur)
        dead = _dead(objs, cur)
    elif not dead:
        for old, new in pairs:
            present = set(cur.values())
            if old in present and new in present and new is not old:
                captured = True
            cur = {o: (new if c is old else c) for o, c in cur.items()}
            if _dead(objs, cur):
                dead = True
                break
    r = Obj(None, f"$renamed{len(W.values)}")
    r.attrs.update(_origin=origin, _objects=objs, _cur=cur, _captured=captured, _zero=dead)
    final = frozenset((o.name, c.name) for o, c in cur.items() if c is not o)
    W.values[r.name] = 0 if dead else T("subs", origin.term, "identifies two indices", final) if captured else \
        (T("subs", origin.term, final) if final else origin.term)
    return r


def evaluate(ctx, ref, build, what, extra=None, max_paths=64):
    """[(outcome, world)] of the function on the model arguments built by ``build(W)`` (rebuilt for every path)."""
    worlds = []
    sx = Symex(ctx.model, inline=lambda q: True, what=what, max_paths=max_paths,
               attr_hook=lambda sx, obj, attr, node: False if attr == "is_number" else NotImplemented)

    def make():
        W = World()
        worlds.append(W)
        sx.hooks.clear()
        sx.hooks.update(W.hooks())
        if extra:
            sx.hooks.update(extra(W))
        return build(W)
    outs = sx.run(ref, make)
    if len(outs) != len(worlds):
        raise AnalysisError(f"R15({what}): {len(worlds)} evaluations, {len(outs)} outcomes")
    return list(zip(outs, worlds))


def flat(v, W):
    """summands of a returned sum; records become their symbol, renamed terms their value"""
    if isinstance(v, Obj):
        v = v.term
    out = [W.values.get(x.args[0], x) if isinstance(x, T) and x.op == "sym" else x for x in summands(v)]
    return [x for x in out if not (is_num(x) and x == 0)]


def assignments(indices, objs, fixed):
    """brute force: all maps index -> spin that agree with ``fixed`` and give every object an allowed block"""
    names = sorted({i.name for i in indices})
    out = []
    for sp in itertools.product("ab", repeat=len(names)):
        s = dict(zip(names, sp))
        if any(s[n] != v for n, v in fixed.items() if n in s):
            continue
        if all(blocks is None or "".join(s[i.name] for i in ix) in blocks for _, ix, blocks in objs):
            out.append(s)
    return out


def sigma(s):
    return " ".join(f"{n}:{v}" for n, v in sorted(s.items())) or "-"


def subs_key(termname, s):
    return T("subs", sym(termname + ".sympy"), frozenset((n, n + "_" + v) for n, v in s.items()))


def check_accumulators(ctx, rule, fn, what, W, used, assumptions, target, key):
    for nm in used:
        acc = W.accs.get(nm)
        if acc is None:
            ctx.bad(rule, fn, f"{what}: summand {nm} is not an accumulator created by Expr(..)", key=f"{key} foreign {nm}")
            continue
        init = acc.attrs["init"]
        # target_idx among the keywords only presets the target indices (recorded in acc.target, decided below)
        ctx.check(rule, fn, is_num(init) and init == 0 and
                  {k: v for k, v in acc.attrs["kw"].items() if k != "target_idx"} == {k: v for k, v in assumptions.items() if k != "target_idx"},
                  f"{what}: accumulator starts at 0 with the assumptions of the input",
                  f"{what}: accumulator Expr({show(init)}, {acc.attrs['kw']}) instead of Expr(0, {assumptions})", key=f"{key} accumulator")
        got = acc.attrs["target"]
        ctx.check(rule, fn, (None if got is None else tuple(o.name for o in got)) == target,
                  f"{what}: target indices of the result {target}",
                  f"{what}: the result carries the target indices {None if got is None else [o.name for o in got]}, expected "
                  f"{None if target is None else list(target)} (same names, requested spins, set iff the input had target indices)",
                  key=f"{key} target")


# ---------------------------------------------------------------------------- R15f / R15a / R15b


def _families():
    """name -> (target names, [(term, rule, [(label, index names, blocks)])])"""
    X = None
    return {
        "A": ("ia", [
            ("A1", "R15f", [("V", "ijab", ERI), ("f", "jk", X), ("Y", "kb", X)]),
            ("A2", "R15b", [("f", "ij", X), ("Y", "ja", X)]),
            ("A3", "R15f", [("d", "ij", DELTA), ("Y", "ja", X)]),
            ("A4", "R15f", [("d", "ia", DELTA)]),
            ("A5", "R15f", [("t2", "ijab", t_blocks(2)), ("V", "jkbc", ERI), ("Y", "kc", X)]),
            ("A6", "R15f", [("c", "", X), ("X", "ia", X)]),
            ("A7", "R15a", [("d", "bc", X), ("z", "cb", X), ("X", "ia", X)]),
            ("A8", "R15f", [("I", "ij", ("ab",)), ("Y", "ja", X)]),
            ("A9", "R15f", [("d", "ij", DELTA), ("d", "jk", DELTA), ("I", "ik", ("ab", "ba")), ("Y", "ka", X)]),
            ("A10", "R15f", [("V", "ijja", ERI)]),      # an index twice on one object: inconsistent blocks do not contribute
        ]),
        "B": ("", [
            ("B1", "R15f", [("V", "ijab", ERI), ("V", "abij", ERI)]),
            ("B2", "R15f", [("c", "", X)]),
            ("B3", "R15f", [("d", "ij", DELTA), ("f", "ji", X)]),
            ("B4", "R15b", [("f", "ij", X), ("g", "ji", X)]),
            ("B5", "R15f", [("c", "", X), ("V", "ijij", ERI)]),
            ("B6", "R15f", [("I", "ii", ("ab", "ba")), ("f", "jj", X)]),    # no consistent block at all: the term vanishes
            ("B7", "R15f", [("V", "ijij", ERI), ("t2", "ijkk", t_blocks(2)), ("d", "kk", DELTA)]),
        ]),
        "C": ("ijkl", [
            ("C1", "R15f", [("V", "ijab", ERI), ("V", "abkl", ERI)]),
            ("C2", "R15f", [("d", "ik", DELTA), ("d", "jl", DELTA)]),
            ("C3", "R15f", [("t2", "ijab", t_blocks(2)), ("t2", "klab", t_blocks(2))]),
        ]),
        # R15i: factors that are sums (Polynom objects, no spin blocks of their own): integrated like the expansion
        "P": ("ia", [
            ("P1", "R15i", [("S", [[("f", "ij", DELTA)], [("I", "ij", ("ab", "ba"))]], SUM), ("Y", "ja", X)]),
            ("P2", "R15i", [("t2", "ijab", t_blocks(2)), ("S", [[("V", "jkbc", ERI), ("t1", "kc", t_blocks(1))], [("f", "jb", DELTA)]], SUM)]),
            ("P3", "R15i", [("X", "ia", X), ("S", [[("c", "", X)], [("d", "jk", DELTA), ("f", "kj", X)]], SUM)]),
            ("P4", "R15f", [("V", "ijab", ERI), ("Y", "jb", X)]),
            ("P5", "R15i", [("S", [[("d", "ij", DELTA)], [("f", "ij", DELTA)]], SUM), ("S", [[("d", "ja", DELTA)], [("Y", "ja", X)]], SUM)]),
        ]),
        "Q": ("", [
            ("Q1", "R15i", [("S", [[("f", "ij", DELTA)], [("p", "ij", DELTA)]], SUM2)]),       # (f_ij + p_ij)^2
            ("Q2", "R15i", [("S", [[("c", "", X)], [("d", "ij", DELTA), ("f", "ji", X)]], SUM)]),   # c + d_ij f_ji: a number appears
            ("Q3", "R15i", [("c", "", X), ("S", [[("V", "ijab", ERI)], [("t2", "ijab", t_blocks(2))]], SUM2)]),
        ]),
        "Z": ("ia", []),    # no term at all: the result is the empty accumulator with the requested targets
        "D": ("kc", [
            ("D1", "R15a", [("d", "ab", X), ("z", "ba", X), ("t", "ck", t_blocks(1))]),
            ("D2", "R15f", [("t3", "ijkabc", t_blocks(3)), ("V", "ijab", ERI)]),
        ]),
    }


def _mobjs(W, objs):
    return [(lab, [_mobjs(W, alt) for alt in ix], bl) if bl in (SUM, SUM2) else (lab, W.ix(ix), bl) for lab, ix, bl in objs]


def _expanded_family(fam):
    """the terms of the expanded expression: (name, rule, objects without sums, name of the term it comes from)"""
    out = []
    for name, rule, objs in fam:
        prods = expand_spec(objs)
        if any(bl in (SUM, SUM2) for _, _, bl in objs):
            out.extend((f"{name}/{k}", rule, eobjs, name) for k, eobjs in enumerate(prods))
        else:
            out.append((name, rule, objs, name))
    return out


def _build_isr(W, fam, target, spins, provided):
    terms = []
    for name, rule, objs in fam:
        terms.append(W.term(name, _mobjs(W, objs), W.ix(target)))
    tg = W.ix(sorted(set(target))) if provided else None
    # Expr.assumptions carries the provided target indices (key target_idx)
    e = W.expr("expr", terms, {"real": True, "sym_tensors": ("x",), "target_idx": tg}, tg)
    W.input, W.input_state = e, (e.attrs["sympy"], [id(t) for t in terms])
    return dict(expr=e, target_idx=target, target_spin=spins)


def r15f(ctx):
    fn = ctx.model.fn(SO + "integrate_spin")
    n = 0
    for fname, (target, fam) in _families().items():
        all_spins = ["".join(s) for s in itertools.product("ab", repeat=len(target))]
        for spins, provided in itertools.product(all_spins, (True, False)):
            tag = f"{spins}{' with targets' if provided else ''}"
            what = f"integrate_spin(family {fname}, targets {target or '-'} = {spins or '-'}{', target indices provided' if provided else ''})"
            res = evaluate(ctx, fn, lambda W: _build_isr(W, fam, target, spins, provided), what)
            efam = _expanded_family(fam)
            n += len(efam)
            rets = [(o, W) for o, W in res if o.kind == "return"]
            if len(res) != 1 or len(rets) != 1:
                ctx.bad("R15f", fn, f"{what}: the model evaluation does not return on a single path: "
                        f"{[repr(o)[:200] for o, _ in res][:3]}", key=f"{fname} {tag} outcome")
                continue
            o, W = rets[0]
            parts = flat(o.value, W)
            fixed = dict(zip(target, spins))
            left = list(parts)
            for name, rule, objs, parent in efam:
                mobjs = [(lab, W.ix(ix), bl) for lab, ix, bl in objs]
                indices = [i for _, ix, _ in mobjs for i in ix]
                recv = sym(name + ".sympy")
                mine = [p for p in left if isinstance(p, T) and p.op == "subs" and p.args[0] == recv or p in (sym(name), recv)]
                left = [p for p in left if not any(p is q for q in mine)]
                if not indices:
                    # a pure number is kept as it is: the unwrapped number.  The Term container carries the spin-less target
                    # indices of the input; Expr.__iadd__ refuses it (TypeError) when the result carries the targets with spin
                    want = [recv]
                    if not provided:
                        mine = [recv if p == sym(name) else p for p in mine]
                else:
                    want = [subs_key(name, s) for s in assignments(indices, mobjs, fixed)]
                missing, surplus = multiset_diff(multiset(map(repr, mine)), multiset(map(repr, want)))
                why = ""
                if missing or surplus:
                    src = f" (a product of the expansion of term {parent}, which has a sum among its factors)" if parent != name else ""
                    why = (f"{what}: term {name} = {' '.join(lab + '_' + ix for lab, ix, _ in objs)}{src}: {len(want)} spin assignments "
                           f"of its indices are consistent with the target spins and the allowed blocks; the result contains "
                           f"{len(mine)} contributions; missing {len(missing)}: {missing[:2]}; surplus (wrong or repeated) "
                           f"{len(surplus)}: {surplus[:2]}")
                ctx.check(rule, fn, not why, f"{what}: term {name}: exactly the {len(want)} consistent spin assignments, each once",
                          why, key=f"{fname} {tag} {name}")
            for name in sorted({parent for nm, _, _, parent in efam if parent != nm}):
                raw = [p for p in left if isinstance(p, T) and (p.op == "subs" and p.args[0] == sym(name + ".sympy") or
                                                                p in (sym(name), sym(name + ".sympy")))]
                left = [p for p in left if not any(p is q for q in raw)]
                ctx.check("R15i", fn, not raw, f"{what}: term {name} (a sum among its factors) enters only through its expansion",
                          f"{what}: term {name} has a factor that is a sum; the sum is an object without spin blocks of its own, so the "
                          f"term has to be integrated as its expansion (A+B)*C = A*C + B*C; the result contains {len(raw)} spin "
                          f"variant(s) of the unexpanded term, in which the spin-forbidden blocks of the tensors inside the sum occur: "
                          f"{[show(x)[:100] for x in raw[:2]]}", key=f"{fname} {tag} {name} unexpanded")
            if W.input.attrs["sympy"] is not W.input_state[0] or [id(t) for t in W.input.attrs["terms"]] != W.input_state[1]:
                ctx.bad("R15i", fn, f"{what}: the input expression is modified (expanded in place); the caller's container has to be left as it is",
                        key=f"{fname} {tag} input modified")
            accs = [p.args[0] for p in left if isinstance(p, T) and p.op == "sym" and str(p.args[0]).startswith("Expr#")]
            other = [p for p in left if not (isinstance(p, T) and p.op == "sym" and str(p.args[0]).startswith("Expr#"))]
            ctx.check("R15f", fn, not other, f"{what}: nothing but the spin variants of the terms",
                      f"{what}: the result contains summands that are no spin variant of an input term: {[show(x)[:120] for x in other[:3]]}",
                      key=f"{fname} {tag} foreign")
            ctx.check("R15f", fn, len(accs) >= 1, f"{what}: result is an Expr", f"{what}: no Expr accumulator in the result",
                      key=f"{fname} {tag} result")
            want_t = tuple(nm + "_" + s for nm, s in zip(target, spins)) if provided else None
            check_accumulators(ctx, "R15f", fn, what, W, accs, {"real": True, "sym_tensors": ("x",)}, want_t, f"{fname} {tag}")
    ctx.floor("R15f", "terms of the integrate_spin model evaluated", n, 300)
    # input guards
    fam = _families()["A"][1][:3]

    def guard(key, fact, reason, mutate, exc=None):
        def build(W):
            a = _build_isr(W, fam, "ia", "ab", True)
            mutate(W, a)
            return a
        res = evaluate(ctx, fn, build, f"integrate_spin guard {key}")
        ok = bool(res) and all(o.kind == "raise" and (exc is None or o.exc in exc) for o, _ in res)
        ctx.check("R15f", fn, ok, fact, f"{reason}: {[repr(o)[:160] for o, _ in res][:2]}", key=f"guard {key}")

    guard("expr type", "input that is no Expr refused", "integrate_spin accepts an input that is not an Expr",
          lambda W, a: a.update(expr="V"))
    guard("length", "target spins and indices of different length refused", "integrate_spin accepts 2 target indices with 3 spins",
          lambda W, a: a.update(target_spin="abb"))
    guard("two spins", "one target index with two spins refused", "integrate_spin accepts the target index i with alpha and beta spin",
          lambda W, a: (a.update(target_idx="iia", target_spin="aba"),
                        [t.attrs.update(target=tuple(sorted(W.ix("ia"), key=KEY))) for t in a["expr"].terms]))
    guard("term target", "terms with other target indices refused", "integrate_spin accepts a term whose target indices differ from the requested ones",
          lambda W, a: a["expr"].terms[1].attrs.update(target=tuple(sorted(W.ix("ja"), key=KEY))))

    def spatial(W, a):
        t = a["expr"].terms[1]
        ja = W.idx("j", "a")
        t.attrs.update(idx=tuple(ja if i is W.idx("j") else i for i in t.attrs["idx"]))
        for ob in t.attrs["objects"]:
            ob.attrs.update(idx=tuple(ja if i is W.idx("j") else i for i in ob.attrs["idx"]))
    guard("spatial input", "input that already carries spins refused",
          "integrate_spin accepts a term in which an index already has a spin", spatial)


# ---------------------------------------------------------------------------- R15e


def _integrated(W, clash=False):
    """model of the result of integrate_spin for targets i a / spins a b"""
    ia, ja, jb, kb, ab, ba, bb, ca = (W.idx(n, s) for n, s in ("ia", "ja", "jb", "kb", "ab", "ba", "bb", "ca"))
    terms = [
        W.term("T1", [("X", (ia, ab), None), ("V", (ia, ja, ba, ca), ERI), ("Y", (ja, ba, ca), None)], (ia, ab)),
        W.term("T2", [("V", (ia, jb, ca, bb), ERI), ("Y", (jb, ca, bb, ab), None)], (ia, ab)),
        W.term("T3", [("c", (), None)], ()),
        # deltas: between two beta indices (renaming one after the other passes through a delta of two spins, which is 0),
        # a chain of them, and a delta of two spins (that term is 0 before and after the renaming)
        W.term("T4", [("X", (ia, ab), None), ("d", (jb, kb), DELTA)], (ia, ab)),
        W.term("T6", [("X", (ia, ab), None), ("d", (jb, kb), DELTA), ("d", (kb, bb), DELTA), ("Y", (jb, bb), None)], (ia, ab)),
        W.term("T7", [("X", (ia, ab), None), ("d", (jb, ca), DELTA), ("Y", (jb, ca), None)], (ia, ab)),
        W.term("T8", [("d", (ia, ja), DELTA), ("d", (ab, bb), DELTA), ("e", (bb,), None)], (ia, ab)),
    ]
    if clash:
        terms.append(W.term("T5", [("f", (ja, jb), None), ("X", (ia, ab), None)], (ia, ab)))
    e = W.expr("integrated", terms, {"real": True, "sym_tensors": ("x",)}, (ia, ab))
    return e


def r15e(ctx):
    rule = "R15e"
    fn = ctx.model.fn(SO + "transform_to_spatial_orbitals")
    n = 0
    for restricted, expand, provided, clash in itertools.product((False, True), (False, True), (True, False), (False, True)):
        if clash and not restricted:
            continue
        what = f"transform_to_spatial_orbitals(restricted={restricted}, expand_eri={expand}{', clash' if clash else ''})"

        def extra(W):
            def integrate_spin(sx, a, kw):
                W.log.append(("integrate_spin", tuple(a), dict(kw)))
                W.ie = _integrated(W, clash)
                if not provided:
                    W.ie.attrs["provided_target_idx"] = None
                return W.ie

            def expand_antisym_eri(sx, a, kw):
                W.log.append(("expand_antisym_eri", a[0]))
                if a[0] is getattr(W, "ie", None):
                    # in place: the terms and the assumptions of the expression change
                    a[0].attrs["terms"] = [W.term(t.name + "x", [(str(i), ob.attrs["idx"], ob.attrs["allowed_spin_blocks"])
                                                                 for i, ob in enumerate(t.attrs["objects"])], t.attrs["target"])
                                           for t in a[0].attrs["terms"]]
                    a[0].attrs["assumptions"] = {"real": True, "sym_tensors": ("x", "v")}
                return a[0]

            def expand(sx, a, kw):
                W.log.append(("expand", a[0]))
                return a[0]
            return {"integrate_spin": integrate_spin, "expand_antisym_eri": expand_antisym_eri, "expand": expand}

        def build(W):
            W.input = W.expr("expr", [], {"real": True}, None)
            return dict(expr=W.input, target_idx="ia", target_spin="ab", restricted=restricted, expand_eri=expand)
        res = evaluate(ctx, fn, build, what, extra)
        n += 1
        if clash:
            ctx.check(rule, fn, bool(res) and all(o.kind == "raise" for o, _ in res),
                      "beta index whose alpha partner is already in the term => refused",
                      f"{what}: a term holds j(alpha) and j(beta); renaming j(beta) -> j(alpha) merges two different indices but is "
                      f"not refused: {[repr(o)[:160] for o, _ in res][:2]}", key=f"clash guard {expand}")
            continue
        if len(res) != 1 or res[0][0].kind != "return":
            ctx.bad(rule, fn, f"{what}: no single returning path: {[repr(o)[:200] for o, _ in res][:3]}", key=f"outcome {restricted} {expand}")
            continue
        o, W = res[0]
        calls = [c for c in W.log if c[0] == "integrate_spin"]
        ok = len(calls) == 1
        if ok:
            a, kw = calls[0][1], calls[0][2]
            b = {**dict(zip(("expr", "target_idx", "target_spin"), a)), **kw}
            ok = b.get("expr") is W.input and b.get("target_idx") == "ia" and b.get("target_spin") == "ab" and len(b) == 3
        ctx.check(rule, fn, ok, "expression, targets and spins forwarded to integrate_spin once",
                  f"{what}: integrate_spin called {len(calls)} time(s) with {[(c[1], c[2]) for c in calls][:1]}", key=f"forward {restricted} {expand}")
        if not ok:
            continue
        exp = [c for c in W.log if c[0] == "expand_antisym_eri"]
        ok = ctx.check(rule, fn, [c[1] for c in exp] == ([W.ie] if expand else []),
                  "antisymmetric ERI of the integrated expression expanded iff requested",
                  f"{what}: expand_antisym_eri applied {len(exp)} time(s) to {[getattr(c[1], 'name', c[1]) for c in exp]}; expected "
                  f"{'once to the integrated expression' if expand else 'not at all'}", key=f"expand flag {restricted} {expand}")
        if not ok:
            continue
        if not restricted:
            ctx.check(rule, fn, o.value is W.ie, "unrestricted: the integrated expression is returned",
                      f"{what}: returns {show(o.value)[:200]} instead of the integrated expression", key=f"unrestricted {expand} {provided}")
            continue
        terms = W.ie.attrs["terms"]
        sfx = "x" if expand else ""
        if [t.name for t in terms] != [f"T{k}{sfx}" for k in (1, 2, 3, 4, 6, 7, 8)]:
            raise AnalysisError(f"R15e: model terms {[t.name for t in terms]}")
        want = []
        for t in terms:
            beta = {i.name: i.name[:-1] + "a" for i in t.attrs["idx"] if i.attrs["spin"] == "b"}
            if any(bl is DELTA and len({i.attrs["spin"] for i in ob.attrs["idx"]}) == 2
                   for ob in t.attrs["objects"] for bl in [ob.attrs["allowed_spin_blocks"]]):
                continue    # a delta between an alpha and a beta index: the term is 0 before and after the renaming
            want.append(T("subs", sym(t.name + ".sympy"), frozenset(beta.items())) if beta else sym(t.name + ".sympy"))
        parts = flat(o.value, W)
        accs = [p.args[0] for p in parts if isinstance(p, T) and p.op == "sym" and str(p.args[0]).startswith("Expr#")]
        got = [p for p in parts if not (isinstance(p, T) and p.op == "sym" and str(p.args[0]).startswith("Expr#"))]
        missing, surplus = multiset_diff(multiset(map(repr, got)), multiset(map(repr, want)))
        ctx.check(rule, fn, not missing and not surplus,
                  "restricted: every term once, exactly its beta indices renamed to the alpha index of the same name, all at once",
                  f"{what}: expected the {len(want)} non-zero terms of the {'expanded ' if expand else ''}integrated expression with all "
                  "beta indices renamed to alpha at once (a term is lost when the renaming passes through a Kronecker delta between an "
                  "alpha and a beta index, which evaluates to 0); "
                  f"missing {missing[:2]}; surplus {surplus[:2]}", key=f"restricted terms {expand} {provided}")
        ctx.check(rule, fn, len(accs) >= 1, "restricted: result is an Expr", f"{what}: no Expr accumulator in the result",
                  key=f"restricted result {expand} {provided}")
        check_accumulators(ctx, rule, fn, what, W, accs, W.ie.attrs["assumptions"], ("i_a", "a_a") if provided else None,
                           f"restricted {expand} {provided}")
    ctx.floor(rule, "scenarios of transform_to_spatial_orbitals", n, 12)


# ---------------------------------------------------------------------------- R15c


# what every configurable tensor name stands for -> spin selection rule of the tensor (None: no rule, every block allowed);
# "open": the property requires the rule, the library does not implement it (reported, not decided - see ASSUMPTIONS)
MEANING = {
    "eri": ("eri", (4,), False), "coulomb": ("coulomb", (4,), False), "fock": ("one-particle", (2,), False),
    "operator": ("one-particle", (2,), True), "gs_density": ("one-particle", (2,), True),
    "gs_amplitude": ("t", (2, 4, 6), False), "left_adc_amplitude": ("t", (2, 4), True), "right_adc_amplitude": ("t", (2, 4), True),
    "orb_energy": (None, (1,), False), "sym_orb_denom": (None, (2, 4), False),
}


def tensor_name_fields(model):
    """field -> default name of the library's TensorNames"""
    import ast
    cls = model.cls("tensor_names:TensorNames")
    out = {}
    for st in cls.body:
        if isinstance(st, ast.AnnAssign) and isinstance(st.target, ast.Name) and isinstance(st.value, ast.Constant) \
                and isinstance(st.value.value, str):
            out[st.target.id] = st.value.value
    if len(out) < 8:
        raise AnalysisError(f"R15d: only {len(out)} tensor names found in tensor_names.TensorNames")
    return out


_NAMES = {}


def _tensor_hooks(W):
    def tensor(cls):
        def h(sx, a, kw):
            b = {**dict(zip(("name", "upper", "lower", "bra_ket_sym"), a)), **kw}
            up, lo = b.get("upper"), b.get("lower")
            if not isinstance(up, (tuple, list)) or not isinstance(lo, (tuple, list)):
                return NotImplemented
            up, lo = frozenset(i.name for i in up), frozenset(i.name for i in lo)
            s = b.get("bra_ket_sym", 0)
            return T("tensor", cls, b.get("name"), frozenset((up, lo)) if s == 1 else (up, lo), s, len(b["upper"]), len(b["lower"]))
        return h

    def power(sx, a, kw):
        b, e = a
        return t_pow(b.term if isinstance(b, Obj) else b, e)
    names = Obj(None, "tensor_names")
    names.attrs.update(eri="V", coulomb="v", gs_amplitude="t", fock="f", sym_orb_denom="D", orb_energy="e", gs_density="p")
    names.attrs.update(_NAMES)
    S = Obj(None, "S")
    S.attrs.update(Zero=0, One=1, NegativeOne=-1)
    return {"SymmetricTensor": tensor("SymmetricTensor"), "AntiSymmetricTensor": tensor("AntiSymmetricTensor"), "Pow": power,
            "tensor_names": names, "S": S}


def _coulomb(x, y):
    return T("tensor", "SymmetricTensor", "v", frozenset((frozenset(i.name for i in x), frozenset(i.name for i in y))), 1, 2, 2)


def _poly(t):
    """normal form of base**exponent results: (sorted products of the base, exponent)"""
    e = 1
    if isinstance(t, T) and t.op == "pow":
        t, e = t.args
    prods = sorted((c, tuple(sorted(map(repr, fs)))) for c, fs in expand_products(t))
    if not prods:
        return ((), 1) if e != 0 else t
    return (tuple(prods), e)


def r15c(ctx):
    rule = "R15c"
    fn = ctx.model.fn(EC + "Obj.expand_antisym_eri")
    n = 0
    nonzero = set()
    patterns = ["".join(s) for s in itertools.product("ab", repeat=4)] + [""]
    for spins, exponent, ret in itertools.product(patterns, (1, 2, sym("n")), (True, False)):
        what = f"<pq||rs> spins {spins or 'none'}, exponent {show(exponent)}, return_sympy={ret}"

        def build(W, name="V", bks=1):
            p, q, r, s = W.ix("pqrs", spins or None)
            base = Obj(None, "base")
            base.attrs.update(name=name, idx=(p, q, r, s), upper=(p, q), lower=(r, s), bra_ket_sym=bks,
                              _classes=("AntiSymmetricTensor", "SymbolicTensor"))
            me = Obj(EC + "Obj", "self")
            me.attrs.update(name=name, idx=(p, q, r, s), bra_ket_sym=bks, exponent=exponent, base=base,
                            base_and_exponent=(base, exponent), sympy=t_pow(base.term, exponent),
                            assumptions={"real": True, "sym_tensors": ("x",), "antisym_tensors": ()})
            W.me = me
            return dict(self=me, return_sympy=ret)
        res = evaluate(ctx, fn, build, "expand_antisym_eri", _tensor_hooks)
        if len(res) != 1 or res[0][0].kind != "return":
            ctx.bad(rule, fn, f"{what}: no single returning path: {[repr(o)[:200] for o, _ in res][:3]}", key=f"outcome {spins} {show(exponent)} {ret}")
            continue
        o, W = res[0]
        p, q, r, s = W.ix("pqrs", spins or None)
        sp = spins or "    "
        want = []
        if sp[0] == sp[2] and sp[1] == sp[3]:
            want.append((1, (repr(_coulomb((p, r), (q, s))),)))
        if sp[0] == sp[3] and sp[1] == sp[2]:
            want.append((-1, (repr(_coulomb((p, s), (q, r))),)))
        want_nf = (tuple(sorted(want)), exponent) if want else ((), 1)
        v = o.value
        acc = None
        if not ret:
            acc = v if isinstance(v, Obj) and v.name in W.accs else None
            v = acc.attrs["init"] if acc is not None else None
        got_nf = _poly(v) if v is not None else None
        n += 1
        if got_nf == want_nf:
            ctx.ok(rule, fn, f"{what}: [d(sp,sr)d(sq,ss)(pr|qs) - d(sp,ss)d(sq,sr)(ps|qr)]^exponent", key=f"value {spins} {show(exponent)} {ret}")
        else:
            gb, ge = got_nf if isinstance(got_nf, tuple) else ((), None)
            if gb == want_nf[0]:
                why = f"the expansion is raised to the exponent {show(ge)} instead of {show(want_nf[1])} (exponent of the object lost or applied twice)"
            elif sorted(x[1] for x in gb) == sorted(x[1] for x in want_nf[0]):
                why = "a Coulomb term enters with the wrong sign or prefactor"
            else:
                why = ("the Coulomb terms differ from (pr|qs) [needs spin(p)=spin(r), spin(q)=spin(s)] - (ps|qr) [needs spin(p)=spin(s), "
                       "spin(q)=spin(r)] as bra-ket symmetric tensors of the configured Coulomb name")
            ctx.bad(rule, fn, f"{what}: {why}; got {show(v)[:300]}", key=f"value {spins} {show(exponent)} {ret}")
        if got_nf is not None and isinstance(got_nf, tuple) and got_nf[0]:
            nonzero.add(spins)
        if not ret:
            kw = acc.attrs["kw"] if acc is not None else None
            want_kw = {"real": True, "sym_tensors": ("x", "v") if want else ("x",), "antisym_tensors": ()}
            ok = kw is not None and {k: (tuple(sorted(x)) if k == "sym_tensors" else x) for k, x in kw.items()} == \
                {k: (tuple(sorted(x)) if k == "sym_tensors" else x) for k, x in want_kw.items()}
            ctx.check(rule, fn, ok, f"{what}: Expr with the Coulomb name among sym_tensors iff a Coulomb tensor was produced",
                      f"{what}: result is wrapped as Expr(.., {kw}), expected the assumptions {want_kw}", key=f"assumptions {spins} {show(exponent)}")
    ctx.floor(rule, "decision table rows of expand_antisym_eri", n, 100)
    # consistency with the block tables: non-zero exactly on the allowed ERI blocks, produced tensors in allowed Coulomb blocks
    ctx.check(rule, fn, nonzero - {""} == set(ERI), "expansion non-zero exactly on the allowed ERI spin blocks",
              f"the expansion is non-zero on {sorted(nonzero - {''})}, the allowed ERI blocks are {sorted(ERI)}", key="eri blocks")

    # other objects are untouched; ERI without bra-ket symmetry is refused
    def other(name, bks):
        def build(W):
            p, q, r, s = W.ix("pqrs")
            base = Obj(None, "base")
            base.attrs.update(name=name, idx=(p, q, r, s), upper=(p, q), lower=(r, s), bra_ket_sym=bks,
                              _classes=("AntiSymmetricTensor", "SymbolicTensor"))
            me = Obj(EC + "Obj", "self")
            me.attrs.update(name=name, idx=(p, q, r, s), bra_ket_sym=bks, exponent=2, base=base, base_and_exponent=(base, 2),
                            sympy=t_pow(base.term, 2), assumptions={"real": True, "sym_tensors": ("x",)})
            return dict(self=me, return_sympy=True)
        return evaluate(ctx, fn, build, "expand_antisym_eri", _tensor_hooks)
    for name in ("f", "v", "t2"):
        res = other(name, 1)
        ok = len(res) == 1 and res[0][0].kind == "return" and res[0][0].value == t_pow(sym("base"), 2)
        ctx.check(rule, fn, ok, f"tensor {name}: returned unchanged with its exponent",
                  f"expand_antisym_eri changes the tensor {name}^2, which is not the antisymmetric ERI: {[repr(o)[:160] for o, _ in res][:2]}",
                  key=f"untouched {name}")
    for bks in (0, -1):
        res = other("V", bks)
        ctx.check(rule, fn, bool(res) and all(o.kind == "raise" for o, _ in res), f"ERI with bra-ket symmetry {bks} refused",
                  f"an antisymmetric ERI with bra-ket symmetry {bks} (complex orbitals) is expanded into bra-ket symmetric Coulomb integrals",
                  key=f"real only {bks}")


# ---------------------------------------------------------------------------- R15d


def _conserving(kind, b):
    if kind == "eri":       # <pq||rs>
        return (b[0] == b[2] and b[1] == b[3]) or (b[0] == b[3] and b[1] == b[2])
    if kind == "coulomb":   # (pq|rs)
        return b[0] == b[1] and b[2] == b[3]
    if kind == "delta":
        return b[0] == b[1]
    if kind == "operator":
        return True
    if kind == "t":         # same number of alpha in both halves
        h = len(b) // 2
        return b[:h].count("a") == b[h:].count("a")
    raise AnalysisError(kind)


def r15d(ctx):
    rule = "R15d"
    fn = ctx.model.fn(EC + "Obj.allowed_spin_blocks")
    AST = ("AntiSymmetricTensor", "SymbolicTensor")
    cases = [
        # key, tensor name, classes of the base, number of indices, oracle kind | explicit expectation
        ("eri", "V", AST, 4, "eri"),
        ("coulomb", "v", ("SymmetricTensor",) + AST, 4, "coulomb"),
        ("t 2", "t1", ("Amplitude",) + AST, 2, "t"),
        ("t 4", "t2", ("Amplitude",) + AST, 4, "t"),
        ("t 6", "t3cc", ("Amplitude",) + AST, 6, "t"),
        ("delta", None, ("KroneckerDelta",), 2, "delta"),
        ("operator F", None, ("F", "AnnihilateFermion", "FermionicOperator"), 1, "operator"),
        ("operator Fd", None, ("Fd", "CreateFermion", "FermionicOperator"), 1, "operator"),
        ("itmd", "I1", AST, 2, ("ab", "ba")),
        ("itmd nonsym", "I2n", ("NonSymmetricTensor", "SymbolicTensor"), 3, ("aab",)),
        ("unknown", "U", AST, 2, None),
        ("prefactor", None, ("Rational",), 0, None),
        ("t odd", "t2", ("Amplitude",) + AST, 3, "raise"),
    ]
    fields = tensor_name_fields(ctx.model)
    unknown = sorted(set(fields) - set(MEANING))
    ctx.check(rule, fn, not unknown, "every configurable tensor name has a spin selection rule in the oracle",
              f"tensor names {unknown} of tensor_names.TensorNames have no entry in the oracle of spin selection rules", key="names covered")
    open_cases = set()
    for field, (kind, sizes, is_open) in MEANING.items():
        if field not in fields or field in ("eri", "coulomb", "gs_amplitude"):
            continue    # the rows above decide these (the t-amplitude names carry an order)
        for nidx in sizes:
            key = f"{field} {nidx}"
            cases.append((key, fields[field], ("NonSymmetricTensor", "SymbolicTensor") if nidx == 1 else AST, nidx,
                          {"one-particle": "delta", "t": "t", None: "all"}[kind]))
            if is_open:
                open_cases.add(key)
    for key, name, classes, nidx, kind in cases:
        def extra(W):
            reg = Obj(None, "Intermediates()")
            known = {}
            for nm, bl in (("I1", ("ab", "ba")), ("I2n", ("aab",))):
                it = Obj(None, "itmd " + nm)
                it.attrs.update(allowed_spin_blocks=bl, _identity=True)
                known["long-" + nm] = it
            reg.attrs.update(available=known)
            h = _tensor_hooks(W)
            h.update({"Intermediates": lambda sx, a, kw: reg, "longname": lambda sx, a, kw: "long-" + str(a[0].attrs["name"]),
                      "is_t_amplitude": lambda sx, a, kw: isinstance(a[0], str) and a[0].rstrip("c").lstrip("t").isdigit() and a[0][0] == "t"})
            return h

        def build(W):
            ix = W.ix("pqrstu"[:nidx])
            base = Obj(None, "base")
            base.attrs.update(name=name, idx=ix, _classes=classes, is_number=(nidx == 0 and name is None))
            me = Obj(EC + "Obj", "self")
            me.attrs.update(name=name, idx=ix, base=base, sympy=base, exponent=1, base_and_exponent=(base, 1),
                            is_t_amplitude=bool(name and name.startswith("t")))
            return dict(self=me)
        res = evaluate(ctx, fn, build, f"Obj.allowed_spin_blocks({key})", extra)
        if kind == "raise":
            ctx.check(rule, fn, bool(res) and all(o.kind == "raise" for o, _ in res), "t-amplitude with an odd number of indices refused",
                      f"a t-amplitude with 3 indices gets spin blocks: {[repr(o)[:160] for o, _ in res][:2]}", key="t odd")
            continue
        if len(res) != 1 or res[0][0].kind != "return":
            ctx.bad(rule, fn, f"{key}: no single returning path: {[repr(o)[:200] for o, _ in res][:3]}", key=f"outcome {key}")
            continue
        v = res[0][0].value
        if kind == "all" or (key in open_cases and v is None):
            # no selection rule: None (= every block) or the full table
            full = sorted("".join(b) for b in itertools.product("ab", repeat=nidx))
            if kind == "all":
                ctx.check(rule, fn, v is None or (isinstance(v, (tuple, list)) and sorted(v) == full), f"{key}: every block allowed",
                          f"{key} ({name}, {nidx} indices) has no spin selection rule, but only the blocks {show(v)[:200]} are allowed",
                          key=f"blocks {key}")
            else:
                ctx.note(f"R15d: {key} (tensor {name}): the library allows every spin block (None); a spin-free one-particle quantity / "
                         "spin conserving amplitude vanishes on the other blocks, which the restricted branch renames into non-vanishing "
                         "ones - reported, not decided")
            continue
        if isinstance(kind, str):
            want = sorted("".join(b) for b in itertools.product("ab", repeat=nidx) if _conserving(kind, b))
        else:
            want = None if kind is None else sorted(kind)
        got = sorted(v) if isinstance(v, (tuple, list)) and all(isinstance(x, str) for x in v) else v
        ctx.check(rule, fn, got == want, f"{key}: blocks {want}",
                  f"allowed spin blocks of {key} ({nidx} indices) are {show(got)[:300]}; "
                  f"{'spin conservation gives' if isinstance(kind, str) else 'expected'} {want}", key=f"blocks {key}")
        if isinstance(v, (tuple, list)):
            ctx.check(rule, fn, len(v) == len(set(v)), f"{key}: no duplicate block", f"{key}: duplicate spin block listed", key=f"dups {key}")
    no = ctx.model.fn(EC + "NormalOrdered.allowed_spin_blocks")
    for tables in ((("a", "b"),), (("a", "b"), ("a", "b")), (("a", "b"), ("a",), ("b", "a"))):
        def build(W):
            obs = []
            for k, tb in enumerate(tables):
                ob = Obj(None, f"op{k}")
                ob.attrs.update(allowed_spin_blocks=tb)
                obs.append(ob)
            me = Obj(EC + "NormalOrdered", "self")
            me.attrs.update(objects=obs)
            return dict(self=me)
        res = evaluate(ctx, no, build, "NormalOrdered.allowed_spin_blocks")
        v = res[0][0].value if len(res) == 1 and res[0][0].kind == "return" else None
        want = sorted("".join(b) for b in itertools.product(*tables))
        ctx.check(rule, no, isinstance(v, (tuple, list)) and sorted(v) == want, f"NO of {len(tables)} operators: product of the operator blocks",
                  f"NormalOrdered spin blocks for operator blocks {tables} are {show(v)[:200]}, expected {want}", key=f"blocks NO {len(tables)}")


# ---------------------------------------------------------------------------- R15g


def r15g(ctx):
    """_has_valid_combination on 3 tensors over the index pairs (x,y),(y,z),(x,z), each with two admissible spin
    blocks: answer == brute force, variant complete and consistent on success."""
    rule = "R15g"
    fn = ctx.model.fn(SO + "_has_valid_combination")
    supports = [("x", "y"), ("y", "z"), ("x", "z")]
    blocks = ["aa", "ab", "ba", "bb"]
    pairs = [(b1, b2) for b1 in blocks for b2 in blocks if b1 != b2]
    W = World()
    sx = Symex(ctx.model, inline=lambda q: True, what="_has_valid_combination", max_paths=8)
    n = bad = n_back = 0
    for choice in itertools.product(pairs, repeat=3):
        box = {}

        def make():
            maps = []
            for sup, bl in zip(supports, choice):
                lst = []
                for b in bl:
                    m = {"a": set(), "b": set()}
                    for sp, name in zip(b, sup):
                        m[sp].add(W.idx(name))
                    lst.append(m)
                maps.append(lst)
            box["variant"] = {"a": set(), "b": set()}
            return dict(tensor_idx_maps=maps, current_pos=0, variant=box["variant"])
        outs = sx.run(fn, make)
        n += 1
        want = any(all(len({sp for t, k in enumerate(sel) for sp, nm in zip(choice[t][k], supports[t]) if nm == name}) <= 1
                       for name in "xyz") for sel in itertools.product(range(2), repeat=3))
        variant = box["variant"]
        # does the instance need backtracking? (taking the first compatible block of every tensor without ever undoing a
        # choice runs into a dead end although a consistent assignment exists)
        spin, greedy = {}, True
        for t in range(3):
            for k in range(2):
                if all(spin.get(nm, sp) == sp for sp, nm in zip(choice[t][k], supports[t])):
                    spin.update({nm: sp for sp, nm in zip(choice[t][k], supports[t])})
                    break
            else:
                greedy = False
                break
        n_back += want and not greedy
        good = len(outs) == 1 and outs[0].kind == "return" and isinstance(outs[0].value, bool) and outs[0].value == want
        if good and want:
            good = not (variant["a"] & variant["b"]) and len(variant["a"] | variant["b"]) == 3
        if not good:
            bad += 1
            if bad <= 3:
                ctx.bad(rule, fn, f"blocks {choice}: search answers {[repr(o)[:80] for o in outs]} (assignment "
                        f"{sorted(i.name for i in variant['a'])}|{sorted(i.name for i in variant['b'])}), a consistent spin assignment "
                        f"{'exists' if want else 'does not exist'}: choices that dead-end are not reverted correctly",
                        key=f"search {choice}")
        else:
            ctx.ok(rule, fn, f"blocks {choice}: {want}", key=f"search {choice}")
    ctx.floor(rule, "search instances", n, 1000)
    ctx.floor(rule, "search instances in which a first choice has to be undone", n_back, 100)


# ---------------------------------------------------------------------------- R15h


def r15h(ctx):
    """allowed_spin_blocks(expr, target) against brute force (expressions whose indexed objects all have flip-closed tables)."""
    rule = "R15h"
    fn = ctx.model.fn(SO + "allowed_spin_blocks")
    X = None
    exprs = {
        "t2": ("ijab", [[("V", "ijab", ERI), ("c", "", X)]]),
        "chain": ("ia", [[("d", "ij", DELTA), ("d", "jb", DELTA), ("d", "ba", DELTA)]]),
        "two terms": ("ijab", [[("d", "ia", DELTA), ("d", "jb", DELTA)], [("d", "ib", DELTA), ("d", "ja", DELTA)]]),
        "backtrack": ("ialdme", [[("t3", "ijkabc", t_blocks(3)), ("V", "jlbd", ERI), ("V", "kmce", ERI)]]),
        "backtrack deltas": ("ialdme", [[("t3", "ijkabc", t_blocks(3)), ("d", "jl", DELTA), ("d", "bd", DELTA), ("d", "km", DELTA),
                                        ("d", "ce", DELTA)]]),
        "t2 V": ("ia", [[("t2", "ijab", t_blocks(2)), ("V", "jkbc", ERI), ("t1", "kc", t_blocks(1))]]),
        "scalar": ("", [[("V", "ijab", ERI), ("t2", "ijab", t_blocks(2))]]),
        "repeated index": ("", [[("c", "", X), ("V", "ijij", ERI)]]),
        "repeated index, targets": ("ia", [[("V", "ijja", ERI)], [("t2", "ijab", t_blocks(2)), ("V", "jkbk", ERI), ("d", "jb", DELTA)]]),
        "repeated index, no block": ("ia", [[("I", "jj", ("ab", "ba")), ("d", "ia", DELTA)]]),
    }
    for key, (target, terms) in exprs.items():
        def build(W):
            ts = [W.term(f"{key}.{k}", [(lab, W.ix(ix), bl) for lab, ix, bl in objs], W.ix(target)) for k, objs in enumerate(terms)]
            return dict(expr=W.expr("expr", ts, {"real": True}, None), target_idx=target)
        res = evaluate(ctx, fn, build, f"allowed_spin_blocks({key})")
        W = World()
        want = set()
        for objs in terms:
            mobjs = [(lab, W.ix(ix), bl) for lab, ix, bl in objs]
            for s in assignments([i for _, ix, _ in mobjs for i in ix], mobjs, {}):
                want.add("".join(s[n] for n in target))
        want = sorted(want)
        v = res[0][0].value if len(res) == 1 and res[0][0].kind == "return" else None
        got = sorted(v) if isinstance(v, (tuple, list)) else None
        ctx.check(rule, fn, got == want and len(v) == len(set(v)), f"{key}: the {len(want)} non-zero spin blocks of the targets {target or '-'}",
                  f"allowed_spin_blocks({key}; targets {target}): reported {got if got is not None else [repr(o)[:200] for o, _ in res][:2]}; "
                  f"a consistent spin assignment of all indices exists exactly for {want}; "
                  f"not reported: {sorted(set(want) - set(got or ()))[:6]}, wrongly reported: {sorted(set(got or ()) - set(want))[:6]}",
                  key=f"blocks {key}")
    # guards

    def guard(key, fact, reason, mutate):
        def build(W):
            t = W.term("g", [("d", W.ix("ij"), DELTA), ("d", W.ix("ja"), DELTA)], W.ix("ia"))
            a = dict(expr=W.expr("expr", [t], {"real": True}, None), target_idx="ia")
            mutate(W, a)
            return a
        res = evaluate(ctx, fn, build, f"allowed_spin_blocks guard {key}")
        ctx.check(rule, fn, bool(res) and all(o.kind == "raise" for o, _ in res), fact,
                  f"{reason}: {[repr(o)[:160] for o, _ in res][:2]}", key=f"guard {key}")
    guard("expr type", "input that is no Expr refused", "allowed_spin_blocks accepts an input that is not an Expr", lambda W, a: a.update(expr="V"))
    guard("term target", "terms with other target indices refused", "allowed_spin_blocks accepts a term whose target indices differ from the requested ones",
          lambda W, a: a["expr"].terms[0].attrs.update(target=tuple(sorted(W.ix("ja"), key=KEY))))


def r15h_itmd(ctx):
    rule = "R15h"
    fn = ctx.model.fn("intermediates:RegisteredIntermediate.allowed_spin_blocks")

    def extra(W):
        def expand_itmd(sx, a, kw):
            b = {**dict(zip(("self", "indices", "return_sympy", "fully_expand"), a)), **kw}
            W.log.append(("expand_itmd", b))
            W.definition = W.expr("definition", [], {"real": True}, None)
            return W.definition

        def blocks(sx, a, kw):
            b = {**dict(zip(("expr", "target_idx"), a)), **kw}
            W.log.append(("allowed_spin_blocks", b))
            return ("marker",)
        return {"expand_itmd": expand_itmd, "allowed_spin_blocks": blocks, "expand": lambda sx, a, kw: a[0]}

    def build(W):
        me = Obj("intermediates:RegisteredIntermediate", "self")
        me.attrs.update(default_idx="ijab", name="X", order=2)
        return dict(self=me)
    res = evaluate(ctx, fn, build, "RegisteredIntermediate.allowed_spin_blocks", extra)
    ok = len(res) == 1 and res[0][0].kind == "return" and res[0][0].value == ("marker",)
    if ok:
        W = res[0][1]
        ex = [b for k, b in W.log if k == "expand_itmd"]
        bl = [b for k, b in W.log if k == "allowed_spin_blocks"]
        ok = len(ex) == 1 and len(bl) == 1 and ex[0].get("indices") == "ijab" and bl[0].get("expr") is W.definition \
            and bl[0].get("target_idx") == "ijab"
    ctx.check(rule, fn, ok, "blocks of an intermediate = blocks of its definition on the default indices, targets = default indices",
              f"RegisteredIntermediate.allowed_spin_blocks is not allowed_spin_blocks(expand_itmd(default_idx), default_idx): "
              f"{[repr(o)[:200] for o, _ in res][:2]} calls {[(k, {x: (getattr(y, 'name', y)) for x, y in b.items() if x != 'self'}) for k, b in (res[0][1].log if res else [])]}",
              key="itmd blocks")


def run(ctx):
    _NAMES.clear()
    _NAMES.update(tensor_name_fields(ctx.model))
    if ctx.want("R15g"):
        r15g(ctx)
    if ctx.want("R15f") or ctx.want("R15a") or ctx.want("R15b") or ctx.want("R15i"):
        r15f(ctx)
    if ctx.want("R15c"):
        r15c(ctx)
    if ctx.want("R15d"):
        r15d(ctx)
    if ctx.want("R15e"):
        r15e(ctx)
    if ctx.want("R15h"):
        r15h(ctx)
        r15h_itmd(ctx)
