"""
order_substitutions: the ordered substitution list differs from the
simultaneous substitution if the index map changes the spin (or space) of
indices that sit on a common KroneckerDelta.
Run from the worktree root: /venv/bin/python hunt_out/1/demo.py
"""
import sys
sys.path.insert(0, ".")
from sympy import S  # noqa E402
from adcgen.indices import get_symbols, order_substitutions  # noqa E402
from adcgen.sympy_objects import (  # noqa E402
    KroneckerDelta, NonSymmetricTensor, AntiSymmetricTensor
)

ia, ja, aa, ba = get_symbols("ijab", "aaaa")
ib, jb, ab, bb = get_symbols("ijab", "bbbb")
i, j, a, b = get_symbols("ijab")

X = lambda *idx: NonSymmetricTensor("X", idx)  # noqa E731

cases = [
    # (description, expression, index map, expected simultaneous result)
    ("alpha -> beta (spin flip of a whole term)",
     KroneckerDelta(ia, ja) * X(ia, ja),
     {ia: ib, ja: jb},
     KroneckerDelta(ib, jb) * X(ib, jb)),
    ("alpha -> beta, ERI + deltas (bbbb block from the aaaa block)",
     KroneckerDelta(ia, ja) * KroneckerDelta(aa, ba)
     * AntiSymmetricTensor("V", (ia, aa), (ja, ba)),
     {ia: ib, ja: jb, aa: ab, ba: bb},
     KroneckerDelta(ib, jb) * KroneckerDelta(ab, bb)
     * AntiSymmetricTensor("V", (ib, ab), (jb, bb))),
    ("occ -> virt",
     KroneckerDelta(i, j) * X(i, j),
     {i: a, j: b},
     KroneckerDelta(a, b) * X(a, b)),
    ("one index gains a spin, the other one looses its spin",
     KroneckerDelta(j, ia) * X(j, ia),
     {j: jb, ia: i},
     KroneckerDelta(jb, i) * X(jb, i)),
]

failed = False
for descr, expr, index_map, expected in cases:
    assert expected is not S.Zero
    sub = order_substitutions(index_map)
    res = expr.subs(sub)
    ok = (res - expected) is S.Zero
    print(f"{descr}\n  expr     : {expr}\n  map      : {index_map}\n"
          f"  ordered  : {sub}\n  result   : {res}\n  expected : {expected}"
          f"\n  -> {'ok' if ok else 'DIFFERS'}")
    failed |= not ok

# control: maps that stay within space and spin work
ctrl = (KroneckerDelta(ia, ja) * X(ia, ja)).subs(
    order_substitutions({ia: ja, ja: ia}))
assert (ctrl - KroneckerDelta(ia, ja) * X(ja, ia)) is S.Zero

sys.exit(1 if failed else 0)
