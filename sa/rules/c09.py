"""C09 Kronecker-delta evaluation, decided by evaluating the code on a finite orbital model."""
from __future__ import annotations

import itertools
from fractions import Fraction

from ..model import AnalysisError
from ..symex import Symex, Atom
from ..terms import T

EXPLANATION = (
    "func.evaluate_deltas, KroneckerDelta.preferred_and_killable and indices_contain_equal_information are evaluated "
    "by sa.symex (helpers inlined, nothing read off the source text) on concrete abstract terms: products and sums "
    "of formal tensors, numbers and Kronecker deltas over indices that carry (space, spin) in {occ,virt,general} x "
    "{none,alpha,beta}; the sympy primitives (atoms, subs/xreplace, func/Add/Mul, KroneckerDelta evaluation, "
    "get_symbols) are modelled by the rule. The expected behaviour is stated independently on an orbital model "
    "with two orbitals per (occ|virt, alpha|beta) class: dom(index) = orbitals compatible with its space and spin, "
    "info(x) >= info(y) iff dom(x) is a subset of dom(y), a delta is 1 on equal orbitals and 0 otherwise, a term "
    "is the polynomial in formal tensor elements obtained by summing all non-target indices over their domains. "
    "R09a: every substitution performed during the evaluation replaces an index that is not a target by the other "
    "index of a delta of the current term, and the replacement carries at least the information of the removed "
    "index; a delta whose indices carry incomparable information is passed over without an exception. "
    "R09b: decision tables of preferred_and_killable / indices_contain_equal_information over all 81 (space,spin)^2 "
    "inputs: a returned pair consists of the two indices with info(kept) >= info(removed), None is returned only "
    "for incomparable information, equal information is equality of space and spin. "
    "R09c: for every scenario (single deltas, chains and stars of up to three deltas, a contracted index shared by two deltas whose partners are targets, spectators, numeric prefactors, sums, non-products; both "
    "argument orders of every delta, both factor orders; targets by the summation convention = indices on exactly "
    "one factor, or explicit as Index list / single Index / name string) without vanishing deltas (the precondition of the "
    "property - every contracted index sits on a non-delta factor - is not needed) the returned expression has the same polynomial value for every assignment "
    "of the target indices, and it is in normal form: no remaining delta could still be evaluated without "
    "removing a target or losing information (stale deltas after a substitution, targets lost in the recursion or "
    "in the Add branch, wrong target determination all show up here). The domain includes contracted indices that "
    "sit on deltas only: a delta whose two indices are contracted and occur on no other factor has to stay (its sum "
    "is the dimension of the common space), which the value comparison decides. "
    "R09d (callers): func.wicks is evaluated on operator strings Fd/F over occ/virt/general indices times tensors "
    "with the contraction code inlined, once without and once with simplify_kronecker_deltas: both results have the "
    "same value for every assignment of the target indices of the input (indices on a single object of the operator "
    "string), and no substitution removes such an index (the general-general contraction delta_pq delta_qi puts a "
    "target on two deltas). Obj.diagonalize_fock is evaluated for all (space,spin)^2 fock elements and target sets: "
    "the returned substitution and diagonal element remove a contracted index only, without loss of information.")
ASSUMPTIONS = [
    "sympy's subs/xreplace replace every occurrence of the removed index; Mul/Add rebuild as modelled (delta of "
    "identical indices = 1, of incompatible indices = 0, equal deltas merge, single factor products collapse)",
    "scenarios are bounded: at most 4 indices and 3 deltas per term, orbital model with 2 orbitals per class; "
    "equality of the polynomial values on this model stands for equality of the expressions",
    "deltas keep the argument order produced by the substitution (sympy would re-sort them canonically); the "
    "property is required for both orders",
    "termination/confluence of the recursion for longer chains follow from the per-step rules but are not proved",
    "a bare delta (not a product) is returned untouched by design; the normal form is required of products only",
    "callers that rely on the summation convention and are not evaluated here (intermediate_states: precursor/overlap/"
    "s_root projections, SecularMatrix.mvp_block_order, simplify_unitary without provided targets) hand over products "
    "of wicks(..., simplify_kronecker_deltas=True) results and tensors in which every target index sits on an occ/virt "
    "excitation operator or a single tensor, hence on at most one delta; this is not decided",
    "wicks: strings of 2 and 4 operators, spin-less indices (contractions of spin indices are refused by the library)",
]

FN = "func:evaluate_deltas"
KD = "sympy_objects:KroneckerDelta"
PK = "preferred_and_killable"
EQ = "indices_contain_equal_information"

SPACES = ("occ", "virt", "general")
SPINS = ("", "a", "b")
TYPES = [(s, p) for s in SPACES for p in SPINS]
ORBITALS = [(s, p, n) for s in ("occ", "virt") for p in ("a", "b") for n in (0, 1)]

IDX_CLS = ("Index", "Dummy", "Symbol", "AtomicExpr", "Atom", "Expr", "Basic")
DELTA_CLS = ("KroneckerDelta", "Function", "Application", "Expr", "Basic")
TENSOR_CLS = ("AntiSymmetricTensor", "TensorSymbol", "Expr", "Basic")
NUM_CLS = ("Number", "Rational", "AtomicExpr", "Atom", "Expr", "Basic")


# ------------------------------------------------------------------ the orbital model (expected behaviour)

def dom(i):
    return frozenset(o for o in ORBITALS if i.space in ("general", o[0]) and i.spin in ("", o[1]))


def geq(x, y):
    """info(x) >= info(y): x is at least as restricted as y."""
    return dom(x) <= dom(y)


def tlabel(t):
    return f"{t[0][0]}{t[1] or 'n'}"


def ilabel(i):
    return f"{i.name}:{tlabel((i.space, i.spin))}"


def kind(x):
    return x.attrs.get("kind") if isinstance(x, Atom) else None


class Algebra:
    """Concrete abstract terms + the models of the sympy primitives the code under analysis uses."""

    def __init__(self):
        self.log = []       # (term before, removed index, replacement) per substitution
        self.names = {}     # name -> index atom (spin-less ones are what get_symbols(str) returns)
        self.zero = self._atom(None, "0", kind="num", value=Fraction(0), indices=(), args=(), _classes=NUM_CLS + ("Zero", "Integer"))
        self.one = self._atom(None, "1", kind="num", value=Fraction(1), indices=(), args=(), _classes=NUM_CLS + ("One", "Integer"))
        self.neg_one = self._atom(None, "-1", kind="num", value=Fraction(-1), indices=(), args=(), _classes=NUM_CLS + ("NegativeOne", "Integer"))
        self.fresh = 0

    def binop(self, sx, op, a, b, node):
        """Arithmetic of the model values (``*``, ``+``, ``-`` as sympy builds products and sums)."""
        import ast as _ast
        ok = lambda v: kind(v) is not None or (isinstance(v, (int, Fraction)) and not isinstance(v, bool))
        if not (ok(a) and ok(b)):
            return NotImplemented
        if isinstance(op, _ast.Mult):
            return self.mul([a, b])
        if isinstance(op, _ast.Add):
            return self.add([a, b])
        if isinstance(op, _ast.Sub):
            return self.add([a, self.mul([-1, b])])
        return NotImplemented

    def op(self, which, i):
        """Second-quantised operator Fd(i) / F(i) (non commutative factor)."""
        base = ("CreateFermion", "Creator") if which == "Fd" else ("AnnihilateFermion", "Annihilator")
        return self._atom(None, f"{which}({i.name})", kind="op", opk=which, args=(i,), state=i, indices=(i,), is_commutative=False,
                          _classes=(which,) + base + ("FermionicOperator", "SqOperator", "Expr", "Basic"))

    def expand(self, e):
        k = kind(e)
        if k == "add":
            return self.add([self.expand(t) for t in e.args])
        if k == "mul":
            acc = [[]]
            for f in e.args:
                f = self.expand(f)
                parts = list(f.args) if kind(f) == "add" else [f]
                acc = [x + [q] for x in acc for q in parts]
            return self.add([self.mul(x) for x in acc])
        return e

    def _atom(self, cls, name, **attrs):
        a = Atom(cls, name)
        a.attrs.update(attrs)
        k = attrs.get("kind")
        a.attrs.setdefault("is_commutative", True)
        a.attrs["$binop"] = self.binop
        # sympy's class flags (an alternative spelling of the isinstance tests)
        a.attrs.update(_scalar=True, is_Add=k == "add", is_Mul=k == "mul", is_Number=k == "num", is_Symbol=k == "index",
                       is_Atom=k in ("num", "index"), is_Pow=False, is_Function=k == "delta")
        if k is not None and k != "index":
            a.attrs["free_symbols"] = set(Algebra.indices_of(None, a))
        return a

    # ---- constructors
    def index(self, name, space, spin):
        a = self._atom("indices:Index", name + ("_" + spin if spin else ""), kind="index", space=space, spin=spin,
                       _classes=IDX_CLS, args=())
        a.attrs["name"] = name
        a.attrs["indices"] = (a,)
        a.attrs["free_symbols"] = {a}
        self.names[(name, spin)] = a
        return a

    def tensor(self, name, idx):
        idx = tuple(idx)
        return self._atom(None, f"{name}({','.join(i.name for i in idx)})", kind="tensor", tname=name, indices=idx, args=idx,
                          _classes=TENSOR_CLS)

    def num(self, v):
        v = Fraction(v)
        if v == 0:
            return self.zero
        if v == 1:
            return self.one
        if v == -1:
            return self.neg_one
        return self._atom(None, str(v), kind="num", value=v, indices=(), args=(), _classes=NUM_CLS)

    def delta(self, x, y, evaluate=True):
        if evaluate:
            if x is y:
                return self.one
            if not (dom(x) & dom(y)):
                return self.zero
        return self._atom(KD, f"delta({x.name},{y.name})", kind="delta", args=(x, y), indices=(x, y), _classes=DELTA_CLS)

    def mul(self, factors):
        coeff, rest, seen = Fraction(1), [], set()
        stack = list(factors)[::-1]
        while stack:
            f = stack.pop()
            if isinstance(f, (int, Fraction)) and not isinstance(f, bool):
                f = self.num(f)
            k = kind(f)
            if k == "mul":
                stack.extend(f.args[::-1])
            elif k == "num":
                coeff *= f.value
            elif k == "delta":
                key = frozenset(f.args)
                if key not in seen:     # delta**2 = delta
                    seen.add(key)
                    rest.append(f)
            elif k in ("tensor", "add", "index", "op"):
                rest.append(f)
            else:
                raise AnalysisError(f"C09 model: product of an unmodelled factor {f!r}")
        if coeff == 0:
            return self.zero
        if coeff != 1:
            rest.insert(0, self.num(coeff))
        if not rest:
            return self.one
        if len(rest) == 1:
            return rest[0]
        return self._atom(None, "*".join(r.name for r in rest), kind="mul", args=tuple(rest), _classes=("Mul", "Expr", "Basic"),
                          func=lambda sx, a, kw: self.mul(a))

    def add(self, terms):
        out = []
        stack = list(terms)[::-1]
        while stack:
            t = stack.pop()
            if isinstance(t, (int, Fraction)) and not isinstance(t, bool):
                t = self.num(t)
            k = kind(t)
            if k == "add":
                stack.extend(t.args[::-1])
            elif k == "num" and t.value == 0:
                continue
            elif k in ("mul", "tensor", "delta", "num", "index"):
                out.append(t)
            else:
                raise AnalysisError(f"C09 model: sum of an unmodelled term {t!r}")
        if not out:
            return self.zero
        if len(out) == 1:
            return out[0]
        return self._atom(None, " + ".join(t.name for t in out), kind="add", args=tuple(out), _classes=("Add", "Expr", "Basic"),
                          func=lambda sx, a, kw: self.add(a))

    # ---- substitution (simultaneous mapping index -> index)
    def replace(self, e, m):
        k = kind(e)
        if k == "index":
            return m.get(e, e)
        if k == "num":
            return e
        if k == "tensor":
            return self.tensor(e.tname, [m.get(i, i) for i in e.indices])
        if k == "delta":
            return self.delta(m.get(e.args[0], e.args[0]), m.get(e.args[1], e.args[1]))
        if k == "mul":
            return self.mul([self.replace(f, m) for f in e.args])
        if k == "add":
            return self.add([self.replace(f, m) for f in e.args])
        raise AnalysisError(f"C09 model: substitution in an unmodelled value {e!r}")

    def indices_of(self, e):
        k = kind(e)
        if k in ("mul", "add"):
            out = []
            for f in e.args:
                for i in Algebra.indices_of(self, f):
                    if i not in out:
                        out.append(i)
            return out
        if k is None:
            raise AnalysisError(f"C09 model: indices of an unmodelled value {e!r}")
        out = []
        for i in e.indices:
            if i not in out:
                out.append(i)
        return out

    # ---- hooks
    def hooks(self):
        def cls_names(types):
            out = []
            for t in types:
                n = getattr(t, "short", None) or getattr(t, "name", None) or (t.args[0] if isinstance(t, T) and t.op == "sym" else None)
                if n is None:
                    raise AnalysisError(f"C09 model: class argument {t!r} not understood")
                out.append(str(n).split(".")[-1])
            return out

        def nodes(e):
            out = [e]
            k = kind(e)
            if k in ("mul", "add"):
                for f in e.args:
                    out.extend(nodes(f))
            elif k in ("tensor", "delta", "op"):
                out.extend(e.indices)
            return out

        def need(e, what):
            if kind(e) is None:
                raise AnalysisError(f"C09 model: {what} of an unmodelled value {e!r}")

        def h_atoms(sx, a, kw):
            need(a[0], "atoms()")
            names = cls_names(a[1:])
            if not names:
                return {x for x in nodes(a[0]) if kind(x) in ("index", "num")}
            return {x for x in nodes(a[0]) if any(n in x.attrs["_classes"] for n in names)}

        def h_has(sx, a, kw):
            need(a[0], "has()")
            pats = a[1:]
            found = False
            for pat in pats:
                if kind(pat) is not None:
                    found = found or any(x is pat for x in nodes(a[0]))
                else:
                    n = cls_names([pat])[0]
                    found = found or any(n in x.attrs["_classes"] for x in nodes(a[0]))
            return found

        def h_generic(sx, a, kw):
            out = {}
            for key, n in kw.items():
                sp, _, spin = key.partition("_")
                out[(sp, spin)] = []
                for _k in range(n):
                    self.fresh += 1
                    out[(sp, spin)].append(self.index(f"{NAMES[sp][0]}{90 + self.fresh}", sp, spin))
            return out

        def h_pow(sx, a, kw):
            if a[1] == 1 or a[1] is self.one:
                return a[0]
            raise AnalysisError(f"C09 model: power {a!r}")

        def h_make_args(which):
            def h(sx, a, kw):
                e = a[-1]
                need(e, "make_args()")
                return tuple(e.args) if kind(e) == which else (e,)
            return h

        def h_ordered(which):
            def h(sx, a, kw):
                need(a[0], "as_ordered_*()")
                return list(a[0].args) if kind(a[0]) == which else [a[0]]
            return h

        def pairs_of(a):
            if len(a) == 2 and kind(a[0]) == "index":
                return [(a[0], a[1])]
            if len(a) == 1 and isinstance(a[0], dict):
                return list(a[0].items())
            if len(a) == 1 and isinstance(a[0], (list, tuple)):
                return [tuple(p) for p in a[0]]
            raise AnalysisError(f"C09 model: substitution arguments {a!r} not understood")

        def h_subs(sx, a, kw):
            e = a[0]
            if kind(e) is None:
                raise AnalysisError(f"C09 model: subs on an unmodelled value {e!r}")
            pairs = pairs_of(a[1:])
            for old, new in pairs:
                if kind(old) != "index" or kind(new) != "index":
                    raise AnalysisError(f"C09 model: substitution {old!r} -> {new!r} is not index -> index")
            if kw.get("simultaneous"):
                for old, new in pairs:
                    self.log.append((e, old, new))
                return self.replace(e, dict(pairs))
            for old, new in pairs:
                self.log.append((e, old, new))
                e = self.replace(e, {old: new})
            return e

        def h_xreplace(sx, a, kw):
            return h_subs(sx, a, {"simultaneous": True})

        def h_get_symbols(sx, a, kw):
            v = a[0] if a else kw.get("indices")
            if v is None or (isinstance(v, (str, list, tuple, set, frozenset)) and not v):
                return []
            if kind(v) == "index":
                return [v]
            if isinstance(v, str):
                v = _split(v)
            out = []
            for x in v:
                if kind(x) == "index":
                    out.append(x)
                elif isinstance(x, str):
                    # a name denotes the spin-less index of that name (one instance per name and spin in the library)
                    out.append(self.names[(x, "")] if (x, "") in self.names else
                               self.index(x, "occ" if x[0] in "ijklmno" else "virt" if x[0] in "abcdefgh" else "general", ""))
                else:
                    raise AnalysisError(f"C09 model: get_symbols({v!r})")
            return out

        return {"atoms": h_atoms, "subs": h_subs, "xreplace": h_xreplace, "get_symbols": h_get_symbols, "has": h_has,
                "Mul.make_args": h_make_args("mul"), "Add.make_args": h_make_args("add"),
                "as_ordered_factors": h_ordered("mul"), "as_ordered_terms": h_ordered("add"),
                "Add": lambda sx, a, kw: self.add(a), "Mul": lambda sx, a, kw: self.mul(a),
                "KroneckerDelta": lambda sx, a, kw: self.delta(a[0], a[1]),
                "S": self._atom(None, "S", Zero=self.zero, One=self.one, NegativeOne=self.neg_one),
                "doit": lambda sx, a, kw: need(a[0], "doit()") or a[0],
                "expand": lambda sx, a, kw: need(a[0], "expand()") or self.expand(a[0]),
                "Indices": lambda sx, a, kw: self._atom(None, "Indices()"),
                "get_generic_indices": h_generic,
                "NonSymmetricTensor": lambda sx, a, kw: self.tensor(a[0], a[1]),
                "Pow": h_pow}


def _split(s):
    out = []
    for ch in s:
        if ch.isdigit() and out:
            out[-1] += ch
        else:
            out.append(ch)
    return out


# ------------------------------------------------------------------ value of a term on the orbital model

def terms_of(e):
    return list(e.args) if kind(e) == "add" else [e]


def factors_of(t):
    return list(t.args) if kind(t) == "mul" else [t]


def valuation(alg, e, targets):
    """{assignment of the targets: polynomial {monomial: coefficient}}; non-target indices are summed."""
    targets = list(targets)
    out = {}
    for t in terms_of(e):
        fs = factors_of(t)
        coeff = Fraction(1)
        tens, links = [], []
        for f in fs:
            k = kind(f)
            if k == "num":
                coeff *= f.value
            elif k == "delta":
                links.append(f.args)
            elif k == "tensor":
                tens.append(f)
            elif k == "index":
                tens.append(alg.tensor("$idx", [f]))
            else:
                raise AnalysisError(f"C09 model: value of an unmodelled factor {f!r} (nested sum?)")
        if coeff == 0:
            continue
        idxs = list(targets)
        for i in alg.indices_of(t):
            if i not in idxs:
                idxs.append(i)
        # classes of indices identified by the deltas
        cls = {i: i for i in idxs}

        def find(i):
            while cls[i] is not i:
                i = cls[i]
            return i
        for x, y in links:
            cls[find(x)] = find(y)
        reps = []
        for i in idxs:
            r = find(i)
            if r not in reps:
                reps.append(r)
        doms = []
        for r in reps:
            d = None
            for i in idxs:
                if find(i) is r:
                    d = dom(i) if d is None else d & dom(i)
            doms.append(sorted(d))
        # the targets are assigned independently: a class with two targets contributes only where they agree,
        # which is what enumerating the class value does
        for vals in itertools.product(*doms):
            rho = {r: v for r, v in zip(reps, vals)}
            key = tuple(rho[find(i)] for i in targets)
            mono = tuple(sorted((f.tname, tuple(rho[find(i)] for i in f.indices)) for f in tens))
            poly = out.setdefault(key, {})
            poly[mono] = poly.get(mono, 0) + coeff
    return {k: {m: c for m, c in p.items() if c != 0} for k, p in out.items() if any(c != 0 for c in p.values())}


def delta_classes(alg, e):
    """index -> representative of its class under the deltas of the term(s)."""
    cls = {i: i for i in alg.indices_of(e)}

    def find(i):
        if i not in cls:
            cls[i] = i
        while cls[i] is not i:
            i = cls[i]
        return i
    for t in terms_of(e):
        for f in factors_of(t):
            if kind(f) == "delta":
                cls[find(f.args[0])] = find(f.args[1])
    return find


def isolated(alg, f, term, targets):
    """delta(x, y) with both indices contracted and on no other factor of the term: sum_xy delta_xy is the dimension
    of the common space, no index can be removed without losing the sum."""
    x, y = f.args
    if x in targets or y in targets:
        return False
    return not any(g is not f and (x in alg.indices_of(g) or y in alg.indices_of(g)) for g in factors_of(term))


def evaluable(alg, f, term, targets):
    """Reference: delta(x, y) can be removed by replacing a non-target index by one with at least its information,
    unless it is isolated."""
    x, y = f.args
    return ((x not in targets and geq(y, x)) or (y not in targets and geq(x, y))) and not isolated(alg, f, term, targets)


def einstein_targets(alg, term):
    """Summation convention as the library documents it: an index is a target iff it occurs on exactly one factor."""
    cnt = {}
    for f in factors_of(term):
        for i in alg.indices_of(f):
            cnt[i] = cnt.get(i, 0) + 1
    return [i for i, n in cnt.items() if n == 1]


def precondition(alg, e, targets):
    """Domain of the scenarios: no vanishing delta (it would have evaluated to zero).  Contracted indices that sit on
    deltas only are inside the domain: the value (a dimension) has to be preserved as well."""
    for t in terms_of(e):
        for f in factors_of(t):
            if kind(f) == "delta" and not (dom(f.args[0]) & dom(f.args[1])):
                return False
    return True


# ------------------------------------------------------------------ scenarios

# factor specs: ("d", x, y) delta, ("t", name, (x, ..)) tensor, ("n", value) number; indices are positions 0..n-1
TEMPLATES = {
    "d(x,y) X(x) Y(y)": (2, [("d", 0, 1), ("t", "X", (0,)), ("t", "Y", (1,))]),
    "d(x,y) X(x)": (2, [("d", 0, 1), ("t", "X", (0,))]),
    "-2 d(x,y) X(x,y)": (2, [("n", -2), ("d", 0, 1), ("t", "X", (0, 1))]),
    "d(x,y)": (2, [("d", 0, 1)]),
    "X(x) Y(x,y)": (2, [("t", "X", (0,)), ("t", "Y", (0, 1))]),
    "d(x,z) d(y,z) X(x) Y(y)": (3, [("d", 0, 2), ("d", 1, 2), ("t", "X", (0,)), ("t", "Y", (1,))]),
    "d(x,y) d(y,z) X(x) Y(y) Z(z)": (3, [("d", 0, 1), ("d", 1, 2), ("t", "X", (0,)), ("t", "Y", (1,)), ("t", "Z", (2,))]),
    "d(x,y) d(y,z) X(x) Z(z)": (3, [("d", 0, 1), ("d", 1, 2), ("t", "X", (0,)), ("t", "Z", (2,))]),
    "d(x,y) X(x) Y(y) Z(z)": (3, [("d", 0, 1), ("t", "X", (0,)), ("t", "Y", (1,)), ("t", "Z", (2,))]),
    # one contracted index on two deltas whose partners are targets by the convention (a former target that is
    # substituted into the term then sits on two objects: targets must not be re-determined after a substitution)
    "d(x,y) d(x,z) X(x)": (3, [("d", 0, 1), ("d", 0, 2), ("t", "X", (0,))]),
    "d(x,y) d(x,z) X(x) Y(x)": (3, [("d", 0, 1), ("d", 0, 2), ("t", "X", (0,)), ("t", "Y", (0,))]),
    "d(x,y) d(x,z) X(x) Y(y)": (3, [("d", 0, 1), ("d", 0, 2), ("t", "X", (0,)), ("t", "Y", (1,))]),
    "d(x,y) d(x,z) X(x) Y(y) Z(z)": (3, [("d", 0, 1), ("d", 0, 2), ("t", "X", (0,)), ("t", "Y", (1,)), ("t", "Z", (2,))]),
    "d(x,y) d(y,z) d(z,w) X(y) Y(z)": (4, [("d", 0, 1), ("d", 1, 2), ("d", 2, 3), ("t", "X", (1,)), ("t", "Y", (2,))]),
    "d(x,y) d(x,z) d(x,w) X(x)": (4, [("d", 0, 1), ("d", 0, 2), ("d", 0, 3), ("t", "X", (0,))]),
    # deltas whose indices sit on deltas only: sum_xy delta_xy is a dimension and has to survive
    "d(x,y) X(z)": (3, [("d", 0, 1), ("t", "X", (2,))]),
    "2 d(x,y)": (2, [("n", 2), ("d", 0, 1)]),
    "d(x,y) d(y,z) X(w)": (4, [("d", 0, 1), ("d", 1, 2), ("t", "X", (3,))]),
    "d(x,y) d(y,z) d(z,x) X(w)": (4, [("d", 0, 1), ("d", 1, 2), ("d", 2, 0), ("t", "X", (3,))]),
    "d(x,y) d(z,w) X(x,z) Y(y) Z(w)": (4, [("d", 0, 1), ("d", 2, 3), ("t", "X", (0, 2)), ("t", "Y", (1,)), ("t", "Z", (3,))]),
    "d(x,y) d(z,w) X(x) Y(z)": (4, [("d", 0, 1), ("d", 2, 3), ("t", "X", (0,)), ("t", "Y", (2,))]),
}
SUMS = {
    "d(x,z) d(y,z) X(x) Y(y) + d(x,z) W(x,y,y)": (3, [[("d", 0, 2), ("d", 1, 2), ("t", "X", (0,)), ("t", "Y", (1,))],
                                                      [("d", 0, 2), ("t", "W", (0, 1, 1))]]),
    "d(x,y) d(x,z) X(x) + V(y,z)": (3, [[("d", 0, 1), ("d", 0, 2), ("t", "X", (0,))], [("t", "V", (1, 2))]]),
    "d(x,y) X(x) + 3 V(y)": (2, [[("d", 0, 1), ("t", "X", (0,))], [("n", 3), ("t", "V", (1,))]]),
}
NAMES = {"occ": "ijkl", "virt": "abcd", "general": "pqrs"}
QUICK3 = [("occ", ""), ("occ", "a"), ("general", ""), ("general", "b"), ("virt", "")]
QUICK4 = [("occ", ""), ("general", ""), ("general", "a")]


def build(alg, spec, idx, flip=0, reverse=False):
    fs = []
    nd = 0
    for f in spec:
        if f[0] == "d":
            x, y = idx[f[1]], idx[f[2]]
            if flip >> nd & 1:
                x, y = y, x
            nd += 1
            fs.append(alg.delta(x, y, evaluate=False))
        elif f[0] == "t":
            fs.append(alg.tensor(f[1], [idx[k] for k in f[2]]))
        else:
            fs.append(alg.num(f[1]))
    if reverse:
        fs = fs[::-1]
    if len(fs) == 1:
        return fs[0]
    # built directly (not through alg.mul): the argument order of the deltas is part of the scenario
    return alg._atom(None, "*".join(f.name for f in fs), kind="mul", args=tuple(fs), _classes=("Mul", "Expr", "Basic"),
                     func=lambda sx, a, kw: alg.mul(a))


def n_deltas(spec):
    return sum(1 for f in spec if f[0] == "d")


def make_indices(alg, types):
    used = {}
    out = []
    for sp, spin in types:
        k = used.get(sp, 0)
        used[sp] = k + 1
        out.append(alg.index(NAMES[sp][k], sp, spin))
    return out


TRIVIAL = ("d(x,y)", "X(x) Y(x,y)")
PAIRS = ("d(x,y) X(x) Y(y)", "d(x,y) X(x)")     # enumerated over all 81 (space, spin) pairs


def scenarios(tier):
    """(label, algebra, expression, true targets, target argument).

    Candidates: template x (space, spin) assignment x argument order of every delta x factor order x target mode
    (summation convention, every subset of the indices as Index list, and as name string when spin-less), restricted
    to the precondition of the property.  2-index templates run over all 81 assignments, 3-index ones over all 729
    (thorough) or QUICK3, 4-index ones over QUICK3 (thorough) or QUICK4.  Always evaluated (never sampled): every
    template under the all-(occ, no spin) assignment with every delta/factor order and every target mode (4-index
    templates: convention and Index-list targets; three deltas: given factor order), and the
    templates PAIRS over all 81 assignments in the given factor order with convention / Index-list targets; of the rest a deterministic
    hash sample per template (quick: about 50, thorough: about 1200)."""
    full = tier == "thorough"
    for name, (n, spec) in list(TEMPLATES.items()) + list(SUMS.items()):
        is_sum = name in SUMS
        pool = TYPES if n == 2 or (full and n == 3) else QUICK3 if n == 3 or full else QUICK4
        nd = max(n_deltas(s) for s in spec) if is_sum else n_deltas(spec)
        variants = [(fl, rv) for fl in range(2 ** nd) for rv in (False, True)]

        def make(types, flip, rev):
            alg = Algebra()
            idx = make_indices(alg, types)
            if is_sum:
                e = alg._atom(None, name, kind="add", _classes=("Add", "Expr", "Basic"),
                              args=tuple(build(alg, s, idx, flip, rev) for s in spec),
                              func=lambda sx, a, kw, alg=alg: alg.add(a))
            else:
                e = build(alg, spec, idx, flip, rev)
            return alg, idx, e

        def targets_of(alg, idx, e, mode):
            if mode == "sum":
                tgs = [einstein_targets(alg, t) for t in terms_of(e)]
                if any(set(t) != set(tgs[0]) for t in tgs):
                    return None     # the terms of one sum share their targets
                return tgs[0], None
            how, sel = mode
            targets = [idx[k] for k in sel]
            return targets, ("".join(i.name for i in targets) if how == "str" else targets[0] if how == "one" else list(targets))

        cands = []
        for types in itertools.product(pool, repeat=n):
            alg, idx, e = make(types, 0, False)
            for mode in _target_modes(n, types):
                r = targets_of(alg, idx, e, mode)
                if r is not None and precondition(alg, e, r[0]):
                    cands.extend((types, v, mode) for v in variants)
        goal = (1200 if full else 40 if name in TRIVIAL else 100 if name in PAIRS else 50)
        p = min(1.0, goal / max(1, len(cands)))
        for k, (types, (flip, rev), mode) in enumerate(cands):
            plain = mode == "sum" or mode[0] == "list"
            # never sampled: the all-(occ, no spin) assignment in every order and target mode (control flow: chains,
            # restarts, target passing) and the 2-index templates in their given factor order (information handling)
            core = all(t == ("occ", "") for t in types) and (plain or n <= 3) and (nd <= 2 or not rev)
            always = name not in TRIVIAL and (core or (plain and name in PAIRS and not rev))
            u = ((k + 1) * 2654435761 % 4294967296) / 4294967296
            if not always and u >= p:
                continue
            alg, idx, e = make(types, flip, rev)
            targets, arg = targets_of(alg, idx, e, mode)
            tl = "convention" if arg is None else ("names " if isinstance(arg, str) else "list " if isinstance(arg, list) else "index ") + \
                "{" + ",".join(i.name for i in targets) + "}"
            label = f"{name} [{' '.join(tlabel(t) for t in types)}] order {flip}{'r' if rev else ''} targets {tl}"
            yield label, alg, e, targets, arg


def _target_modes(n, types):
    modes = ["sum"]
    for r in range(n + 1):
        for sel in itertools.combinations(range(n), r):
            modes.append(("list", sel))
            if r == 1:
                modes.append(("one", sel))
            if all(types[k][1] == "" for k in sel):
                modes.append(("str", sel))
    return modes


# ------------------------------------------------------------------ rules

def make_sx(ctx, alg, what):
    return Symex(ctx.model, inline=lambda q: True, hooks=alg.hooks(), what=what, max_depth=40, max_paths=64, recursion_error=True)


def show_term(e):
    return e.name if isinstance(e, Atom) else repr(e)


class Tally:
    """Passing scenarios are single obligations; failing ones are reported once per (check, template) with a count and
    the first examples (a defect usually fails hundreds of scenarios)."""

    def __init__(self, ctx, fn):
        self.ctx, self.fn, self.fail = ctx, fn, {}

    def check(self, rule, what, label, cond, fact, reason):
        if cond:
            self.ctx.ok(rule, self.fn, f"{label}: {fact}", key=f"{what} {label}")
        else:
            self.fail.setdefault((rule, what, label.split(" [")[0]), []).append(f"{label}: {reason}")
        return cond

    def flush(self):
        for (rule, what, template), msgs in self.fail.items():
            self.ctx.bad(rule, self.fn, f"{what}: {len(msgs)} scenario(s) of `{template}` fail, e.g. " + " || ".join(msgs[:2]),
                         key=f"{what} {template}")
        return not self.fail


def r09ac(ctx, tier):
    fn = ctx.model.fn(FN)
    params = [a.arg for a in fn.args.args]
    if params[:2] != ["expr", "target_idx"]:
        raise AnalysisError(f"evaluate_deltas no longer takes (expr, target_idx): {params}")
    tally = Tally(ctx, fn)
    n_scen = n_subs = n_none = 0
    for label, alg, e, targets, arg in scenarios(tier):
        n_scen += 1
        sx = make_sx(ctx, alg, "evaluate_deltas " + label)
        outs = sx.run(fn, lambda: dict(expr=e, target_idx=list(arg) if isinstance(arg, list) else arg))
        if len(outs) != 1:
            raise AnalysisError(f"C09: evaluation of {label} is not deterministic on the concrete model: {outs}")
        o = outs[0]
        incomparable = [f for t in terms_of(e) for f in factors_of(t) if kind(f) == "delta"
                        and not geq(f.args[0], f.args[1]) and not geq(f.args[1], f.args[0])]
        if o.kind == "raise":
            if incomparable:
                tally.check("R09a", "incomparable delta", label, False, "", f"raises {o.exc} on a delta whose indices carry "
                            "incomparable information (such a delta has to be left in place)")
            else:
                tally.check("R09c", "completes", label, False, "", f"raises {o.exc}")
            continue
        res = o.value
        if kind(res) is None:
            if res is None or isinstance(res, (int, str, tuple, list)):
                tally.check("R09c", "value", label, False, "", f"returns {res!r} instead of an expression")
                continue
            raise AnalysisError(f"C09: result of {label} is outside the model: {res!r}")
        if incomparable:
            n_none += 1
            tally.check("R09a", "incomparable delta", label, True, "passed over", "")
        # ---- R09a: legality of every substitution performed
        problems = []
        linked = delta_classes(alg, e)
        for before, old, new in alg.log:
            n_subs += 1
            if linked(old) is not linked(new):
                problems.append(f"{ilabel(old)} -> {ilabel(new)} in {show_term(before)}: the two indices are not connected by deltas of the term")
            if old in targets:
                problems.append(f"{ilabel(old)} -> {ilabel(new)} in {show_term(before)}: the removed index is a target index")
            if not geq(new, old):
                problems.append(f"{ilabel(old)} -> {ilabel(new)} in {show_term(before)}: the replacement carries less space/spin "
                                "information than the removed index")
        tally.check("R09a", "substitutions", label, not problems,
                    f"{len(alg.log)} substitution(s) remove non-target indices without loss of information", "; ".join(problems[:3]))
        # ---- R09c: value and normal form
        want, got = valuation(alg, e, targets), valuation(alg, res, targets)
        msg = ""
        if want != got:
            k = next(k for k in sorted(set(want) | set(got)) if want.get(k) != got.get(k))
            msg = (f"{show_term(e)} -> {show_term(res)} changes the value: for targets "
                   f"{dict(zip([i.name for i in targets], k))} expected {_poly(want.get(k))}, got {_poly(got.get(k))}")
        tally.check("R09c", "value", label, want == got, f"value preserved for all {len(want)} non-vanishing target assignments", msg)
        # (a term that is a bare delta is not a product: evaluate_deltas returns it untouched by design)
        left = [f for t in terms_of(res) if kind(t) == "mul" for f in factors_of(t) if kind(f) == "delta" and evaluable(alg, f, t, targets)]
        tally.check("R09c", "normal form", label, not left, "no evaluable delta left",
                    f"{show_term(e)} -> {show_term(res)} leaves {left[0].name if left else ''} although one of its indices "
                    "is not a target and can be replaced without loss of information (stale deltas / wrong targets)")
    if tally.flush():
        ctx.floor("R09c", "scenarios of evaluate_deltas evaluated", n_scen, 300)
        ctx.floor("R09a", "substitutions observed while evaluating evaluate_deltas", n_subs, 200)
        ctx.floor("R09a", "scenarios with an incomparable delta", n_none, 5)


def _poly(p):
    if not p:
        return "0"
    return " + ".join(f"{c}*" + "*".join(f"{n}[{','.join(o[0][0] + o[1] + str(o[2]) for o in idx)}]" for n, idx in m)
                      for m, c in sorted(p.items())[:4]) + (" + ..." if len(p) > 4 else "")


def r09b(ctx):
    pk = ctx.model.fn(f"{KD}.{PK}")
    eq = ctx.model.fn(f"{KD}.{EQ}")
    for t1, t2 in itertools.product(TYPES, repeat=2):
        alg = Algebra()
        i, j = alg.index("x", *t1), alg.index("y", *t2)
        me = alg.delta(i, j, evaluate=False)
        label = f"({tlabel(t1)},{tlabel(t2)})"
        vanishing = not (dom(i) & dom(j))
        sx = make_sx(ctx, alg, PK + label)
        outs = sx.run(pk, lambda: dict(self=me))
        if len(outs) != 1:
            raise AnalysisError(f"C09: {PK}{label} is not deterministic on the concrete model: {outs}")
        o = outs[0]
        if o.kind == "raise":
            ctx.bad("R09b", pk, f"{label}: raises {o.exc}", key=f"pk {label}")
        elif not vanishing:     # a vanishing delta evaluates to zero and never reaches this code
            val = o.value
            comparable = geq(i, j) or geq(j, i)
            if val is None:
                ctx.check("R09b", pk, not comparable, f"{label}: incomparable information, not evaluated (None)",
                          f"{label}: returns None although one index carries at least the information of the other "
                          "(the delta would never be evaluated)", key=f"pk {label}")
            else:
                ok = isinstance(val, (tuple, list)) and len(val) == 2 and {id(v) for v in val} == {id(i), id(j)}
                ok = ok and geq(val[0], val[1])
                ctx.check("R09b", pk, ok, f"{label}: keeps the index with >= information",
                          f"{label}: returns {val!r}; the kept (first) index must carry at least the space and spin "
                          "information of the removed (second) index", key=f"pk {label}")
        outs = sx.run(eq, lambda: dict(self=me))
        if len(outs) != 1:
            raise AnalysisError(f"C09: {EQ}{label} is not deterministic on the concrete model: {outs}")
        o = outs[0]
        want = t1 == t2
        ctx.check("R09b", eq, o.kind == "return" and isinstance(o.value, bool) and o.value == want,
                  f"{label}: equal information == {want}",
                  f"{label}: indices_contain_equal_information gives {o.value if o.kind == 'return' else 'raise ' + str(o.exc)}, "
                  f"space/spin equality is {want}", key=f"eq {label}")


# ------------------------------------------------------------------ R09d: the callers that hand targets over

WICKS = "func:wicks"
FOCK = "expr_container:Obj.diagonalize_fock"
# operator strings: (label, [(operator, index position)], [tensor (name, index positions)])
WICK_STRINGS = [
    ("Fd(x) F(y)", [("Fd", 0), ("F", 1)], 2),
    ("F(x) Fd(y)", [("F", 0), ("Fd", 1)], 2),
    ("Fd(x) F(y) Fd(z) F(w)", [("Fd", 0), ("F", 1), ("Fd", 2), ("F", 3)], 4),
    ("Fd(x) Fd(y) F(z) F(w)", [("Fd", 0), ("Fd", 1), ("F", 2), ("F", 3)], 4),
]
WICK_SPACES = ("occ", "virt", "general")


def wick_scenarios(tier):
    """Operator strings times tensors that carry a subset of the operator indices (those indices are contracted in
    the input, the others are its target indices)."""
    for name, ops, n in WICK_STRINGS:
        pool = WICK_SPACES if n == 2 or tier == "thorough" else ("occ", "general")
        for spaces in itertools.product(pool, repeat=n):
            if n == 4 and tier != "thorough" and spaces.count("general") not in (0, 2, 4):
                continue
            for r in range(n + 1):
                for on_tensor in itertools.combinations(range(n), r):
                    if n == 4 and r not in (0, 2, 4):
                        continue
                    alg = Algebra()
                    idx = make_indices(alg, [(sp, "") for sp in spaces])
                    fs = []
                    if on_tensor:   # one tensor per contracted index pair / single index
                        for k in range(0, len(on_tensor), 2):
                            fs.append(alg.tensor("XYZW"[k // 2], [idx[j] for j in on_tensor[k:k + 2]]))
                    fs += [alg.op(w, idx[k]) for w, k in ops]
                    e = alg._atom(None, "*".join(f.name for f in fs), kind="mul", args=tuple(fs), _classes=("Mul", "Expr", "Basic"),
                                  func=lambda sx, a, kw, alg=alg: alg.mul(a))
                    label = f"{name} [{' '.join(sp[0] for sp in spaces)}] tensors on {{{','.join(idx[k].name for k in on_tensor)}}}"
                    yield label, alg, e, [i for k, i in enumerate(idx) if k not in on_tensor]


def r09d_wicks(ctx, tier):
    fn = ctx.model.fn(WICKS)
    tally = Tally(ctx, fn)
    n = n_subs = 0
    for label, alg, e, targets in wick_scenarios(tier):
        sx = make_sx(ctx, alg, "wicks " + label)
        res = {}
        for flag in (False, True):
            alg.log.clear()
            outs = sx.run(fn, lambda: dict(expr=e, rules=None, simplify_kronecker_deltas=flag))
            if len(outs) != 1:
                raise AnalysisError(f"C09: wicks on {label} is not deterministic on the concrete model: {outs}")
            o = outs[0]
            if o.kind == "raise":
                res = None
                tally.check("R09d", "wicks completes", label, False, "", f"raises {o.exc} (simplify_kronecker_deltas={flag})")
                break
            if kind(o.value) is None:
                raise AnalysisError(f"C09: result of wicks on {label} is outside the model: {o.value!r}")
            res[flag] = o.value
        if res is None:
            continue
        n += 1
        problems = []
        for before, old, new in alg.log:
            n_subs += 1
            if old in targets:
                problems.append(f"{ilabel(old)} -> {ilabel(new)} in {show_term(before)}: the removed index is a target index of the "
                                "operator string (it sits on a single object of the input)")
            if not geq(new, old):
                problems.append(f"{ilabel(old)} -> {ilabel(new)} in {show_term(before)}: information lost")
        tally.check("R09d", "wicks substitutions", label, not problems,
                    f"{len(alg.log)} substitution(s), no target index of the input removed", "; ".join(problems[:3]))
        want, got = valuation(alg, res[False], targets), valuation(alg, res[True], targets)
        msg = ""
        if want != got:
            k = next(k for k in sorted(set(want) | set(got)) if want.get(k) != got.get(k))
            msg = (f"wicks gives {show_term(res[False])}, with simplify_kronecker_deltas {show_term(res[True])}: for targets "
                   f"{dict(zip([i.name for i in targets], k))} expected {_poly(want.get(k))}, got {_poly(got.get(k))}")
        tally.check("R09d", "wicks value", label, want == got, "evaluating the deltas of the contraction preserves the value", msg)
    if tally.flush():
        ctx.floor("R09d", "operator strings contracted by wicks", n, 60)
        ctx.floor("R09d", "substitutions observed inside wicks", n_subs, 40)


def r09d_fock(ctx):
    """Obj.diagonalize_fock: f_pq * delta_pq is handed to evaluate_deltas with the targets of the term."""
    fn = ctx.model.fn(FOCK)
    tally = Tally(ctx, fn)
    n = n_sub = 0
    for t1, t2 in itertools.product(TYPES, repeat=2):
        for sel in ((), (0,), (1,), (0, 1)):
            for explicit in (False, True):
                alg = Algebra()
                p, q = make_indices(alg, [t1, t2])
                if not (dom(p) & dom(q)):
                    continue
                targets = [(p, q)[k] for k in sel]
                f = alg.tensor("f", [p, q])
                term = alg._atom("expr_container:Term", "term", target=tuple(targets))
                me = alg._atom("expr_container:Obj", "obj", idx=(p, q), sympy=f, exponent=1, term=term, assumptions={})
                me.attrs["name"] = "f"
                label = f"f(p,q) [{tlabel(t1)} {tlabel(t2)}] targets {{{','.join(i.name for i in targets)}}} {'given' if explicit else 'of the term'}"
                hooks = alg.hooks()
                hooks["tensor_names"] = alg._atom(None, "tensor_names", fock="f", orb_energy="e")
                sx = Symex(ctx.model, inline=lambda qn: True, hooks=hooks, what="diagonalize_fock " + label, max_depth=40, max_paths=64,
                           recursion_error=True)
                outs = sx.run(fn, lambda: dict(self=me, target=tuple(targets) if explicit else None, return_sympy=True))
                if len(outs) != 1:
                    raise AnalysisError(f"C09: diagonalize_fock on {label} is not deterministic on the concrete model: {outs}")
                o = outs[0]
                if o.kind == "raise":
                    tally.check("R09d", "diagonalize_fock completes", label, False, "", f"raises {o.exc}")
                    continue
                if not (isinstance(o.value, tuple) and len(o.value) == 2 and kind(o.value[0]) is not None and isinstance(o.value[1], dict)):
                    raise AnalysisError(f"C09: result of diagonalize_fock on {label} is outside the model: {o.value!r}")
                n += 1
                diag, sub = o.value
                problems = []
                for old, new in list(sub.items()) + [(old, new) for _, old, new in alg.log]:
                    n_sub += 1
                    if {old, new} != {p, q}:
                        problems.append(f"{ilabel(old)} -> {ilabel(new)}: not the two indices of the fock element")
                    if old in targets:
                        problems.append(f"{ilabel(old)} -> {ilabel(new)}: the removed index is a target index of the term")
                    if not geq(new, old):
                        problems.append(f"{ilabel(old)} -> {ilabel(new)}: information lost")
                tally.check("R09d", "diagonalize_fock substitution", label, not problems,
                            "the returned substitution removes a contracted index without loss of information", "; ".join(problems[:3]))
                # value of the diagonal: f_pq delta_pq summed over the non-targets = e_r for the surviving index
                if sub:
                    want = valuation(alg, alg.mul([alg.tensor("e", [p]), alg.delta(p, q, evaluate=False)]), targets)
                    got = valuation(alg, diag, targets)
                    tally.check("R09d", "diagonalize_fock value", label, want == got, "diagonal element on the surviving index",
                                f"returns {show_term(diag)} with substitution {{{', '.join(f'{a.name}: {b.name}' for a, b in sub.items())}}}")
    if tally.flush():
        ctx.floor("R09d", "fock elements diagonalised", n, 200)
        ctx.floor("R09d", "substitutions returned by diagonalize_fock", n_sub, 100)


def run(ctx):
    if ctx.want("R09d"):
        r09d_wicks(ctx, ctx.tier)
        r09d_fock(ctx)
    if ctx.want("R09a") or ctx.want("R09c"):
        r09ac(ctx, ctx.tier)
    if ctx.want("R09b"):
        r09b(ctx)
