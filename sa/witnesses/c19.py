I = "indices.py"
E = "expr_container.py"
G = "groundstate.py"
T = "tensor_names.py"
S = "intermediate_states.py"
F = "factor_intermediates.py"
O = "generate_code/optimize_contractions.py"
D = "derivative.py"
SP = "spatial_orbitals.py"
M = "misc.py"
IM = "intermediates.py"

_NORM_OLD = ("                i1 = pref\n                for o in term:\n                    i1 *= self.overlap(o)\n"
             "                    if i1 is S.Zero:\n                        break\n                norm_factor += i1.expand()")
_SROOT_OLD = ("                for o in term:\n                    i1 *= self.overlap_precursor(\n"
              "                        order=o, block=block, indices=tuple(relevant_idx[:2])\n                    )\n"
              "                    del relevant_idx[0]\n                    if i1 is S.Zero:\n                        break\n"
              "                assert len(relevant_idx) == 1 and relevant_idx[0] == indices[1]")
_GETIDX_OLD = ("            symbol = self._symbols[space][spin].get(idx, None)\n            if symbol is not None:\n"
               "                ret[key].append(symbol)\n                continue\n")

WITNESSES = [
    # ------------------------------------------------------------------ breaking (from the text-rule era)
    dict(id="c19-f8-revert", prop="C19", file=I, expect=["R19a", "R19g"],
         old="                idx.dummy_index)", new="                hash(idx))"),
    dict(id="c19-atoms-contracted", prop="C19", file=E, expect="R19a",
         old="        contracted = {}\n        for s in self.contracted:\n            if (key := s.space_and_spin) not in contracted:",
         new="        contracted = {}\n        for s in self.sympy.atoms(Index):\n            if (key := s.space_and_spin) not in contracted:"),
    dict(id="c19-set-to-list", prop="C19", file=E, expect="R19a",
         old="        idx = [s for t in self.terms for s in t.idx]\n        return tuple(sorted(idx, key=sort_idx_canonical))\n\n    def copy(self):",
         new="        idx = [s for s in {s for t in self.terms for s in t.idx}]\n        return tuple(idx)\n\n    def copy(self):"),
    dict(id="c19-id-key", prop="C19", file=E, expect="R19a",
         old="        return tuple(sorted(idx.items(),\n                            key=lambda tpl: sort_idx_canonical(tpl[0])))",
         new="        return tuple(sorted(idx.items(),\n                            key=lambda tpl: id(tpl[0])))"),
    dict(id="c19-key-prefix", prop="C19", file=I, expect="R19g",
         old="        return (idx.space[0],\n                idx.spin,\n                int(idx.name[1:]) if idx.name[1:] else 0,\n                idx.name[0],",
         new="        return (idx.space[0],\n                idx.spin,\n                idx.name[0],"),
    dict(id="c19-psi-cached", prop="C19", file=G, expect="R19b",
         old="    def psi(self, order: int, braket: str):", new="    @cached_member\n    def psi(self, order: int, braket: str):"),
    dict(id="c19-norm-cached", prop="C19", file=G, expect="R19b",
         old="    def norm_factor(self, order: int):", new="    @cached_member\n    def norm_factor(self, order: int):"),
    dict(id="c19-psi-literal", prop="C19", file=G, expect="R19b",
         old="        idx = self.indices.get_generic_indices(occ=2*order, virt=2*order)", new="        idx = self.indices.get_indices('ijklmnoabcdefgh'[:0] + 'ijkl'[:2*order] + 'abcd'[:2*order])"),
    dict(id="c19-literal-name", prop="C19", file=E, expect="R19c",
         old="            NonSymmetricTensor(tensor_names.orb_energy, (remaining_idx,)),", new="            NonSymmetricTensor('e', (remaining_idx,)),"),
    dict(id="c19-literal-cmp", prop="C19", file=E, expect="R19c",
         old="        if self.name == tensor_names.fock:\n            space = self.space", new="        if self.name == 'f':\n            space = self.space"),
    dict(id="c19-not-frozen", prop="C19", file=T, expect="R19d",
         old="@dataclass(slots=True, frozen=True)", new="@dataclass(slots=True)"),
    dict(id="c19-registry", prop="C19", file=E, expect="R08c",
         old="        generic = Indices().get_generic_indices(**kwargs)", new="        Indices()._generic_indices['occ'][''].clear()\n        generic = Indices().get_generic_indices(**kwargs)"),
    dict(id="c19-ok-sorted-atoms", prop="C19", file=E, expect=None,
         old="        idx = [s for t in self.terms for s in t.idx]\n        return tuple(sorted(idx, key=sort_idx_canonical))\n\n    def copy(self):",
         new="        idx = [s for t in self.terms for s in t.idx]\n        assert all(s in self.sympy.atoms(Index) for s in set(idx))\n        return tuple(sorted(idx, key=sort_idx_canonical))\n\n    def copy(self):"),

    # ------------------------------------------------------------------ breaking: the re-founded / new checks
    # R19a(1): the hash hides in a helper that the key function calls
    dict(id="c19-hash-in-helper", prop="C19", file=I, expect="R19a",
         edits=[("                idx.dummy_index)", "                _tie_break(idx))"),
                ("def split_idx_string(str_tosplit: str) -> list[str]:",
                 "def _tie_break(idx):\n    return hash(idx) % 1024\n\n\ndef split_idx_string(str_tosplit: str) -> list[str]:")]),
    # R19a(1): key bound to a local name first
    dict(id="c19-id-key-local", prop="C19", file=E, expect="R19a",
         old="        return tuple(sorted(idx.items(),\n                            key=lambda tpl: sort_idx_canonical(tpl[0])))",
         new="        by_address = lambda tpl: id(tpl[0])  # noqa: E731\n        return tuple(sorted(idx.items(), key=by_address))"),
    # R19g: letter before number
    dict(id="c19-key-letter-first", prop="C19", file=I, expect="R19g",
         old="                int(idx.name[1:]) if idx.name[1:] else 0,\n                idx.name[0],",
         new="                idx.name[0],\n                int(idx.name[1:]) if idx.name[1:] else 0,"),
    # R19a(2): list(set) without a loop or comprehension
    dict(id="c19-list-of-set", prop="C19", file=E, expect="R19a",
         old="        idx = [s for t in self.terms for s in t.idx]\n        return tuple(sorted(idx, key=sort_idx_canonical))\n\n    def copy(self):",
         new="        return tuple({s for t in self.terms for s in t.idx})\n\n    def copy(self):"),
    # R19a(2): element picked from a set that is not known to be a singleton
    dict(id="c19-pop-unguarded", prop="C19", file=E, expect="R19a",
         old="        remaining_idx = result.atoms(Index)\n        assert len(remaining_idx) == 1  # only one of the indices can survive\n",
         new="        remaining_idx = result.atoms(Index)\n"),
    # R19a(2): order of a set frozen into a dict and read back in order
    dict(id="c19-dict-from-set", prop="C19", file=E, expect="R19a",
         old="        idx = [s for t in self.terms for s in t.idx]\n        return tuple(sorted(idx, key=sort_idx_canonical))\n\n    def copy(self):",
         new="        seen = {}\n        for s in self.sympy.atoms(Index):\n            seen[s] = None\n        return tuple(seen.keys())\n\n    def copy(self):"),
    # R19b: memoised overlaps (the same object twice in S(2)*S(2))
    dict(id="c19-overlap-memo", prop="C19", file=G, expect="R19b",
         old=_NORM_OLD,
         new="                i1 = pref\n                seen = {}\n                for o in term:\n                    if o not in seen:\n"
             "                        seen[o] = self.overlap(o)\n                    i1 *= seen[o]\n                    if i1 is S.Zero:\n"
             "                        break\n                norm_factor += i1.expand()"),
    # R19b: power instead of repeated requests
    dict(id="c19-overlap-power", prop="C19", file=G, expect="R19b",
         old=_NORM_OLD,
         new="                i1 = pref\n                for o in set(term):\n                    i1 *= self.overlap(o) ** term.count(o)\n"
             "                    if i1 is S.Zero:\n                        break\n                norm_factor += i1.expand()"),
    # R19b: s_root multiplies the cached overlap with the same index pair every time
    dict(id="c19-sroot-same-indices", prop="C19", file=S, expect="R19b",
         old="                        order=o, block=block, indices=tuple(relevant_idx[:2])\n                    )\n                    del relevant_idx[0]",
         new="                        order=o, block=block, indices=tuple(indices)\n                    )\n                    del relevant_idx[0]"),
    # R19b: a cached method names its summation indices literally
    dict(id="c19-isr-literal-sum", prop="C19", file=S, expect="R19b",
         old="        idx_pre = \"\".join(s.name for s in generic_indices_from_space(space))",
         new="        idx_pre = \"\".join(s.name for s in get_symbols('ijab'[:len(space)]))\n",
         ),
    # R19c: the literal travels through a local name
    dict(id="c19-literal-via-local", prop="C19", file=E, expect="R19c",
         old="        diag = Pow(\n            NonSymmetricTensor(tensor_names.orb_energy, (remaining_idx,)),",
         new="        e_name = 'e'\n        diag = Pow(\n            NonSymmetricTensor(e_name, (remaining_idx,)),"),
    # R19c: default name with a computed extension
    dict(id="c19-literal-fstring", prop="C19", file=G, expect="R19c",
         old="        tensor_name = f\"{tensor_names.gs_amplitude}{order}\"", new="        tensor_name = f\"t{order}\""),
    # R19c: membership in a display of literals
    dict(id="c19-literal-member", prop="C19", file=E, expect="R19c",
         old="            if name in [tensor_names.eri, tensor_names.coulomb]:", new="            if name in ['V', tensor_names.coulomb]:"),
    # R19c: literal handed to a tensor-name parameter
    dict(id="c19-literal-argument", prop="C19", file=E, expect="R19c",
         old="        return False if name is None else is_t_amplitude(name)", new="        return False if name is None else (is_t_amplitude(name) or is_adc_amplitude('Y'))",
         ),
    # R19c: registry looked up with the configured long name (keyword spelling)
    dict(id="c19-lookup-configured", prop="C19", file=E, expect="R19c",
         old="        itmd = Intermediates().available.get(self.longname(True), None)\n        if itmd is None:\n            logger.warning(",
         new="        itmd = Intermediates().available.get(self.longname(use_default_names=False), None)\n        if itmd is None:\n            logger.warning("),
    # R19d: configuration ignored
    dict(id="c19-config-ignored", prop="C19", file=T, expect="R19d",
         old="        return TensorNames(**tensor_names)", new="        return TensorNames()"),
    # R19d: store through an alias
    dict(id="c19-store-alias", prop="C19", file=G, expect="R19d",
         old="        self.singles = first_order_singles", new="        self.singles = first_order_singles\n        object.__setattr__(tensor_names, 'gs_amplitude', 't')"),
    # R19d: defaults() keyed by the default instead of the field name
    dict(id="c19-defaults-wrong", prop="C19", file=T, expect="R19d",
         old="        return {field.name: field.default for field in fields(TensorNames)}", new="        return {field.default: field.name for field in fields(TensorNames)}"),
    # R19e: a freshly created name stays in the pool of available generic names
    dict(id="c19-pool-not-updated", prop="C19", file=I, expect=["R19e", "R08d"],
         old="            try:\n                self._generic_indices[space][spin].remove(idx)\n            except ValueError:\n                continue\n",
         new=""),
    # R19e: the used-name filter of a new generation is dropped
    dict(id="c19-generation-unfiltered", prop="C19", file=I, expect=["R19e", "R08d"],
         old="        new_idx = [idx + counter for idx in self.base[space]\n                   if idx + counter not in used_names]",
         new="        new_idx = [idx + counter for idx in self.base[space]]"),
    # R19f: the cached symmetry dict is extended in place
    dict(id="c19-cached-mutated", prop="C19", file=D, expect="R19f",
         old="            tensor_sym = obj.symmetry()\n", new="            tensor_sym = obj.symmetry()\n            tensor_sym[tuple()] = 1\n"),
    # R19f: ... through an alias and a mutator method
    dict(id="c19-cached-mutated-alias", prop="C19", file=D, expect="R19f",
         old="            tensor_sym = obj.symmetry()\n", new="            cached = obj.symmetry()\n            tensor_sym = cached\n            tensor_sym.pop(tuple(), None)\n"),
    # R19f/R19b: a cached derivation method hands out a mutable container
    dict(id="c19-cached-container", prop="C19", file=S, expect="R19f",
         old="        name = getattr(tensor_names, f\"{lr}_adc_amplitude\")\n        return Amplitude(name, virt, occ)",
         new="        name = getattr(tensor_names, f\"{lr}_adc_amplitude\")\n        return Expr(Amplitude(name, virt, occ))"),

    # ------------------------------------------------------------------ behaviour preserving refactorings (new kinds)
    # key function reached through a local alias and a wrapping lambda
    dict(id="c19-ok-key-alias", prop="C19", file=E, expect=None,
         old="        idx = [s for t in self.terms for s in t.idx]\n        return tuple(sorted(idx, key=sort_idx_canonical))\n\n    def copy(self):",
         new="        canonical = sort_idx_canonical\n        idx = [s for t in self.terms for s in t.idx]\n        return tuple(sorted(idx, key=lambda s: canonical(s)))\n\n    def copy(self):"),
    # number of the name parsed by an extracted helper, branches of the key swapped
    dict(id="c19-ok-key-helper", prop="C19", file=I, expect=None,
         edits=[("    if isinstance(idx, Index):\n        # also add the hash here for wicks, where multiple i are around\n        return (idx.space[0],\n"
                 "                idx.spin,\n                int(idx.name[1:]) if idx.name[1:] else 0,\n                idx.name[0],\n"
                 "                idx.dummy_index)\n    else:  # necessary for subs to work correctly with simultaneous=True\n"
                 "        return ('', 0, str(idx), getattr(idx, \"dummy_index\", 0))",
                 "    if not isinstance(idx, Index):  # necessary for subs to work correctly with simultaneous=True\n"
                 "        return ('', 0, str(idx), getattr(idx, \"dummy_index\", 0))\n"
                 "    letter, number = _letter_and_number(idx.name)\n    space_and_spin = (idx.space[0], idx.spin)\n"
                 "    return (*space_and_spin, number, letter, idx.dummy_index)"),
                ("def split_idx_string(str_tosplit: str) -> list[str]:",
                 "def _letter_and_number(name: str):\n    digits = name[1:]\n    return name[0], int(digits or 0)\n\n\n"
                 "def split_idx_string(str_tosplit: str) -> list[str]:")]),
    # comprehension over a set -> explicit loop with append; the derived tuple is still only scanned
    dict(id="c19-ok-set-loop", prop="C19", file=F, expect=None,
         old="    itmd_contracted_symbols = tuple(s for s in set(itmd.expr.idx)\n                                    if s not in itmd_default_symbols)",
         new="    contracted_symbols = []\n    for symbol in set(itmd.expr.idx):\n        if symbol not in itmd_default_symbols:\n"
             "            contracted_symbols.append(symbol)\n    itmd_contracted_symbols = tuple(contracted_symbols)"),
    # the triaged sets get other local names / a temporary
    dict(id="c19-ok-rename-triaged", prop="C19", file=SP, expect=None,
         edits=[("        idx = set(term.idx)\n        beta_idx = [i for i in idx if i.spin == \"b\"]", "        all_indices = term.idx\n        index_set = set(all_indices)\n        beta_idx = [i for i in index_set if i.spin == \"b\"]"),
                ("            if new in idx:\n", "            if new in index_set:\n")]),
    dict(id="c19-ok-atoms-temp", prop="C19", file=T, expect=None,
         old="            if field.name == \"gs_amplitude\":  # special case for t_amplitudes\n                subs = []\n                for sym in expr.sympy.atoms(Symbol):",
         new="            if field.name == \"gs_amplitude\":  # special case for t_amplitudes\n                subs = []\n                symbols = expr.sympy.atoms(Symbol)\n                for sym in symbols:"),
    # the singleton guard spelled the other way round, element taken by unpacking
    dict(id="c19-ok-singleton-unpack", prop="C19", file=E, expect=None,
         old="        assert len(remaining_idx) == 1  # only one of the indices can survive\n        remaining_idx = remaining_idx.pop()",
         new="        assert not 1 != len(remaining_idx)  # only one of the indices can survive\n        (remaining_idx,) = remaining_idx"),
    # overlaps of one Taylor term requested up front, product built afterwards
    dict(id="c19-ok-norm-factors-first", prop="C19", file=G, expect=None,
         old=_NORM_OLD,
         new="                factors = [self.overlap(order=o) for o in term]\n                i1 = pref\n                for factor in factors:\n"
             "                    i1 = i1 * factor\n                    if i1 is S.Zero:\n                        break\n                norm_factor += i1.expand()"),
    # s_root walks the index chain by position instead of consuming a list
    dict(id="c19-ok-sroot-by-position", prop="C19", file=S, expect=None,
         old=_SROOT_OLD,
         new="                for pos, o in enumerate(term):\n                    pair = (relevant_idx[pos], relevant_idx[pos + 1])\n"
             "                    i1 *= self.overlap_precursor(o, block, pair)\n                    if i1 is S.Zero:\n                        break\n"
             "                assert relevant_idx[-1] == indices[1]"),
    # psi: request built as a dict, halves hoisted
    dict(id="c19-ok-psi-kwargs", prop="C19", file=G, expect=None,
         old="        idx = self.indices.get_generic_indices(occ=2*order, virt=2*order)",
         new="        n_idx = 2 * order\n        request = {\"occ\": n_idx, \"virt\": n_idx}\n        idx = self.indices.get_generic_indices(**request)"),
    # tensor names: keyword spelling, flipped comparison, tuple instead of list, key via temporary
    dict(id="c19-ok-name-spelling", prop="C19", file=E, expect=None,
         edits=[("            NonSymmetricTensor(tensor_names.orb_energy, (remaining_idx,)),", "            NonSymmetricTensor(name=tensor_names.orb_energy, indices=(remaining_idx,)),"),
                ("        if self.name == tensor_names.fock:\n            space = self.space", "        fock_name = tensor_names.fock\n        if fock_name == self.name:\n            space = self.space"),
                ("            if name in [tensor_names.eri, tensor_names.coulomb]:", "            if name in (tensor_names.eri, tensor_names.coulomb):"),
                ("        itmd = Intermediates().available.get(self.longname(True), None)\n        if itmd is None:\n            logger.warning(",
                 "        default_name = self.longname(use_default_names=True)\n        registry = Intermediates().available\n        itmd = registry.get(default_name)\n        if itmd is None:\n            logger.warning(")]),
    # TensorNames: decorator options reordered, config read in a with block, defaults by loop
    dict(id="c19-ok-tensor-names-layout", prop="C19", file=T, expect=None,
         edits=[("@dataclass(slots=True, frozen=True)", "@dataclass(frozen=True, slots=True)"),
                ("        tensor_names: dict[str, str] = json.load(open(config_file, \"r\"))\n        return TensorNames(**tensor_names)",
                 "        with open(config_file, \"r\") as handle:\n            configured = json.load(handle)\n        return TensorNames(**configured)"),
                ("        return {field.name: field.default for field in fields(TensorNames)}",
                 "        table = {}\n        for f in fields(TensorNames):\n            table[f.name] = f.default\n        return table")]),
    # cached value reached through two names, only read; a private copy is modified
    dict(id="c19-ok-cached-alias-read", prop="C19", file=D, expect=None,
         old="            tensor_sym = obj.symmetry()\n",
         new="            cached_sym = obj.symmetry()\n            tensor_sym = cached_sym\n            scratch = dict(cached_sym)\n            scratch.clear()\n"),
    # any() over a set written as a flag loop with break
    dict(id="c19-ok-any-as-flag-loop", prop="C19", file=SP, expect=None,
         old="        if any(s.spin for s in term_indices):\n            raise ValueError(\"The function assumes",
         new="        has_spin = False\n        for s in term_indices:\n            if s.spin:\n                has_spin = True\n"
             "                break\n        if has_spin:\n            raise ValueError(\"The function assumes"),
    # the index strings of the overlap root selected by a conditional expression instead of a table
    dict(id="c19-ok-isr-cond-expr", prop="C19", file=S, expect=None,
         edits=[("        s_indices = {\n            'bra': \",\".join([indices, idx_pre]),\n            'ket': \",\".join([idx_pre, indices])\n        }\n", ""),
                ("                              indices=s_indices[braket]) *",
                 "                              indices=(f\"{indices},{idx_pre}\" if braket == 'bra' else f\"{idx_pre},{indices}\")) *")]),
    # the config loader as a module-level helper
    dict(id="c19-ok-config-helper", prop="C19", file=T, expect=None,
         edits=[("tensor_names = TensorNames._from_config()", "def _load_configured_names() -> TensorNames:\n    return TensorNames._from_config()\n\n\ntensor_names = _load_configured_names()")]),
    # De Morgan on a name test
    dict(id="c19-ok-name-demorgan", prop="C19", file=E, expect=None,
         old="        if self.name != tensor_names.fock:  # no fock matrix\n            return pack_result(self.sympy, {}, target)\n        p, q = self.idx\n        # build a delta",
         new="        if not (self.name == tensor_names.fock):  # no fock matrix\n            return pack_result(self.sympy, {}, target)\n        p, q = self.idx\n        # build a delta"),
    # R19i: one cache for all methods of an instance (keyed by the arguments only)
    dict(id="c19-cache-shared-by-methods", prop="C19", file=M, expect="R19i",
         old="        try:  # load/create the cache\n            fun_cache = self._function_cache[fname]\n        except AttributeError:\n"
             "            self._function_cache = {}\n            fun_cache = self._function_cache[fname] = {}\n        except KeyError:\n"
             "            fun_cache = self._function_cache[fname] = {}\n",
         new="        try:  # load/create the cache\n            fun_cache = self._function_cache\n        except AttributeError:\n"
             "            fun_cache = self._function_cache = {}\n"),
    # R19i: the cache lives on the decorator (shared by all instances)
    dict(id="c19-cache-shared-by-instances", prop="C19", file=M, expect="R19i",
         edits=[("    fname = function.__name__\n", "    fname = function.__name__\n    shared_cache = {}\n"),
                ("        try:  # try to load the data from the cache\n            return fun_cache[args]\n        except KeyError:\n"
                 "            fun_cache[args] = result = function(self, *args)\n        return result",
                 "        try:  # try to load the data from the cache\n            return shared_cache[args]\n        except KeyError:\n"
                 "            shared_cache[args] = result = function(self, *args)\n        return result")]),
    # R19i: only the first argument addresses the entry
    dict(id="c19-cache-key-truncated", prop="C19", file=M, expect="R19i",
         old="            return fun_cache[args]\n        except KeyError:\n            fun_cache[args] = result = function(self, *args)",
         new="            return fun_cache[args[:1]]\n        except KeyError:\n            fun_cache[args[:1]] = result = function(self, *args)"),
    # R19i: cached_property keyed by nothing
    dict(id="c19-property-cache-flat", prop="C19", file=M, expect="R19i",
         old="        try:\n            return self._property_cache[function]\n        except AttributeError:\n            self._property_cache = {}\n"
             "            x = self._property_cache[function] = function(self)\n            return x\n        except KeyError:\n"
             "            x = self._property_cache[function] = function(self)\n            return x",
         new="        try:\n            return self._property_cache\n        except AttributeError:\n"
             "            x = self._property_cache = function(self)\n            return x"),
    # the caches rewritten with get/setdefault and membership tests instead of exceptions
    dict(id="c19-ok-cache-without-exceptions", prop="C19", file=M, expect=None,
         edits=[("        try:  # load/create the cache\n            fun_cache = self._function_cache[fname]\n        except AttributeError:\n"
                 "            self._function_cache = {}\n            fun_cache = self._function_cache[fname] = {}\n        except KeyError:\n"
                 "            fun_cache = self._function_cache[fname] = {}\n\n"
                 "        try:  # try to load the data from the cache\n            return fun_cache[args]\n        except KeyError:\n"
                 "            fun_cache[args] = result = function(self, *args)\n        return result",
                 "        if not hasattr(self, \"_function_cache\"):\n            self._function_cache = {}\n"
                 "        per_method = self._function_cache.setdefault(fname, {})\n        if args not in per_method:\n"
                 "            per_method[args] = function(self, *args)\n        return per_method[args]")]),
    # registry: look-up through a temporary and a membership test, pool update by a guarded remove
    dict(id="c19-ok-registry-lookup", prop="C19", file=I, expect=None,
         edits=[("            symbol = self._symbols[space][spin].get(idx, None)\n            if symbol is not None:\n"
                 "                ret[key].append(symbol)\n                continue\n",
                 "            known = self._symbols[space][spin]\n            if idx in known:\n"
                 "                ret[key].append(known[idx])\n                continue\n"),
                ("            try:\n                self._generic_indices[space][spin].remove(idx)\n            except ValueError:\n                continue\n",
                 "            pool = self._generic_indices[space][spin]\n            if idx in pool:\n                pool.remove(idx)\n")]),
    # R19j: revert of 5192557 (renames applied one after another to the already renamed expression)
    dict(id="c19-rename-simultaneous-revert", prop="C19", file=T, expect="R19j",
         edits=[("            all_subs.extend(subs)\n", "            for old, new in subs:\n                expr.rename_tensor(old, new)\n"),
                ("        for i, (old, _) in enumerate(all_subs):\n            expr.rename_tensor(old, f\"_tmp_name_{i}_\")\n"
                 "        for i, (_, new) in enumerate(all_subs):\n            expr.rename_tensor(f\"_tmp_name_{i}_\", new)\n", "")]),
    # R19j: the temporary names are resolved before all old names are parked
    dict(id="c19-rename-interleaved", prop="C19", file=T, expect="R19j",
         old="        for i, (old, _) in enumerate(all_subs):\n            expr.rename_tensor(old, f\"_tmp_name_{i}_\")\n"
             "        for i, (_, new) in enumerate(all_subs):\n            expr.rename_tensor(f\"_tmp_name_{i}_\", new)\n",
         new="        for i, (old, new) in enumerate(all_subs):\n            expr.rename_tensor(old, f\"_tmp_name_{i}_\")\n"
             "            expr.rename_tensor(f\"_tmp_name_{i}_\", new)\n"),
    # the two passes written with zip and a list of temporaries
    dict(id="c19-ok-rename-two-pass-zip", prop="C19", file=T, expect=None,
         old="        for i, (old, _) in enumerate(all_subs):\n            expr.rename_tensor(old, f\"_tmp_name_{i}_\")\n"
             "        for i, (_, new) in enumerate(all_subs):\n            expr.rename_tensor(f\"_tmp_name_{i}_\", new)\n",
         new="        parked = [f\"_tmp_name_{i}_\" for i in range(len(all_subs))]\n"
             "        for (old, _), tmp in zip(all_subs, parked):\n            expr.rename_tensor(current=old, new=tmp)\n"
             "        for (_, configured), tmp in zip(all_subs, parked):\n            expr.rename_tensor(tmp, configured)\n"),
    # list built from a set and put into canonical order in place (held-out refactoring 2F5)
    dict(id="c19-ok-sort-in-place", prop="C19", file=IM, expect=None,
         old="            contracted = tuple(sorted(\n                [s for s in itmd.atoms(Index) if s not in target],\n                key=sort_idx_canonical\n            ))\n        else:\n            contracted = (j, k, b, c)",
         new="            found = list(itmd.atoms(Index))\n            found = [s for s in found if s not in target]\n            found.sort(key=sort_idx_canonical)\n"
             "            contracted = tuple(found)\n        else:\n            contracted = (j, k, b, c)"),
    # ... but read before it is sorted
    dict(id="c19-sort-too-late", prop="C19", file=IM, expect="R19a",
         old="            contracted = tuple(sorted(\n                [s for s in itmd.atoms(Index) if s not in target],\n                key=sort_idx_canonical\n            ))\n        else:\n            contracted = (j, k, b, c)",
         new="            found = [s for s in itmd.atoms(Index) if s not in target]\n            contracted = tuple(found)\n            found.sort(key=sort_idx_canonical)\n"
             "        else:\n            contracted = (j, k, b, c)"),
    # the connected positions computed by a nested helper, occurrences collected with setdefault (held-out refactoring 2F2)
    dict(id="c19-ok-positions-helper", prop="C19", file=O, expect=None,
         edits=[("            if idx not in idx_occurences:\n                idx_occurences[idx] = []\n            idx_occurences[idx].append(pos)\n",
                 "            idx_occurences.setdefault(idx, []).append(pos)\n\n    def connected_positions(contracted_indices):\n"
                 "        return {pos for idx in contracted_indices\n                for pos in idx_occurences[idx]}\n"),
                ("        positions = {pos for idx in contracted for pos in idx_occurences[idx]}\n", "        positions = connected_positions(contracted)\n"),
                ("            new_positions = {\n                pos for idx in new_contracted for pos in idx_occurences[idx]\n            }\n",
                 "            new_positions = connected_positions(new_contracted)\n")]),
    # the order of a set of positions becomes the key of a group: found by the order-permuting evaluation
    dict(id="c19-group-key-unsorted", prop="C19", file=O, expect="R19a",
         old="        key = tuple(sorted(positions))\n        if key in groups:", new="        key = tuple(positions)\n        if key in groups:"),
    # only the first default amplitude name found is renamed
    dict(id="c19-rename-first-only", prop="C19", file=T, expect=["R19a", "R19j"],
         old="                    subs.append((sym.name, new + split_name[1]))\n            elif field.name == \"gs_density\":",
         new="                    subs.append((sym.name, new + split_name[1]))\n                    break\n            elif field.name == \"gs_density\":"),
    # the ordered read of the symbol set moves into a module-level helper (the discharge follows the code)
    dict(id="c19-ok-rename-helper", prop="C19", file=T, expect=None,
         edits=[("            if field.name == \"gs_amplitude\":  # special case for t_amplitudes\n                subs = []\n"
                 "                for sym in expr.sympy.atoms(Symbol):\n                    split_name = _split_default_t_amplitude(sym.name)\n"
                 "                    if split_name is None:\n                        continue\n"
                 "                    subs.append((sym.name, new + split_name[1]))\n",
                 "            if field.name == \"gs_amplitude\":  # special case for t_amplitudes\n"
                 "                subs = _prefixed_renames(expr, new, _split_default_t_amplitude)\n"),
                ("# init the TensorNames instance and overwrite the defaults with",
                 "def _prefixed_renames(expression, configured, splitter):\n    pairs = []\n    for symbol in expression.sympy.atoms(Symbol):\n"
                 "        parts = splitter(symbol.name)\n        if parts is not None:\n            pairs.append((symbol.name, configured + parts[1]))\n"
                 "    return pairs\n\n\n# init the TensorNames instance and overwrite the defaults with")]),
    # the three registry look-ups share one helper (held-out seed C19-7 without its defect)
    dict(id="c19-ok-lookup-helper", prop="C19", file=E, expect=None,
         edits=[("    @cached_property\n    def order(self):\n",
                 "    @cached_property\n    def intermediate(self):\n        from .intermediates import Intermediates\n\n"
                 "        if not isinstance(self.base, SymbolicTensor):\n            return None\n"
                 "        return Intermediates().available.get(self.longname(True), None)\n\n    @cached_property\n    def order(self):\n"),
                ("            itmd_cls = Intermediates().available.get(self.longname(True), None)\n            if itmd_cls is not None:",
                 "            if (itmd_cls := self.intermediate) is not None:"),
                ("        itmd = Intermediates().available.get(self.longname(True), None)\n        if itmd is None:\n            logger.warning(",
                 "        itmd = self.intermediate\n        if itmd is None:\n            logger.warning(")]),
    # ... and the helper forgets to ask for default names (seed C19-7)
    dict(id="c19-lookup-helper-configured", prop="C19", file=E, expect="R19c",
         edits=[("    @cached_property\n    def order(self):\n",
                 "    @cached_property\n    def intermediate(self):\n        from .intermediates import Intermediates\n\n"
                 "        if not isinstance(self.base, SymbolicTensor):\n            return None\n"
                 "        return Intermediates().available.get(self.longname(), None)\n\n    @cached_property\n    def order(self):\n"),
                ("            itmd_cls = Intermediates().available.get(self.longname(True), None)\n            if itmd_cls is not None:",
                 "            if (itmd_cls := self.intermediate) is not None:"),
                ("        itmd = Intermediates().available.get(self.longname(True), None)\n        if itmd is None:\n            logger.warning(",
                 "        itmd = self.intermediate\n        if itmd is None:\n            logger.warning(")]),
]

# ---------------------------------------------------------------------- round 4: sort keys that do not separate the elements
_ITMD_OLD = ("            spaces = [s.space_and_spin for s in base_contracted]\n            kwargs = Counter(\n"
             "                f\"{sp}_{spin}\" if spin else sp for sp, spin in spaces\n            )\n"
             "            contracted = Indices().get_generic_indices(**kwargs)\n            for new in contracted.values():\n"
             "                new.reverse()\n            for old, sp in zip(base_contracted, spaces):\n"
             "                subs[old] = contracted[sp].pop()\n            if any(li for li in contracted.values()):\n"
             "                raise RuntimeError(\"Generated more contracted indices than \"\n"
             "                                   f\"necessary. {contracted} are left.\")\n")


def _itmd_new(src):
    return ("            def space_and_spin(s): return s.space_and_spin\n"
            f"            base_contracted = sorted({src}, key=space_and_spin)\n"
            "            for key, old in groupby(base_contracted, key=space_and_spin):\n                old = tuple(old)\n"
            "                sp, spin = key\n                kwargs = {f\"{sp}_{spin}\" if spin else sp: len(old)}\n"
            "                new = Indices().get_generic_indices(**kwargs)[key]\n"
            "                subs.update({o: n for o, n in zip(old, new)})\n")


_ITMD_IMPORT = ("from itertools import product, chain\n", "from itertools import product, chain, groupby\n")
WITNESSES += [
    # contracted indices de-duplicated with set() and sorted by a key that does not separate them (held-out seed C19-9)
    dict(id="c19-sorted-set-partial-key", prop="C19", file=IM, expect="R19a",
         edits=[_ITMD_IMPORT, (_ITMD_OLD, _itmd_new("set(base_contracted)"))]),
    # the same grouping on the ordered tuple: the stable sort keeps the order of the definition within a space
    dict(id="c19-ok-sorted-tuple-partial-key", prop="C19", file=IM, expect=None,
         edits=[_ITMD_IMPORT, (_ITMD_OLD, _itmd_new("base_contracted"))]),
    # one element chosen among the ties of a set
    dict(id="c19-min-of-set-partial-key", prop="C19", file=E, expect="R19a",
         old="        remaining_idx = result.atoms(Index)\n        assert len(remaining_idx) == 1  # only one of the indices can survive\n"
             "        remaining_idx = remaining_idx.pop()",
         new="        remaining_idx = min(result.atoms(Index), key=lambda s: s.space)"),
    # a set sorted with the canonical (total) key may be read in order
    dict(id="c19-ok-sorted-set-total-key", prop="C19", file=IM, expect=None,
         old="            contracted = tuple(sorted(\n                [s for s in itmd.atoms(Index) if s not in target],\n                key=sort_idx_canonical\n            ))\n        else:\n            contracted = (j, k, b, c)",
         new="            contracted = tuple(sorted(itmd.atoms(Index) - set(target), key=sort_idx_canonical))\n        else:\n            contracted = (j, k, b, c)"),
    # ... but not with a key that only looks at the name
    dict(id="c19-sorted-set-by-name", prop="C19", file=IM, expect="R19a",
         old="            contracted = tuple(sorted(\n                [s for s in itmd.atoms(Index) if s not in target],\n                key=sort_idx_canonical\n            ))\n        else:\n            contracted = (j, k, b, c)",
         new="            contracted = tuple(sorted(itmd.atoms(Index) - set(target), key=lambda s: s.name[0]))\n        else:\n            contracted = (j, k, b, c)"),
]

# ---------------------------------------------------------------------- round 4: the consumer of a set iteration lives in a helper
_SPIN_OLD = ("                missing_contracted = []\n                for idx in missing_indices:\n"
             "                    spin = target_idx_spin_map.get(idx, None)\n"
             "                    if spin is not None:  # is a target index -> just add\n"
             "                        idx_map[target_idx_spin_map[idx]].add(idx)\n"
             "                    else:  # is a contracted index -> need to try both spins\n"
             "                        missing_contracted.append(idx)\n")
_SPIN_ANCHOR = "def integrate_spin(expr: Expr, target_idx: str, target_spin: str) -> Expr:"
WITNESSES += [
    # the loop that consumes the indices of the term set moves into a module-level private helper (mirrors refactoring 4E5)
    dict(id="c19-ok-set-consumer-in-helper", prop="C19", file=SP, expect=None,
         edits=[(_SPIN_OLD, "                missing_contracted = _assign_target_spins(missing_indices, idx_map, target_idx_spin_map)\n"),
                (_SPIN_ANCHOR, "def _assign_target_spins(indices, spin_sets, spin_of_target):\n    contracted = []\n    for index in indices:\n"
                               "        spin = spin_of_target.get(index, None)\n        if spin is not None:\n"
                               "            spin_sets[spin_of_target[index]].add(index)\n        else:\n"
                               "            contracted.append(index)\n    return contracted\n\n\n" + _SPIN_ANCHOR)]),
    # ... a helper that really is order-sensitive: only the first missing contracted index gets both spins
    dict(id="c19-set-consumer-helper-first", prop="C19", file=SP, expect="R19a",
         edits=[(_SPIN_OLD, "                missing_contracted = _assign_target_spins(missing_indices, idx_map, target_idx_spin_map)\n"),
                (_SPIN_ANCHOR, "def _assign_target_spins(indices, spin_sets, spin_of_target):\n    contracted = []\n    for index in indices:\n"
                               "        spin = spin_of_target.get(index, None)\n        if spin is not None:\n"
                               "            spin_sets[spin_of_target[index]].add(index)\n        else:\n"
                               "            contracted.append(index)\n    return contracted[:1]\n\n\n" + _SPIN_ANCHOR)]),
    # ... a helper that pairs the set order with an ordered list
    dict(id="c19-set-consumer-helper-zip", prop="C19", file=SP, expect="R19a",
         edits=[("        term_indices = set(term.idx)\n", "        term_indices = set(term.idx)\n        numbered = _number(term_indices)\n"),
                (_SPIN_ANCHOR, "def _number(indices):\n    return dict(zip(indices, range(len(indices))))\n\n\n" + _SPIN_ANCHOR),
                ("        contribution = Expr(0, **expr.assumptions)\n", "        contribution = Expr(numbered[sorted_target[0]] if sorted_target else 0, **expr.assumptions)\n")]),
]

# ---------------------------------------------------------------------- F50: representative of equivalent terms in simplify
SI = "simplify.py"
_F50_NEW = ("    terms = sorted(\n        expr.terms,\n        key=lambda t: str(t.substitute_contracted(return_sympy=True))\n    )\n")
WITNESSES += [
    dict(id="c19-simplify-representative-revert", prop="C19", file=SI, expect="R19k", old=_F50_NEW, new="    terms = expr.terms\n"),
    # sorted by something that still follows the names (the position in Expr.terms breaks the tie first)
    dict(id="c19-simplify-representative-by-position", prop="C19", file=SI, expect="R19k", old=_F50_NEW,
         new="    terms = [t for _, t in sorted(enumerate(expr.terms), key=lambda kt: kt[0])]\n"),
    # the same canonical order established by an in-place sort with a nested key function
    dict(id="c19-ok-simplify-representative-inplace", prop="C19", file=SI, expect=None, old=_F50_NEW,
         new="    def lowest_index_form(term):\n        return str(term.substitute_contracted(return_sympy=True))\n\n"
             "    terms = list(expr.terms)\n    terms.sort(key=lowest_index_form)\n"),
]

# ---------------------------------------------------------------------- round 5: the atoms()-ordered target list of wicks
FU = "func.py"
_WICKS_OLD = ("                target = _indices_on_single_object(expr)\n                result = Add(*[\n                    evaluate_deltas(\n"
              "                        term, target_idx=target + [\n                            s for s in _indices_on_single_object(term)\n"
              "                            if s not in target\n                        ]\n                    ) for term in Add.make_args(result)\n"
              "                ])\n")
_WICKS_ANCHOR = "def _contract_operator_string(op_string: list) -> Add:"


def _wicks_helper(first_only):
    sel = "[:1]" if first_only else ""
    return ("def _evaluate_contraction_deltas(expr, contracted):\n"
            f"    protected = _indices_on_single_object(expr){sel}\n    evaluated = []\n    for term in Add.make_args(contracted):\n"
            "        own = [s for s in _indices_on_single_object(term) if s not in protected]\n"
            "        evaluated.append(evaluate_deltas(term, target_idx=protected + own))\n    return Add(*evaluated)\n\n\n" + _WICKS_ANCHOR)


WITNESSES += [
    # the delta evaluation of wicks moves into a private helper (mirrors refactoring 5A5): the list still only serves membership tests
    dict(id="c19-ok-wicks-delta-helper", prop="C19", file=FU, expect=None,
         edits=[(_WICKS_OLD, "                result = _evaluate_contraction_deltas(expr, result)\n"), (_WICKS_ANCHOR, _wicks_helper(False))]),
    # ... but only the first index of the atoms()-ordered list is protected
    dict(id="c19-wicks-delta-helper-first", prop="C19", file=FU, expect="R19a",
         edits=[(_WICKS_OLD, "                result = _evaluate_contraction_deltas(expr, result)\n"), (_WICKS_ANCHOR, _wicks_helper(True))]),
]

_F58_OLD = ("        self._expr = renamed\n        # the new name might belong to a tensor with known bra-ket\n"
            "        # (anti)symmetry -> apply it to the renamed tensors\n"
            "        if new in self._sym_tensors or new in self._antisym_tensors:\n            self._apply_tensor_braket_sym()\n        return self\n")

WITNESSES += [
    # F58: revert of 4d94c6e (the renamed sum is stored without the bra-ket symmetry the container declares for the new name)
    dict(id="F58-revert", prop="C19", file=E, expect="R19j", old=_F58_OLD, new="        self._expr = renamed\n        return self\n"),
    # ... the symmetry is only re-applied for symmetric, not for antisymmetric declarations
    dict(id="c19-rename-braket-sym-only", prop="C19", file=E, expect="R19j",
         old="        if new in self._sym_tensors or new in self._antisym_tensors:\n            self._apply_tensor_braket_sym()\n        return self\n",
         new="        if new in self._sym_tensors:\n            self._apply_tensor_braket_sym()\n        return self\n"),
    # ... the declaration of the OLD name decides
    dict(id="c19-rename-braket-old-name", prop="C19", file=E, expect="R19j",
         old="        if new in self._sym_tensors or new in self._antisym_tensors:\n            self._apply_tensor_braket_sym()\n        return self\n",
         new="        if current in self._sym_tensors or current in self._antisym_tensors:\n            self._apply_tensor_braket_sym()\n        return self\n"),
    # ... the symmetry is applied before the renamed sum is stored (to the tensors that still carry the old name)
    dict(id="c19-rename-braket-before-store", prop="C19", file=E, expect="R19j", old=_F58_OLD,
         new="        if new in self._sym_tensors or new in self._antisym_tensors:\n            self._apply_tensor_braket_sym()\n"
             "        self._expr = renamed\n        return self\n"),
    # preserving twins: the symmetry is applied unconditionally (idempotent on a consistent container) ...
    dict(id="c19-ok-rename-braket-always", prop="C19", file=E, expect=None, old=_F58_OLD,
         new="        self._expr = renamed\n        self._apply_tensor_braket_sym()\n        return self\n"),
    # ... the renamed terms are collected with a comprehension and the declaration is tested on the union through the properties
    dict(id="c19-ok-rename-braket-comprehension", prop="C19", file=E, expect=None,
         old="        renamed = 0\n        for t in self.terms:\n            renamed += t.rename_tensor(current, new, return_sympy=True)\n" + _F58_OLD,
         new="        self._expr = Add(*[term.rename_tensor(current=current, new=new, return_sympy=True)\n"
             "                           for term in self.terms])\n"
             "        declared = set(self.sym_tensors) | set(self.antisym_tensors)\n"
             "        if new not in declared:\n            return self\n        return self._apply_tensor_braket_sym()\n"),
]
