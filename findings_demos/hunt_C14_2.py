"""derivative() ignores repeated indices and target indices on the tensor.

Run from the worktree root:  /venv/bin/python hunt_out/2/demo.py
exit 1: defect present, exit 0: fixed.

Property: sum_blocks sum_{all indices of the block} D_block * dT_block has to
be the first-order change of the expression for an arbitrary variation dT that
has the symmetry of the tensor. All expressions below are linear in the tensor,
so the first order change is the expression evaluated with dT instead of T.
"""
import os
import sys
sys.path.insert(0, os.getcwd())
import itertools  # noqa E402
import random  # noqa E402
from sympy import Add, Mul, Pow, Rational, S, expand  # noqa E402
from adcgen import Expr, derivative  # noqa E402
from adcgen.indices import get_symbols  # noqa E402
from adcgen.sympy_objects import (  # noqa E402
    AntiSymmetricTensor, SymmetricTensor, NonSymmetricTensor, KroneckerDelta
)

NO, NV = 2, 2  # occ orbitals: 0, 1; virt orbitals: 2, 3


def idx_range(s):
    return {"occ": range(NO), "virt": range(NO, NO + NV),
            "general": range(NO + NV)}[s.space]


class Tables:
    """Random rational tensor elements that respect the tensor symmetry."""

    def __init__(self, seed):
        self.rng = random.Random(seed)
        self.data = {}

    def get(self, key):
        if key not in self.data:
            self.data[key] = Rational(self.rng.randint(1, 9),
                                      self.rng.randint(1, 5))
        return self.data[key]

    def tensor(self, t, val):
        if isinstance(t, NonSymmetricTensor):
            return self.get((t.name, tuple(val[s] for s in t.indices)))
        u = [val[s] for s in t.upper]
        lo = [val[s] for s in t.lower]
        sign = 1
        if not isinstance(t, SymmetricTensor):  # antisymmetric
            for x in (u, lo):
                if len(set(x)) != len(x):
                    return S.Zero
                for i in range(len(x)):  # parity of the sorting permutation
                    for j in range(i + 1, len(x)):
                        if x[i] > x[j]:
                            sign = -sign
        u, lo = tuple(sorted(u)), tuple(sorted(lo))
        if t.bra_ket_sym is not S.Zero and (lo, u) < (u, lo):
            u, lo = lo, u
            sign *= int(t.bra_ket_sym)
        return sign * self.get((t.name, u, lo))

    def value(self, o, val):
        if o.is_number:
            return o
        if isinstance(o, (Mul, Add)):
            return o.func(*(self.value(a, val) for a in o.args))
        if isinstance(o, Pow):
            return self.value(o.args[0], val) ** o.args[1]
        if isinstance(o, KroneckerDelta):
            return S.One if val[o.args[0]] == val[o.args[1]] else S.Zero
        return self.tensor(o, val)


def evaluate(expr, free_val, tables):
    """Sum of all terms. The indices in free_val are fixed, all other indices
    of a term are summed."""
    res = S.Zero
    for term in Expr(expr.sympy).expand().terms:
        contracted = sorted(set(s for s in term.idx if s not in free_val),
                            key=lambda s: s.name)
        for vals in itertools.product(*(idx_range(s) for s in contracted)):
            val = dict(free_val)
            val.update(zip(contracted, vals))
            res += tables.value(term.sympy, val)
    return expand(res)


def contract(deriv, blocks, target_val, tables, dtables):
    """sum_blocks sum_idx D_block(idx) dT_block(idx)"""
    res = S.Zero
    for key, d_expr in deriv.items():
        d_tensor = blocks[key]
        idx = [s for s in d_tensor.idx if s not in target_val]
        for vals in itertools.product(*(idx_range(s) for s in idx)):
            val = dict(target_val)
            val.update(zip(idx, vals))
            dt = dtables.value(d_tensor, val)
            if dt != 0:
                res += dt * evaluate(d_expr, val, tables)
    return expand(res)


i, j, k, l, a, b, c = get_symbols("ijklabc")
failed = False


def check(label, expr, name, blocks, target=(), alt_blocks=None):
    """blocks: the tensor blocks with the lowest non-target indices, i.e., the
    indices the block expressions of 'derivative' are expressed in.
    alt_blocks: alternative reading for tensors that hold a target index: the
    target index stays on the block and is not summed."""
    global failed
    tables, dtables = Tables(1), Tables(2)
    deriv = derivative(expr, name)
    print(f"\n{label}\n  expr       = {expr}")
    for key, val in deriv.items():
        print(f"  derivative {key} = {val}")
    for tvals in itertools.product(*(idx_range(s) for s in target)):
        tval = dict(zip(target, tvals))
        # expr is linear in the tensor:
        # first order change = expr(T=dT) - expr(T=0)
        ref = (evaluate(expr, tval, TablesWithVariation(tables, dtables, name))
               - evaluate(expr, tval, TablesWithVariation(tables, None, name)))
        got = contract(deriv, blocks, tval, tables, dtables)
        alt = got
        if alt_blocks is not None:
            alt = contract(deriv, alt_blocks, tval, tables, dtables)
        if ref != got and ref != alt:
            failed = True
            print(f"  target {tval}: first order change of expr = {ref}, "
                  f"derivative contracted with the variation = {got}"
                  + (f" (or {alt} if the target index is kept on the block)"
                     if alt_blocks is not None else "") + "   WRONG")
            break
    else:
        print("  ok")


class TablesWithVariation(Tables):
    """uses the variation dT (or 0) for the tensor 'name' and T for the rest."""

    def __init__(self, tables, dtables, name):
        self.t, self.dt, self.name = tables, dtables, name

    def tensor(self, t, val):
        if t.name != self.name:
            return self.t.tensor(t, val)
        return S.Zero if self.dt is None else self.dt.tensor(t, val)


def f(u, lo, bk=0):
    return AntiSymmetricTensor("f", u, lo, bk)


def V(u, lo, bk=0):
    return AntiSymmetricTensor("V", u, lo, bk)


def Z(*idx):
    return NonSymmetricTensor("Z", idx)


# 1) repeated indices: the Hartree-Fock energy sum_i f_ii - 1/2 sum_ij V_ijij
e_hf = Expr(f((i,), (i,)) - Rational(1, 2) * V((i, j), (i, j)))
check("HF energy, derivative w.r.t. f", e_hf, "f",
      {("oo", "nn"): f((i,), (j,))})
check("HF energy, derivative w.r.t. V", e_hf, "V",
      {("oooo", "nnnn"): V((i, j), (k, l))})
# 2) repeated index and a remainder
check("sum_ijk V^ij_ik Z_jk", Expr(V((i, j), (i, k)) * Z(j, k)), "V",
      {("oooo", "nnnn"): V((i, j), (k, l))})
# 3) target index on a bra-ket symmetric tensor: E_c = 1/2 sum_b f^b_c Z_b
check("E_c = 1/2 sum_b f^b_c Z_b  (f bra-ket symmetric)",
      Expr(Rational(1, 2) * f((b,), (c,), 1) * Z(b)), "f",
      {("vv", "nn"): f((a,), (b,), 1)}, target=(c,),
      alt_blocks={("vv", "nn"): f((a,), (c,), 1)})
# control: no repeated/target indices
check("control: sum_ia f^i_a Z_ia", Expr(f((i,), (a,)) * Z(i, a)), "f",
      {("ov", "nn"): f((i,), (a,))})

sys.exit(1 if failed else 0)
