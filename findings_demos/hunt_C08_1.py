"""
PermutationProduct reorders permutation operators that do not commute.

Run from the worktree root:  /venv/bin/python hunt_out/1/demo.py
exit code 1: defect present, exit code 0: defect fixed
"""
import os
import sys
sys.path.insert(0, os.getcwd())

from adcgen import Expr, NonSymmetricTensor, get_symbols  # noqa E402
from adcgen.symmetry import Permutation, PermutationProduct  # noqa E402
import adcgen  # noqa E402

print("using", adcgen.__file__)

failed = False


def check(label, perms, tensor_indices):
    global failed
    tensor = NonSymmetricTensor("X", tensor_indices)
    # reference: apply the transpositions one after another in the given order
    ref = tensor
    for p, q in perms:
        ref = ref.xreplace({p: q, q: p})
    # Container.permute is documented to apply them one after another
    direct = Expr(tensor).permute(*perms).sympy
    # the same product of permutation operators wrapped in PermutationProduct
    product = PermutationProduct([Permutation(p, q) for p, q in perms])
    via_product = Expr(tensor).permute(*product).sympy
    print(f"--- {label}")
    print("operators as given        :", [Permutation(*p) for p in perms])
    print("PermutationProduct order  :", list(product))
    print("sequential transpositions :", ref)
    print("Expr.permute(*perms)      :", direct)
    print("Expr.permute(*product)    :", via_product)
    if direct != ref:
        print("   -> MISMATCH of Expr.permute and the sequential application")
        failed = True
    if via_product != ref:
        print("   -> MISMATCH: PermutationProduct changed the operator")
        failed = True


# example 1: spin orbitals + one alpha index (4 index classes: g, oa, o, v)
#   P_{p i_alpha} P_{q i} P_{a b} P_{l a}
#   the links g-oa, g-o, o-v form a chain -> all 4 classes are linked and the
#   order of P_{ab} and P_{la} must be maintained
p, q = get_symbols("pq")
i, l = get_symbols("il")
a, b = get_symbols("ab")
ia, = get_symbols("i", "a")
check("g-oa / g-o / o-v chain",
      [(p, ia), (q, i), (a, b), (l, a)],
      (p, q, i, l, a, b, ia))

# example 2: spatial orbitals only (classes oa, ob, va, vb)
#   P_{i_a b_b} P_{i_b i_a} P_{b_a a_a} P_{i_b a_a}
ia, ja = get_symbols("ij", "aa")
ib, jb = get_symbols("ij", "bb")
aa, ba = get_symbols("ab", "aa")
ab, bb = get_symbols("ab", "bb")
check("oa-vb / oa-ob / ob-va chain",
      [(ia, bb), (ib, ia), (ba, aa), (ib, aa)],
      (ia, ja, ib, jb, aa, ba, ab, bb))

# brute force: random operator strings over all index classes
import random  # noqa E402
random.seed(0)
pool = (get_symbols("ijk") + get_symbols("abc") + get_symbols("pqr")
        + get_symbols("ijab", "aaaa") + get_symbols("ijab", "bbbb"))
tensor = NonSymmetricTensor("X", pool)
n_bad = 0
n_total = 3000
for _ in range(n_total):
    perms = [tuple(random.sample(pool, 2)) for _ in range(random.randint(2, 5))]
    ref = tensor
    for x, y in perms:
        ref = ref.xreplace({x: y, y: x})
    product = PermutationProduct([Permutation(x, y) for x, y in perms])
    if Expr(tensor).permute(*product).sympy != ref:
        n_bad += 1
print(f"--- random operator strings: {n_bad} of {n_total} products were "
      "changed by PermutationProduct")
if n_bad:
    failed = True

sys.exit(1 if failed else 0)
