"""
C11 / defect 2: expanding an intermediate and factoring it again changes the
value of the expression (wrong position labels for 'alias' matches of long
intermediates whose tensor has a permutational symmetry).

1) p3^{i}_{j} (third order MP density, occ-occ block, target i,j):
       expr.expand_intermediates() -> factor_intermediates(..., ['p0_3_oo'])
   returns  1/2 p3^{i}_{j} + 7 further terms  which is not equal to p3^{i}_{j}.
2) sum_ab (t2^{ab}_{ij})^2 (second order MP doubles, target i,j): expanded
   once into first order amplitudes and factored again with ['t2_1', 't2_2'].

The check is a brute force evaluation (exact rationals, 2 occupied and
2 virtual orbitals, random antisymmetric + bra-ket symmetric ERI) of the fully
expanded input and the fully expanded result.
Run from the worktree root: /venv/bin/python hunt_out/2/demo.py
(takes 1-2 minutes)
"""
import os
import sys
import itertools
import hashlib
from fractions import Fraction
sys.path.insert(0, os.getcwd())
os.environ.setdefault("ADCGEN_LOG_LEVEL", "ERROR")

from sympy import Add, Mul, Pow, Rational  # noqa E402
from adcgen.expr_container import Expr  # noqa E402
from adcgen.indices import Index, get_symbols  # noqa E402
from adcgen.sympy_objects import (  # noqa E402
    AntiSymmetricTensor, NonSymmetricTensor, Amplitude
)
from adcgen.intermediates import eri, orb_energy  # noqa E402
from adcgen.factor_intermediates import factor_intermediates  # noqa E402

NO, NV = 2, 2


_cache = {}


def rnd(*key):
    if key not in _cache:
        _cache[key] = _rnd(*key)
    return _cache[key]


def _rnd(*key):
    h = hashlib.sha256(repr(key).encode()).digest()
    return Fraction(h[0] % 17 - 8 or 3, h[1] % 5 + 1)


def sort_sign(t):
    t, sign = list(t), 1
    for i in range(len(t)):
        for j in range(len(t) - 1 - i):
            if t[j] > t[j + 1]:
                t[j], t[j + 1], sign = t[j + 1], t[j], -sign
    if any(x == y for x, y in zip(t, t[1:])):
        return tuple(t), 0
    return tuple(t), sign


def tensor(t, val):
    if isinstance(t, NonSymmetricTensor):
        idx = tuple(val[s] for s in t.idx)
        if t.name == "e":  # orbital energies: occ < 0 < virt
            p = idx[0]
            return rnd("e", p) / 100 + (-1 - p if p < NO else 1 + p)
        return rnd(t.name, idx)
    up, s1 = sort_sign(val[s] for s in t.upper)
    lo, s2 = sort_sign(val[s] for s in t.lower)
    if s1 * s2 == 0:
        return Fraction(0)
    if t.name == "V" and lo < up:  # real orbitals: <pq||rs> = <rs||pq>
        up, lo = lo, up
    return s1 * s2 * rnd(t.name, up, lo)


def value(x, val):
    if x.is_Rational:
        return Fraction(int(x.p), int(x.q))
    if isinstance(x, (AntiSymmetricTensor, NonSymmetricTensor)):
        return tensor(x, val)
    if isinstance(x, Pow):
        return value(x.base, val) ** int(x.exp)
    if isinstance(x, Mul):
        res = Fraction(1)
        for arg in x.args:
            res *= value(arg, val)
        return res
    if isinstance(x, Add):
        return sum(value(arg, val) for arg in x.args)
    raise TypeError(f"{x}: {type(x)}")


def rng(s):
    return range(NO) if s.space == "occ" else range(NO, NO + NV)


def term_value(term, val):
    """sum the term over all indices that have no value yet (depth first,
       a factor is evaluated as soon as all of its indices are known)."""
    factors = [(f, f.atoms(Index)) for f in Mul.make_args(term)]
    order = sorted(set().union(*(idx for _, idx in factors)) - set(val),
                   key=lambda s: s.name)
    known, levels = set(val), []
    for s in [None] + order:
        known.add(s)
        levels.append([f for f, idx in factors if idx <= known and
                       not any(f is g for lv in levels for g in lv)])

    def rec(depth):
        res = Fraction(1)
        for f in levels[depth]:
            res *= value(f, val)
            if not res:
                return res
        if depth == len(order):
            return res
        tot = Fraction(0)
        for v in rng(order[depth]):
            val[order[depth]] = v
            tot += rec(depth + 1)
        del val[order[depth]]
        return res * tot
    return rec(0)


def evaluate(expr, target):
    """value of the expression for all values of the target indices; all
       other indices of a term are summed."""
    res = {}
    terms = Add.make_args(expr.expand())
    for tv in itertools.product(*[rng(s) for s in target]):
        res[tv] = sum((term_value(term, dict(zip(target, tv)))
                       for term in terms), Fraction(0))
    return res


def check(label, sympy_expr, target, itmds, fully_expand):
    target = get_symbols(target)
    expr = Expr(sympy_expr, real=True, target_idx=target)
    expanded = expr.copy().expand_intermediates(fully_expand=fully_expand)
    expanded = expanded.expand()
    factored = factor_intermediates(expanded.copy(), itmds)
    ref = evaluate(expr.copy().expand_intermediates().sympy, target)
    inp = evaluate(expanded.copy().expand_intermediates().sympy, target)
    res = evaluate(factored.copy().expand_intermediates().sympy, target)
    assert ref == inp  # the expansion is fine
    bad = [k for k in ref if ref[k] != res[k]]
    print(f"{label}\n  input   : {expr} -> expanded into {len(expanded)} "
          f"terms\n  factored: {str(factored)[:300]} ...")
    if bad:
        k = bad[0]
        print(f"  MISMATCH for {len(bad)} of {len(ref)} target index values,"
              f" e.g. {dict(zip(target, k))}: input {ref[k]} != "
              f"factored {res[k]}")
    else:
        print("  values agree")
    return not bad


i, j, a, b = get_symbols("ijab")
ok = True
p3 = AntiSymmetricTensor("p3", (i,), (j,), 1)
ok &= check("p0_3_oo, fully expanded", p3, "ij", ["p0_3_oo"], True)
ok &= check("p0_3_oo, fully expanded, t2_1 factored first", p3, "ij",
            ["t2_1", "p0_3_oo"], True)
t2 = Amplitude("t2", (a, b), (i, j))
ok &= check("t2_2 squared, once expanded", t2**2, "ij", ["t2_1", "t2_2"],
            False)
sys.exit(0 if ok else 1)
