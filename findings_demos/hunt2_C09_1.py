"""
C09: evaluate_deltas without target_idx (Einstein sum convention) evaluates a
delta although the surviving TARGET index then occurs more than once in the
result, i.e. the library itself reads the result with the target index as a
contracted (summed) index: the value changes and the target index is lost.

Run from the worktree root:  /venv/bin/python hunt_out/1/demo.py
"""
import itertools
import os
import sys
from fractions import Fraction
sys.path.insert(0, os.getcwd())

from sympy import Mul, Pow  # noqa E402
import adcgen  # noqa E402
from adcgen import evaluate_deltas, Expr  # noqa E402
from adcgen.indices import get_symbols, Index  # noqa E402
from adcgen.sympy_objects import KroneckerDelta, NonSymmetricTensor  # noqa E402

print("adcgen from", adcgen.__file__)
i, j, k = get_symbols("ijk")
a, = get_symbols("a")
p, = get_symbols("p")
ia, = get_symbols("i", "a")


def T(name, *idx):
    return NonSymmetricTensor(name, idx)


NOCC = 2


def numeric(term, targets, assignment):
    """sum over all non target (occupied, spin free) indices with fixed
    tensors X_n = n + 2, Y_n = 3n + 1, Z_nm = 5n + m + 1"""
    vals = {"X": lambda n: Fraction(n + 2), "Y": lambda n: Fraction(3*n + 1),
            "Z": lambda n, m: Fraction(5*n + m + 1)}
    contracted = sorted((s for s in term.atoms(Index) if s not in targets),
                        key=lambda s: s.name)
    total = Fraction(0)
    for combo in itertools.product(range(NOCC), repeat=len(contracted)):
        asg = dict(assignment)
        asg.update(zip(contracted, combo))
        val = Fraction(1)
        for obj in Mul.make_args(term):
            base, exp = obj.as_base_exp()
            if isinstance(base, KroneckerDelta):
                v = Fraction(int(asg[base.args[0]] == asg[base.args[1]]))
            elif isinstance(base, NonSymmetricTensor):
                v = vals[base.name](*(asg[s] for s in base.indices))
            else:
                v = Fraction(int(base))
            val *= v ** int(exp)
        total += val
    return total


cases = [
    ("delta_ij X_j Y_j", KroneckerDelta(i, j) * T("X", j) * T("Y", j)),
    ("delta_ij X_j^2", KroneckerDelta(i, j) * T("X", j)**2),
    ("delta_ij Z_jj", KroneckerDelta(i, j) * T("Z", j, j)),
    ("delta_ij Z_jk X_j Y_k",
     KroneckerDelta(i, j) * T("Z", j, k) * T("X", j) * T("Y", k)),
]
failed = False
for label, term in cases:
    before = Expr(term).terms[0]
    res = evaluate_deltas(term)
    after = Expr(res).terms[0]
    t_before, t_after = before.target, after.target
    ok = set(t_before) == set(t_after)
    if ok:  # compare the values for every assignment of the targets
        for combo in itertools.product(range(NOCC), repeat=len(t_before)):
            asg = dict(zip(t_before, combo))
            if numeric(term, t_before, asg) != numeric(res, t_after, asg):
                ok = False
    else:
        asg = {s: 1 for s in t_before}
        print(f"  value of the input for {asg}:",
              numeric(term, t_before, asg),
              "| value of the result (no target index left):",
              numeric(res, t_after, {}))
    print(f"{label}: target {t_before}  ->  {res}: target {t_after}  "
          f"{'ok' if ok else 'WRONG'}")
    failed |= not ok

# explicit target indices still have to evaluate these deltas
res = evaluate_deltas(cases[0][1], target_idx="i")
assert res == T("X", i) * T("Y", i), res
# and the plain Einstein cases are still evaluated
assert evaluate_deltas(KroneckerDelta(i, j) * T("X", j)) == T("X", i)
assert evaluate_deltas(KroneckerDelta(i, j) * T("Z", i, j)) in \
    (T("Z", i, i), T("Z", j, j))
sys.exit(1 if failed else 0)
