"""
C19 (tensor-name config): tensor names that 'sympify' turns into sympy
objects ('E', 'I', 'S', 'N', 'O', 'Q', 'pi', 'gamma', ...) break the library.
Configuring e.g. the orbital energies as 'E' and the operator matrix as 'S'
makes the standard requests fail, while any other one-letter renaming works.
Run from the worktree root: /venv/bin/python hunt_out/2/demo.py
"""
import json
import os
import shutil
import subprocess
import sys
import tempfile

ROOT = os.getcwd()

CHILD = r'''
import sys
sys.path.insert(0, sys.argv[1])
import adcgen
assert adcgen.__file__.startswith(sys.argv[1]), adcgen.__file__
from adcgen import (Operators, GroundState, Expr, simplify, Intermediates,
                    tensor_names as tn)
gs = GroundState(Operators())
# 1) second order ground state energy in the canonical basis with the first
#    order doubles inserted:  -1/4 <ij||ab>^2 / (e_a + e_b - e_i - e_j)
e2 = Expr(gs.energy(2), real=True).expand_intermediates()
e2 = e2.substitute_contracted()
print("E2", e2)
# 2) first order one-particle expectation value (contains the operator matrix)
d = simplify(Expr(gs.expectation_value(2, 1), real=True)).substitute_contracted()
print("D2", len(d), "terms")
print("OK", len(e2), len(d))
'''


def run(pkg_root, label):
    out = subprocess.run([sys.executable, "-c", CHILD, pkg_root],
                         capture_output=True, text=True)
    ok = [li for li in out.stdout.splitlines() if li.startswith("OK")]
    if out.returncode or not ok:
        err = out.stderr.strip().splitlines()
        print(f"  {label}: FAILED: {err[-1] if err else out.stdout}")
        return None
    for li in out.stdout.splitlines():
        if li.startswith(("E2", "D2")):
            print(f"  {label}: {li}")
    return ok[0]


def with_config(changes):
    tmp = tempfile.mkdtemp(prefix="adcgen_cfg_")
    try:
        shutil.copytree(os.path.join(ROOT, "adcgen"),
                        os.path.join(tmp, "adcgen"))
        cfg_file = os.path.join(tmp, "adcgen", "tensor_names.json")
        cfg = json.load(open(cfg_file))
        cfg.update(changes)
        json.dump(cfg, open(cfg_file, "w"))
        return run(tmp, str(changes))
    finally:
        shutil.rmtree(tmp)


ref = run(ROOT, "default names")
other = with_config({"orb_energy": "x", "operator": "B"})
bad = with_config({"orb_energy": "E", "operator": "S"})
if ref is None or other != ref:
    print("unexpected: reference runs differ")
    sys.exit(2)
if bad != ref:
    print("DIFFERENT: with orb_energy='E', operator='S' the same requests do "
          f"not give the renamed result (expected '{ref}', got {bad})")
    sys.exit(1)
sys.exit(0)
