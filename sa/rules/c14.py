"""C14 remove_tensor / derivative (structural clauses)."""
from __future__ import annotations

import ast

from ..model import AnalysisError, U, Defs, calls_in, call_name, walk_fn, kwarg, enclosing, enclosing_stmt
from ..pathcond import conditions
from . import common
from .c13 import symmetriser_normalisation

EXPLANATION = (
    "R14a: prefactor guards in remove_tensor.remove (x1/2 iff the tensor has non-zero bra-ket "
    "symmetry; x1/sqrt(n_sym+1) iff ADC amplitude, which must have bra-ket symmetry 0; the sign "
    "from re-canonicalising the removed tensor is moved to the term). R14b: every (perms, factor) "
    "of the removed tensor's symmetry is applied once with its factor, starting from the "
    "unpermuted term (both functions); derivative normalises by 1/(n_sym+1). R14c: every target "
    "or repeated index replaced on the removed tensor is paired with a KroneckerDelta(old, new), "
    "new of the same (space, spin) and outside the used names. R14d (A6): process_term lowers an "
    "exponent > 1 by one and multiplies the lowered power back; derivative's placeholder "
    "x**exponent is back-substituted by the BASE of the tensor. R14e: product rule over all "
    "occurrences, block keys from the space/spin of the removed tensor, contributions "
    "accumulated per key. R08g: minimize_tensor_indices (used by both functions) on all index tuples of length <= 3.")
ASSUMPTIONS = ["the round-trip value is not decided"]

RM = "simplify:remove_tensor."


def r14a(ctx):
    rule = "R14a"
    fn = ctx.model.fn(RM + "remove")
    muls = [n for n in walk_fn(fn) if isinstance(n, ast.AugAssign) and U(n.target) == "term" and isinstance(n.op, ast.Mult)]
    half = [m for m in muls if U(m.value) == "Rational(1, 2)"]
    ok = len(half) == 1 and {("bra_ket_sym is None", False), ("bra_ket_sym is S.Zero", False)} <= conditions(half[0])
    ctx.check(rule, fn, ok, "x1/2 iff the removed tensor has bra-ket symmetry +-1",
              "the factor 1/2 is not applied exactly for tensors with non-zero bra-ket symmetry", key="half")
    sq = [m for m in muls if "sqrt" in U(m.value)]
    ok = len(sq) == 1 and U(sq[0].value).replace(" ", "") == "1/sqrt(len(tensor_sym)+1)" \
        and ("is_adc_amplitude(t_name)", True) in conditions(sq[0])
    ctx.check(rule, fn, ok, "ADC amplitudes: x 1/sqrt(n_sym + 1)", "amplitude-vector normalisation changed", key="sqrt")
    ra = [n for n in walk_fn(fn) if isinstance(n, ast.Raise) and ("is_adc_amplitude(t_name)", True) in conditions(n)
          and ("bra_ket_sym is S.Zero", False) in conditions(n)]
    ctx.check(rule, fn, len(ra) == 1, "ADC amplitudes with bra-ket symmetry refused", "bra-ket check for amplitudes removed", key="adc bks")
    pf = [m for m in muls if U(m.value) == "tensor.prefactor"]
    ctx.check(rule, fn, len(pf) == 1, "sign of the re-canonicalised tensor moved to the term", "tensor sign is not moved to the term",
              key="tensor sign")
    ts = [a for a in common.assigns_to(fn, "tensor_sym")]
    ctx.check(rule, fn, len(ts) == 1 and U(ts[0].value) == "tensor.symmetry()", "symmetry of the rebuilt (minimised) tensor",
              "symmetry source changed", key="tensor_sym")
    # rebuilt tensor: Amplitude indices = lower + upper; others upper + lower
    a = {}
    for n in walk_fn(fn):
        if isinstance(n, ast.Assign) and U(n.targets[0]) == "(upper, lower)":
            cs = conditions(n)
            a["amp" if ("isinstance(raw_tensor, Amplitude)", True) in cs else "other"] = U(n.value)
    ctx.check(rule, fn, a == {"amp": "(indices[n_l:], indices[:n_l])", "other": "(indices[:n_u], indices[n_u:])"},
              "index order of the tensor kinds respected when rebuilding", f"rebuild slices {a}", key="rebuild slices")
    nn = {U(x.targets[0]): U(x.value) for x in walk_fn(fn) if isinstance(x, ast.Assign) and U(x.targets[0]) in ("n_l", "n_u")}
    ctx.check(rule, fn, nn == {"n_l": "len(raw_tensor.lower)", "n_u": "len(raw_tensor.upper)"}, "group sizes from the removed tensor",
              f"{nn}", key="group sizes")
    rb = [c for c in calls_in(fn) if U(c.func) == "raw_tensor.__class__"]
    ctx.check(rule, fn, len(rb) == 1 and [U(x) for x in rb[0].args] == ["raw_tensor.name", "upper", "lower", "bra_ket_sym"],
              "same class, name and bra-ket symmetry", "rebuilt tensor arguments changed", key="rebuild args")
    mn = [n for n in walk_fn(fn) if isinstance(n, ast.Assign) and U(n.targets[0]) == "(indices, perms)"]
    ok = len(mn) == 1 and U(mn[0].value) == "minimize_tensor_indices(indices, target_indices)"
    ctx.check(rule, fn, ok, "tensor indices minimised, targets excluded", "minimisation call changed", key="minimise")
    pm = [n for n in walk_fn(fn) if isinstance(n, (ast.Assign, ast.AnnAssign)) and U(n.value) == "term.permute(*perms)"]
    ctx.check(rule, fn, len(pm) == 1, "the same permutations applied to the remaining term", "permutations not applied to the term",
              key="permute term")


def r14b(ctx):
    rule = "R14b"
    fn = ctx.model.fn(RM + "remove")
    lp = [n for n in walk_fn(fn) if isinstance(n, ast.For) and U(n.iter) == "tensor_sym.items()"]
    ok = len(lp) == 1 and U(lp[0].target) == "(perms, sym_factor)" and len(lp[0].body) == 1 \
        and U(lp[0].body[0]) == "symmetrized_term += term.copy().permute(*perms) * sym_factor"
    ctx.check(rule, fn, ok, "remove: every symmetry operation applied once with its factor",
              "remove: symmetrisation loop changed", key="remove sym loop")
    st = [a for a in common.assigns_to(fn, "symmetrized_term") if isinstance(a, ast.Assign)]
    ctx.check(rule, fn, len(st) == 1 and U(st[0].value) == "term.copy()", "starts from the unpermuted term", "symmetrisation start changed",
              key="remove sym start")
    r = common.returns_of(fn)
    ctx.check(rule, fn, U(r[-1].value) == "simplify(symmetrized_term)", "symmetrised term returned", "return changed", key="remove return")
    d = ctx.model.fn("derivative:derivative")
    lp = [n for n in walk_fn(d) if isinstance(n, ast.For) and U(n.iter) == "tensor_sym.items()"]
    ok = len(lp) == 1 and len(lp[0].body) == 1 and U(lp[0].body[0]).replace(" ", "") == \
        "symmetrized_deriv_contrib+=deriv_contrib.copy().permute(*perms).sympy*factor*x**exponent"
    ctx.check(rule, d, ok, "derivative: every symmetry operation applied once with its factor", "derivative: symmetrisation loop changed",
              key="deriv sym loop")
    st = [a for a in common.assigns_to(d, "symmetrized_deriv_contrib") if isinstance(a, ast.Assign)]
    ctx.check(rule, d, bool(st) and U(st[0].value).replace(" ", "") == "deriv_contrib.sympy*x**exponent", "starts from the unpermuted term",
              "derivative: symmetrisation start changed", key="deriv sym start")
    symmetriser_normalisation(ctx, rule, "derivative:derivative")
    ts = [a for a in common.assigns_to(d, "tensor_sym")]
    ctx.check(rule, d, len(ts) == 1 and U(ts[0].value) == "obj.symmetry()", "symmetry of the minimised tensor", "symmetry source changed",
              key="deriv tensor_sym")


def r14c(ctx):
    rule = "R14c"
    fn = ctx.model.fn(RM + "remove")
    deltas = [c for c in calls_in(fn) if call_name(c) == "KroneckerDelta"]
    ctx.floor(rule, "compensating deltas in remove", len(deltas), 0)
    iters = sorted(U(enclosing(c, ast.For).iter) for c in deltas)
    ctx.check(rule, fn, iters == ["sub.items()", "zip(idx_list, additional_indices)"],
              "a delta for every replaced target index and every replaced repeated index",
              f"compensating deltas exist only in the loops over {iters}; both the target-index replacement (sub.items()) and the "
              "repeated-index replacement (zip(idx_list, additional_indices)) need one", key="delta pairing")
    for c in deltas:
        st = enclosing_stmt(c)
        lp = enclosing(c, ast.For)
        ok = isinstance(st, ast.AugAssign) and isinstance(st.op, ast.Mult) and U(st.target) == "term" \
            and [U(a) for a in c.args] == ["s", "new_s"] and U(lp.target) == "(s, new_s)"
        ctx.check(rule, c, ok, "delta(old, new) multiplied into the term for each replaced index",
                  f"compensating delta `{U(st)}` changed", key=f"delta {U(lp.iter)[:20]}")
    # replacement on the tensor indices follows the same map
    rp = [a for a in walk_fn(fn) if isinstance(a, ast.Assign) and U(a.targets[0]) == "indices" and "sub.get" in U(a.value)]
    ctx.check(rule, fn, len(rp) == 1 and U(rp[0].value) == "[sub.get(s, s) for s in indices]", "target indices replaced on the tensor",
              "replacement of target indices changed", key="replace target")
    rr = [a for a in walk_fn(fn) if isinstance(a, ast.Assign) and U(a.targets[0]) == "indices[indices_i[s].pop(1)]"]
    ctx.check(rule, fn, len(rr) == 1 and U(rr[0].value) == "new_s", "second occurrence of a repeated index replaced",
              "replacement of repeated indices changed", key="replace repeated")
    la = [c for c in calls_in(fn) if call_name(c) == "get_lowest_avail_indices"]
    ctx.floor(rule, "fresh-name requests in remove", len(la), 2)
    for c in la:
        ok = U(c.args[0]) == "len(idx_list)" and "used_indices" in U(c.args[1]) and U(c.args[2]) == "space"
        ctx.check(rule, c, ok, "new names: lowest unused of the same space", f"`{U(c)[:80]}`", key=f"fresh {U(c.args[1])[:25]}")
    gs = [c for c in calls_in(fn) if call_name(c) == "get_symbols" and U(c.args[0]) == "additional_indices"]
    for c in gs:
        ctx.check(rule, c, len(c.args) == 2 and U(c.args[1]) == "spins", "new indices carry the same spin", f"`{U(c)}`", key="fresh spin")
    sp = [a for a in walk_fn(fn) if isinstance(a, ast.Assign) and U(a.targets[0]) == "spins" and U(a.value) != "None"]
    ctx.check(rule, fn, len(sp) == 2 and all(U(a.value) == "spin * len(idx_list)" and ("spin", True) in conditions(a) for a in sp),
              "spin string of the index key", "spin of the new indices changed", key="spins")
    upd = [c for c in calls_in(fn) if call_name(c) == "update" and U(c.func.value) == "used_indices[idx_key]"]
    ctx.check(rule, fn, len(upd) == 1 and U(upd[0].args[0]) == "additional_indices", "new names become unavailable",
              "new names are not registered as used", key="used update")
    # used names: all indices of the remaining term and of the tensor
    u1 = [n for n in walk_fn(fn) if isinstance(n, ast.For) and U(n.iter) == "set((s for s, _ in term._idx_counter))"]
    u2 = [n for n in walk_fn(fn) if isinstance(n, ast.For) and U(n.iter) == "indices" and any(
        call_name(c) == "add" and "used_indices" in U(c.func.value) for c in calls_in(n))]
    ctx.check(rule, fn, len(u1) == 1 and len(u2) >= 1, "used names = indices of the remaining term and of the tensor",
              "collection of used names changed", key="used names")
    tt = [n for n in walk_fn(fn) if isinstance(n, ast.If) and U(n.test) == "s.name in target_indices.get(idx_key, [])"]
    ctx.check(rule, fn, len(tt) == 1, "target indices on the tensor detected by name within (space, spin)", "target detection changed",
              key="target detection")
    rep = [n for n in walk_fn(fn) if isinstance(n, ast.For) and U(n.iter) == "Counter(indices).items()"]
    ok = len(rep) == 1 and any(isinstance(x, ast.If) and U(x.test) == "n > 1" for x in rep[0].body) \
        and any("extend((s for _ in range(n - 1)))" in U(c) for c in calls_in(rep[0]))
    ctx.check(rule, fn, ok, "an index occurring n times needs n-1 new indices", "repeated-index bookkeeping changed", key="repeat count")


def r14d(ctx):
    rule = "R14d"
    fn = ctx.model.fn(RM + "process_term")
    be = [a for a in walk_fn(fn) if isinstance(a, ast.Assign) and U(a.targets[0]) == "(base, exponent)"]
    ctx.check(rule, fn, len(be) == 1 and U(be[0].value) == "tensor.base_and_exponent", "base and exponent of the first occurrence",
              "exponent source changed", key="base exponent")
    lower = [n for n in walk_fn(fn) if isinstance(n, ast.AugAssign) and U(n.target) == "remaining_term" and "Pow(" in U(n.value)]
    ok = len(lower) == 1 and U(lower[0].value).replace(" ", "") == "Pow(base,exponent-1)" and ("exponent > 1", True) in conditions(lower[0])
    ctx.check(rule, fn, ok, "exponent > 1: base**(exponent-1) stays in the term", "exponent lowering changed", key="lower")
    tb = [a for a in walk_fn(fn) if isinstance(a, ast.Assign) and U(a.targets[0]) == "tensor" and ("exponent > 1", True) in conditions(a)]
    ok = len(tb) == 1 and U(tb[0].value) == "e.Expr(base, **tensor.assumptions).terms[0].objects[0]"
    ctx.check(rule, fn, ok, "the removed object is the bare base", "removed object not reduced to its base", key="bare base")
    ra = [n for n in walk_fn(fn) if isinstance(n, ast.Raise) and ("exponent < 1", True) in conditions(n)]
    ctx.check(rule, fn, len(ra) == 1, "exponents < 1 refused", "negative exponents no longer refused", key="neg exponent")
    # the non-recursive exit is only correct if nothing of the tensor is left in the remaining term
    single = [r for r in common.returns_of(fn) if U(r.value) == "{tuple(t_block): remaining_term}"]
    ctx.floor(rule, "non-recursive return of process_term", len(single), 1)
    for r in single:
        conds = conditions(r)
        one_obj = ("len(tensors) == 1", True) in conds
        no_power = any(pol and t in ("exponent == 1", "1 == exponent") for t, pol in conds) or \
            any((not pol) and t in ("exponent > 1", "exponent >= 2") for t, pol in conds)
        ctx.check(rule, r, one_obj and no_power, "no recursion only for a single occurrence with exponent 1",
                  "process_term returns without recursion whenever the tensor appears as one object, although base**(exponent-1) "
                  "was multiplied back into the remaining term: a tensor with exponent > 1 is removed only once and stays in "
                  "the block expression", key="single occurrence")
    back = [n for n in walk_fn(fn) if isinstance(n, ast.For) and U(n.iter) == "tensors[1:]"]
    ok = len(back) == 1 and U(back[0].body[0]) == f"remaining_term *= {U(back[0].target)}"
    ctx.check(rule, fn, ok, "further occurrences multiplied back", "other occurrences are not multiplied back", key="other occurrences")
    sp = [n for n in walk_fn(fn) if isinstance(n, ast.For) and U(n.iter) == "term.objects"]
    ok = len(sp) == 1
    if ok:
        iff = sp[0].body[0]
        ok = isinstance(iff, ast.If) and U(iff.test) == "obj.name == t_name" and U(iff.body[0]) == "tensors.append(obj)" \
            and U(iff.orelse[0]) == "remaining_term *= obj"
    ctx.check(rule, fn, ok, "objects split into occurrences and remainder by exact name", "object split changed", key="split")
    # derivative: placeholder must be replaced by the BASE
    d = ctx.model.fn("derivative:derivative")
    subs = [c for c in calls_in(d) if call_name(c) == "subs" and c.args and U(c.args[0]) == "x"]
    ctx.floor(rule, "placeholder back-substitution in derivative", len(subs), 1)
    for c in subs:
        arg = U(c.args[1])
        ok = arg.endswith(".base") or arg.endswith(".base_and_exponent[0]") or arg == "base"
        ctx.check(rule, c, ok, "placeholder x (standing for the base in x**exponent) replaced by the tensor's base",
                  f"the placeholder x stands for the BASE of the tensor (the term carries x**exponent), but it is replaced by "
                  f"`{arg}`, the full object base**exponent: the exponent is applied twice", key="placeholder base")
    ex = [a for a in common.assigns_to(d, "exponent")]
    ctx.check(rule, d, len(ex) == 1 and U(ex[0].value) == "obj.exponent", "exponent of the occurrence", "exponent source changed",
              key="deriv exponent")
    df = [c for c in calls_in(d) if call_name(c) == "diff"]
    ctx.check(rule, d, len(df) == 1 and [U(a) for a in df[0].args] == ["symmetrized_deriv_contrib", "x"], "d/dx of the symmetrised term",
              "diff call changed", key="diff")


def r14e(ctx):
    rule = "R14e"
    d = ctx.model.fn("derivative:derivative")
    inner = [n for n in walk_fn(d) if isinstance(n, ast.For) and U(n.iter) == "enumerate(tensor_obj)"]
    ctx.floor(rule, "occurrence loops in derivative", len(inner), 2)
    prod = [n for n in inner if enclosing(n, ast.For) in inner]
    ok = len(prod) == 1 and isinstance(prod[0].body[0], ast.If) and U(prod[0].body[0].test) == "i != other_i" \
        and U(prod[0].body[0].body[0]) == "deriv_contrib *= other_obj"
    ctx.check(rule, d, ok, "product rule: all other occurrences stay", "product rule changed", key="product rule")
    st = [a for a in common.assigns_to(d, "deriv_contrib") if isinstance(a, ast.Assign)]
    ctx.check(rule, d, bool(st) and U(st[0].value) == "remaining_obj.copy()", "contribution starts from the remainder",
              "start of the contribution changed", key="start")
    sg = [n for n in walk_fn(d) if isinstance(n, ast.AugAssign) and U(n.target) == "deriv_contrib" and U(n.value) == "factor"]
    ok = len(sg) == 1 and ("(factor := obj.prefactor) < 0", True) in conditions(sg[0]) or \
        (len(sg) == 1 and any("obj.prefactor" in t and pol for t, pol in conditions(sg[0])))
    ctx.check(rule, d, ok, "sign from re-canonicalising the tensor moved to the term", "sign handling changed", key="sign")
    key = [a for a in common.assigns_to(d, "key")]
    ctx.check(rule, d, len(key) == 1 and U(key[0].value) == "(obj.space, obj.spin)", "block key: space and spin of the minimised tensor",
              "block key changed", key="deriv key")
    acc = [n for n in walk_fn(d) if isinstance(n, ast.AugAssign) and U(n.target) == "derivative[key]"]
    ctx.check(rule, d, len(acc) == 1 and isinstance(acc[0].op, ast.Add) and U(acc[0].value) == "symmetrized_deriv_contrib",
              "contributions accumulated per block", "accumulation changed", key="deriv acc")
    mn = [c for c in calls_in(d) if call_name(c) == "minimize_tensor_indices"]
    ctx.check(rule, d, len(mn) == 1 and [U(a) for a in mn[0].args] == ["obj.idx", "target_names_by_space"], "indices minimised, targets kept",
              "minimisation call changed", key="deriv minimise")
    pm = [a for a in walk_fn(d) if isinstance(a, ast.Assign) and U(a.value) == "deriv_contrib.permute(*perms)"]
    po = [a for a in walk_fn(d) if isinstance(a, (ast.Assign, ast.AnnAssign)) and U(a.value) == "obj.permute(*perms).terms[0]"]
    ctx.check(rule, d, len(pm) == 1 and len(po) == 1, "same permutations applied to the term and to the tensor",
              "permutation of term/tensor changed", key="deriv permute")
    # remove_tensor: keys and accumulation
    pt = ctx.model.fn(RM + "process_term")
    tb = {}
    for a in walk_fn(pt):
        if isinstance(a, ast.Assign) and U(a.targets[0]) == "t_block":
            tb["nospin" if ("all((c == 'n' for c in spin))", True) in conditions(a) else "spin"] = U(a.value)
    ctx.check(rule, pt, tb == {"nospin": "[tensor.space]", "spin": "[f'{tensor.space}_{spin}']"}, "block key from the removed tensor",
              f"block keys {tb}", key="rm key")
    k = [a for a in common.assigns_to(pt, "key")]
    ctx.check(rule, pt, len(k) == 1 and U(k[0].value) == "tuple(sorted(t_block + list(blocks)))", "several occurrences: sorted tuple of blocks",
              "combined key changed", key="rm combined key")
    top = ctx.model.fn("simplify:remove_tensor")
    for f in (pt, top):
        acc = [n for n in walk_fn(f, nested=False) if isinstance(n, ast.AugAssign) and U(n.target) == "ret[key]"]
        ctx.check(rule, f, len(acc) == 1 and isinstance(acc[0].op, ast.Add) and U(acc[0].value) == "contrib",
                  f"{f.name}: contributions accumulated per key", f"{f.name}: accumulation changed", key=f"{f.name} acc")
    nn = [r for r in common.returns_of(pt) if U(r.value) == "{('none',): term}"]
    ctx.check(rule, pt, len(nn) == 1 and ("tensors", False) in conditions(nn[0]), "terms without the tensor kept under 'none'",
              "terms without the tensor are lost", key="none key")
    rc = [c for c in calls_in(pt) if call_name(c) == "remove"]
    ctx.check(rule, pt, len(rc) == 1 and [U(a) for a in rc[0].args] == ["remaining_term.terms[0]", "tensor", "target_indices"],
              "first occurrence removed from the remaining term", "remove call changed", key="remove call")


def run(ctx):
    for r, f in (("R14a", r14a), ("R14b", r14b), ("R14c", r14c), ("R14d", r14d), ("R14e", r14e)):
        if ctx.want(r):
            f(ctx)
    if ctx.want("R08g"):
        from . import c08
        c08.r08g(ctx)
