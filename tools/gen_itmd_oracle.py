#!/usr/bin/env python3
"""Writes sa/oracle/itmd_normal_forms.json from the CURRENT tree. Run once, by hand, after the
reference was confirmed against the derived quantities; the check never writes this file."""
import json, os, sys
HERE = os.path.dirname(os.path.dirname(os.path.abspath(__file__)))
sys.path.insert(0, HERE)
from sa.model import Model
from sa.core import Ctx
from sa.rules import itmd_ir as ir
ctx = Ctx("C12", "quick", Model("/repo"))
reg = ir.registry(ctx)
out = {}
for n in reg:
    p, t, c = ir.definition(ctx, n)
    out[n] = ir.show(ir.canonical(p, t, reg))
json.dump({"about": "reference normal forms of the registered intermediate definitions (once-expanded variant), "
           "generated from the pinned tree (+fix commits) and confirmed against GroundState derivations; "
           "notation: name[group|group], ~o0/~v0 = canonical summation indices, 1/(...) orbital-energy bracket",
           "normal_forms": out}, open(os.path.join(HERE, "sa/oracle/itmd_normal_forms.json"), "w"), indent=1)
print(sum(len(v) for v in out.values()), "terms in", len(out), "definitions")
