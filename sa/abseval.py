"""A5: decision-table extraction for small pure functions.

The ``if``/``elif``/``return`` tree of a whitelisted function is evaluated over
a finite *abstract* input domain (records with ``space``/``spin``/``kind``
fields, opaque keys).  Only comparisons, boolean operators, ``isinstance``,
attribute reads on abstract records, constant subscripts, integer arithmetic
and loops over literal collections are interpreted; every other construct is
an ``AnalysisError`` (never a guess).  Calls that build results
(``KroneckerDelta(...)``, ``Index(...)``, ``cls(...)``) are not executed: they
produce symbolic shapes ``Sym(name, args, kwargs)`` that the rule classifies.
No library code is imported.
"""
from __future__ import annotations

import ast
import operator

from .model import AnalysisError, U


class Rec:
    """Abstract record: attribute bag with a tag."""

    def __init__(self, tag, **attrs):
        self.tag = tag
        self.attrs = attrs

    def __getattr__(self, k):
        try:
            return self.__dict__["attrs"][k]
        except KeyError:
            raise AttributeError(k)

    # structural equality only for records that carry an explicit key
    def __eq__(self, other):
        if isinstance(other, Rec) and "_eqkey" in self.attrs and "_eqkey" in other.attrs:
            return self.attrs["_eqkey"] == other.attrs["_eqkey"]
        return self is other

    def __ne__(self, other):
        return not self.__eq__(other)

    def __hash__(self):
        if "_eqkey" in self.attrs:
            return hash(self.attrs["_eqkey"])
        return id(self)

    def __repr__(self):
        a = ",".join(f"{k}={v!r}" for k, v in self.attrs.items()
                     if not k.startswith("_"))
        return f"<{self.tag} {a}>"


class Sym:
    """Symbolic result shape of a call the table does not look into."""

    def __init__(self, name, args=(), kwargs=None):
        self.name, self.args, self.kwargs = name, tuple(args), dict(kwargs or {})

    def __repr__(self):
        a = [repr(x) for x in self.args] + [f"{k}={v!r}" for k, v in self.kwargs.items()]
        return f"{self.name}({', '.join(a)})"

    def key(self):
        return repr(self)

    # arithmetic on symbolic shapes builds symbolic shapes
    def __mul__(self, o):
        return Sym("Mul", (self, o))

    def __rmul__(self, o):
        return Sym("Mul", (o, self))

    def __neg__(self):
        return Sym("Mul", (-1, self))

    def __add__(self, o):
        return Sym("Add", (self, o))

    def __radd__(self, o):
        return Sym("Add", (o, self))

    def __sub__(self, o):
        return Sym("Add", (self, Sym("Mul", (-1, o))))


class Raised(Exception):
    def __init__(self, name, node=None):
        self.name = name
        self.node = node


class _Return(Exception):
    def __init__(self, v):
        self.v = v


class _Break(Exception):
    pass


class _Continue(Exception):
    pass


_CMP = {ast.Eq: operator.eq, ast.NotEq: operator.ne, ast.Lt: operator.lt,
        ast.LtE: operator.le, ast.Gt: operator.gt, ast.GtE: operator.ge}
_BIN = {ast.Add: operator.add, ast.Sub: operator.sub, ast.Mult: operator.mul,
        ast.Mod: operator.mod, ast.FloorDiv: operator.floordiv,
        ast.Pow: operator.pow, ast.BitAnd: operator.and_, ast.BitOr: operator.or_,
        ast.BitXor: operator.xor}


class Interp:
    """``env`` maps free names to values or to callables(hook)(interp, call,
    args, kwargs).  ``attr_hook(obj, attr)`` resolves attributes on non-Rec
    values."""

    MAX_STEPS = 20000

    def __init__(self, env=None, attr_hook=None, what="?"):
        self.env = dict(env or {})
        self.attr_hook = attr_hook
        self.what = what
        self.steps = 0

    # ------------------------------------------------------------ entry point
    def call(self, fn: ast.FunctionDef, args: dict):
        """Returns ('return', value) | ('raise', name)."""
        local = dict(args)
        try:
            self.block(fn.body, local)
        except _Return as r:
            return ("return", r.v)
        except Raised as r:
            return ("raise", r.name)
        return ("return", None)

    def unsupported(self, node, why="construct outside the table evaluator"):
        raise AnalysisError(
            f"A5({self.what}): {why}: `{U(node)[:80]}` line "
            f"{getattr(node, 'lineno', '?')}")

    # -------------------------------------------------------------- statements
    def block(self, stmts, L):
        for s in stmts:
            self.stmt(s, L)

    def stmt(self, s, L):
        self.steps += 1
        if self.steps > self.MAX_STEPS:
            self.unsupported(s, "step bound exceeded")
        if isinstance(s, ast.Expr):
            if isinstance(s.value, ast.Constant):  # docstring
                return
            self.ev(s.value, L)
        elif isinstance(s, ast.Return):
            raise _Return(self.ev(s.value, L) if s.value else None)
        elif isinstance(s, ast.If):
            if self.truth(self.ev(s.test, L), s.test):
                self.block(s.body, L)
            else:
                self.block(s.orelse, L)
        elif isinstance(s, ast.Assign):
            v = self.ev(s.value, L)
            for t in s.targets:
                self.assign(t, v, L)
        elif isinstance(s, ast.AnnAssign):
            if s.value is not None:
                self.assign(s.target, self.ev(s.value, L), L)
        elif isinstance(s, ast.AugAssign):
            cur = self.ev(_load(s.target), L)
            v = self.ev(s.value, L)
            if type(s.op) not in _BIN:
                self.unsupported(s)
            self.assign(s.target, self.binop(type(s.op), cur, v, s), L)
        elif isinstance(s, ast.Assert):
            if not self.truth(self.ev(s.test, L), s.test):
                raise Raised("AssertionError", s)
        elif isinstance(s, ast.Raise):
            name = "Exception"
            if s.exc is not None:
                e = s.exc.func if isinstance(s.exc, ast.Call) else s.exc
                name = U(e)
            raise Raised(name, s)
        elif isinstance(s, ast.For):
            it = self.ev(s.iter, L)
            if isinstance(it, dict):
                it = list(it.keys())
            if not isinstance(it, (list, tuple, range, str)):
                self.unsupported(s, "loop over a non-literal collection")
            broke = False
            live = isinstance(it, list)  # a list mutated in the body is seen by the loop (Python semantics)
            seq = it if live else list(it)
            k = 0
            while k < len(seq):
                x = seq[k]
                k += 1
                self.assign(s.target, x, L)
                try:
                    self.block(s.body, L)
                except _Break:
                    broke = True
                    break
                except _Continue:
                    continue
            if not broke:
                self.block(s.orelse, L)
        elif isinstance(s, ast.While):
            n = 0
            while self.truth(self.ev(s.test, L), s.test):
                n += 1
                if n > 200:
                    self.unsupported(s, "while bound exceeded")
                try:
                    self.block(s.body, L)
                except _Break:
                    break
                except _Continue:
                    continue
        elif isinstance(s, ast.Delete):
            for t in s.targets:
                if isinstance(t, ast.Subscript):
                    obj = self.ev(t.value, L)
                    k = self.ev(t.slice, L)
                    try:
                        del obj[k]
                    except (KeyError, IndexError, TypeError):
                        self.unsupported(s, "del of a missing key")
                elif isinstance(t, ast.Name):
                    L.pop(t.id, None)
                else:
                    self.unsupported(s)
        elif isinstance(s, ast.Continue):
            raise _Continue()
        elif isinstance(s, ast.Break):
            raise _Break()
        elif isinstance(s, (ast.Pass, ast.Import, ast.ImportFrom)):
            return
        elif isinstance(s, ast.Try):
            try:
                self.block(s.body, L)
            except Raised as r:
                for h in s.handlers:
                    names = []
                    if h.type is None:
                        names = [r.name]
                    elif isinstance(h.type, ast.Tuple):
                        names = [U(e) for e in h.type.elts]
                    else:
                        names = [U(h.type)]
                    if r.name in names or "Exception" in names:
                        self.block(h.body, L)
                        break
                else:
                    raise
            else:
                self.block(s.orelse, L)
        else:
            self.unsupported(s)

    def assign(self, t, v, L):
        if isinstance(t, ast.Name):
            L[t.id] = v
        elif isinstance(t, (ast.Tuple, ast.List)):
            try:
                vs = list(v)
            except TypeError:
                self.unsupported(t, "unpacking a non-sequence")
            if len(vs) != len(t.elts):
                raise Raised("ValueError", t)
            for e, x in zip(t.elts, vs):
                self.assign(e, x, L)
        elif isinstance(t, ast.Subscript):
            obj = self.ev(t.value, L)
            k = self.ev(t.slice, L)
            if not isinstance(obj, (dict, list)):
                self.unsupported(t)
            obj[k] = v
        else:
            self.unsupported(t)

    # ------------------------------------------------------------- expressions
    def truth(self, v, node):
        if isinstance(v, (Sym,)):
            self.unsupported(node, "truth value of a symbolic shape")
        if isinstance(v, Rec):
            return True
        return bool(v)

    def binop(self, op, a, b, node):
        for x in (a, b):
            if isinstance(x, Rec) and "_binop" in x.attrs:
                return x.attrs["_binop"](self, op, a, b, node)
        try:
            return _BIN[op](a, b)
        except Exception:
            self.unsupported(node, "arithmetic on unsupported values")

    def ev(self, n, L):
        self.steps += 1
        if isinstance(n, ast.Constant):
            return n.value
        if isinstance(n, ast.Name):
            if n.id in L:
                return L[n.id]
            if n.id in self.env:
                return self.env[n.id]
            if n.id in ("True", "False", "None"):
                return {"True": True, "False": False, "None": None}[n.id]
            if n.id in ("str", "int"):
                return {"str": str, "int": int}[n.id]
            self.unsupported(n, "free name without model")
        if isinstance(n, ast.Tuple):
            return tuple(self.ev(e, L) for e in n.elts)
        if isinstance(n, ast.List):
            return [self.ev(e, L) for e in n.elts]
        if isinstance(n, ast.Set):
            return {self.ev(e, L) for e in n.elts}
        if isinstance(n, ast.Dict):
            return {self.ev(k, L): self.ev(v, L) for k, v in zip(n.keys, n.values)}
        if isinstance(n, ast.NamedExpr):
            v = self.ev(n.value, L)
            self.assign(n.target, v, L)
            return v
        if isinstance(n, ast.UnaryOp):
            v = self.ev(n.operand, L)
            if isinstance(n.op, ast.Not):
                return not self.truth(v, n.operand)
            if isinstance(n.op, ast.USub):
                if isinstance(v, Rec):
                    return Sym("Mul", (-1, v))
                return -v
            if isinstance(n.op, ast.UAdd):
                return v
            self.unsupported(n)
        if isinstance(n, ast.BoolOp):
            if isinstance(n.op, ast.And):
                v = True
                for e in n.values:
                    v = self.ev(e, L)
                    if not self.truth(v, e):
                        return v
                return v
            v = False
            for e in n.values:
                v = self.ev(e, L)
                if self.truth(v, e):
                    return v
            return v
        if isinstance(n, ast.IfExp):
            return self.ev(n.body, L) if self.truth(self.ev(n.test, L), n.test) \
                else self.ev(n.orelse, L)
        if isinstance(n, ast.Compare):
            left = self.ev(n.left, L)
            for op, c in zip(n.ops, n.comparators):
                right = self.ev(c, L)
                if not self.cmp(op, left, right, n):
                    return False
                left = right
            return True
        if isinstance(n, ast.BinOp):
            if type(n.op) not in _BIN and not isinstance(n.op, ast.Div):
                self.unsupported(n)
            a, b = self.ev(n.left, L), self.ev(n.right, L)
            if isinstance(n.op, ast.Div):
                if getattr(a, "_symexpr", False) or getattr(b, "_symexpr", False):
                    try:
                        return a / b
                    except TypeError:
                        self.unsupported(n, "division of unsupported values")
                if isinstance(a, (Sym, Rec)) or isinstance(b, (Sym, Rec)):
                    return Sym("Div", (a, b))
                from fractions import Fraction as _F
                if isinstance(a, (int, _F)) and isinstance(b, (int, _F)) and b != 0:
                    return _F(a) / _F(b)
                self.unsupported(n, "true division")
            return self.binop(type(n.op), a, b, n)
        if isinstance(n, ast.Attribute):
            obj = self.ev(n.value, L)
            return self.getattr(obj, n.attr, n)
        if isinstance(n, ast.Subscript):
            obj = self.ev(n.value, L)
            if isinstance(n.slice, ast.Slice):
                lo = self.ev(n.slice.lower, L) if n.slice.lower else None
                hi = self.ev(n.slice.upper, L) if n.slice.upper else None
                st = self.ev(n.slice.step, L) if n.slice.step else None
                if not isinstance(obj, (list, tuple, str)):
                    self.unsupported(n, "slice of a non-sequence")
                return obj[lo:hi:st]
            k = self.ev(n.slice, L)
            try:
                return obj[k]
            except (KeyError, IndexError):
                raise Raised("KeyError" if isinstance(obj, dict) else "IndexError", n)
            except TypeError:
                self.unsupported(n, "subscript of unsupported value")
        if isinstance(n, (ast.ListComp, ast.GeneratorExp, ast.SetComp)):
            out = []
            self.comp(n.generators, 0, L, lambda L2: out.append(self.ev(n.elt, L2)))
            return set(out) if isinstance(n, ast.SetComp) else out
        if isinstance(n, ast.DictComp):
            out = {}

            def put(L2):
                out[self.ev(n.key, L2)] = self.ev(n.value, L2)
            self.comp(n.generators, 0, L, put)
            return out
        if isinstance(n, ast.Call):
            return self.callexpr(n, L)
        if isinstance(n, ast.JoinedStr):
            parts = []
            for v in n.values:
                if isinstance(v, ast.Constant):
                    parts.append(str(v.value))
                else:
                    x = self.ev(v.value, L)
                    if not _plain(x) or v.format_spec is not None or v.conversion != -1:
                        return Sym("fstring", (U(n),))
                    parts.append(str(x))
            return "".join(parts)
        if isinstance(n, ast.Lambda):
            params = [a.arg for a in n.args.args]
            closure = dict(L)

            def lam(interp, node, a, kw, n=n, params=params, closure=closure):
                L2 = dict(closure)
                L2.update(dict(zip(params, a)))
                return interp.ev(n.body, L2)
            return lam
        self.unsupported(n)

    def comp(self, gens, k, L, emit):
        if k == len(gens):
            emit(L)
            return
        g = gens[k]
        it = self.ev(g.iter, L)
        if isinstance(it, dict):
            it = list(it.keys())
        if not isinstance(it, (list, tuple, range, str, set)):
            self.unsupported(g.iter, "comprehension over a non-literal collection")
        for x in list(it):
            L2 = dict(L)
            self.assign(g.target, x, L2)
            if all(self.truth(self.ev(c, L2), c) for c in g.ifs):
                self.comp(gens, k + 1, L2, emit)

    def cmp(self, op, a, b, node):
        if isinstance(op, ast.In):
            return self.contains(b, a, node)
        if isinstance(op, ast.NotIn):
            return not self.contains(b, a, node)
        if isinstance(op, ast.Is):
            return a is b or (_plain(a) and _plain(b) and a == b and type(a) is type(b))
        if isinstance(op, ast.IsNot):
            return not (a is b or (_plain(a) and _plain(b) and a == b and type(a) is type(b)))
        if isinstance(a, Sym) or isinstance(b, Sym):
            if isinstance(op, (ast.Eq, ast.NotEq)) and isinstance(a, Sym) and isinstance(b, Sym):
                r = a.key() == b.key()
                return r if isinstance(op, ast.Eq) else not r
            self.unsupported(node, "comparison of a symbolic shape")
        if isinstance(a, Rec) or isinstance(b, Rec):
            if isinstance(op, ast.Eq):
                return a == b
            if isinstance(op, ast.NotEq):
                return a != b
            self.unsupported(node, "ordering of abstract records")
        try:
            return _CMP[type(op)](a, b)
        except TypeError:
            self.unsupported(node, "comparison of unsupported values")

    def contains(self, coll, x, node):
        if isinstance(coll, (list, tuple, set, dict, str, range)):
            if isinstance(x, Rec):
                return any(y is x or y == x for y in coll)
            try:
                return x in coll
            except TypeError:
                self.unsupported(node)
        self.unsupported(node, "membership in unsupported value")

    def getattr(self, obj, attr, node):
        if isinstance(obj, Rec):
            if attr in obj.attrs:
                v = obj.attrs[attr]
                return v(obj) if callable(v) and getattr(v, "_prop", False) else v
            if self.attr_hook is not None:
                r = self.attr_hook(self, obj, attr, node)
                if r is not NotImplemented:
                    return r
            self.unsupported(node, f"attribute {attr} not modelled on {obj.tag}")
        if isinstance(obj, dict) and attr in _DICT_METHODS:
            return ("__bound__", obj, attr)
        if isinstance(obj, list) and attr in _LIST_METHODS:
            return ("__bound__", obj, attr)
        if isinstance(obj, set) and attr in _SET_METHODS:
            return ("__bound__", obj, attr)
        if isinstance(obj, str) and attr in _STR_METHODS:
            return ("__bound__", obj, attr)
        if self.attr_hook is not None:
            r = self.attr_hook(self, obj, attr, node)
            if r is not NotImplemented:
                return r
        self.unsupported(node, f"attribute {attr}")

    def callexpr(self, n, L):
        # keyword / positional evaluation
        def args():
            a = []
            for x in n.args:
                if isinstance(x, ast.Starred):
                    a.extend(self.ev(x.value, L))
                else:
                    a.append(self.ev(x, L))
            kw = {k.arg: self.ev(k.value, L) for k in n.keywords if k.arg}
            return a, kw
        f = n.func
        if isinstance(f, ast.Name):
            name = f.id
            if name in L and callable(L[name]):
                a, kw = args()
                return L[name](self, n, a, kw)
            if name in self.env and callable(self.env[name]):
                a, kw = args()
                return self.env[name](self, n, a, kw)
            if name == "isinstance":
                a, kw = args()
                return self.isinstance(a[0], a[1], n)
            if name in _BUILTINS:
                # generator arguments are materialised as lists
                a, kw = args()
                if name in ("min", "max", "sorted") and "key" in kw:
                    k = kw["key"]
                    if not callable(k):
                        self.unsupported(n, "key function")
                    kw = dict(kw)
                    kw["key"] = lambda v, k=k: k(self, n, [v], {})
                try:
                    return _BUILTINS[name](*a, **kw)
                except Raised:
                    raise
                except Exception:
                    self.unsupported(n, f"builtin {name} on unsupported values")
            self.unsupported(n, f"call of unmodelled function {name}")
        if isinstance(f, ast.Attribute):
            obj = self.ev(f.value, L)
            a, kw = args()
            m = self.getattr(obj, f.attr, f) if not isinstance(obj, (dict, list, str, set)) \
                else ("__bound__", obj, f.attr)
            if isinstance(m, tuple) and m and m[0] == "__bound__":
                _, o, attr = m
                if isinstance(o, dict):
                    if attr in ("update", "pop", "copy", "setdefault", "clear"):
                        try:
                            return getattr(o, attr)(*a)
                        except Exception:
                            self.unsupported(n)
                    if attr == "items":
                        return list(o.items())
                    if attr == "keys":
                        return list(o.keys())
                    if attr == "values":
                        return list(o.values())
                    if attr == "get":
                        return o.get(*a)
                if isinstance(o, list):
                    if attr == "append":
                        o.append(a[0])
                        return None
                    if attr == "extend":
                        o.extend(a[0])
                        return None
                    if attr == "count":
                        return sum(1 for y in o if y is a[0] or (_plain(y) and y == a[0]))
                    if attr == "index":
                        return o.index(a[0])
                    if attr in ("insert", "clear", "pop", "reverse", "copy", "remove"):
                        try:
                            return getattr(o, attr)(*a)
                        except (IndexError, ValueError):
                            raise Raised("IndexError" if attr == "pop" else "ValueError", n)
                if isinstance(o, set):
                    if attr not in _SET_METHODS:
                        self.unsupported(n, f"set method {attr}")
                    try:
                        return getattr(o, attr)(*a)
                    except KeyError:
                        raise Raised("KeyError", n)
                if isinstance(o, str):
                    if attr not in _STR_METHODS:
                        self.unsupported(n, f"str method {attr}")
                    try:
                        return getattr(o, attr)(*a)
                    except Exception:
                        self.unsupported(n)
                self.unsupported(n)
            if callable(m):
                return m(self, n, a, kw)
            self.unsupported(n, "call of a non-callable abstract value")
        self.unsupported(n)

    def isinstance(self, obj, cls, node):
        if isinstance(cls, tuple):
            return any(self.isinstance(obj, c, node) for c in cls)
        if isinstance(obj, Rec) and isinstance(cls, Rec) and cls.tag == "class":
            return cls.attrs["name"] in obj.attrs.get("_classes", ())
        if isinstance(cls, Rec) and cls.tag == "class":
            return False
        if cls is int:
            return isinstance(obj, int) and not isinstance(obj, bool)
        if cls is str:
            return isinstance(obj, str)
        self.unsupported(node, "isinstance against an unmodelled class")


_DICT_METHODS = ("items", "keys", "values", "get", "update", "pop", "copy", "setdefault", "clear")
_LIST_METHODS = ("append", "extend", "index", "count", "insert", "clear", "pop", "reverse", "copy", "remove")
_SET_METHODS = ("add", "update", "discard", "remove", "copy", "union", "intersection", "difference", "pop", "clear",
                "difference_update", "issubset")
_STR_METHODS = ("count", "startswith", "endswith", "isdigit", "isnumeric", "join", "split",
                "replace", "strip", "lstrip", "rstrip", "lower", "upper", "index", "find")


def _plain(v):
    return isinstance(v, (int, str, bool, type(None), float))


def _load(t):
    import copy
    t2 = copy.copy(t)
    t2.ctx = ast.Load()
    return t2


_BUILTINS = {
    "len": len, "range": range, "all": all, "any": any, "int": int,
    "str": str, "abs": abs, "sum": sum, "list": list, "tuple": tuple,
    "min": min, "max": max, "sorted": sorted, "bool": bool, "enumerate":
    lambda *a: list(enumerate(*a)), "zip": lambda *a: list(zip(*a)),
    "set": set, "dict": dict, "reversed": lambda x: list(reversed(x)),
}


def klass(name):
    return Rec("class", name=name)


def prop(f):
    f._prop = True
    return f
